//! C11 — schema conformance through every entry point that takes a schema.
//!   conform      {schema, ep, ...datum}  -> {"accept": true} | {"reject": kind, "msg": ...}
//!   schema_dump  {schema}                -> resolved ValidatorSchema as JSON
//! The schema is Cedar JSON schema.  Entities / contexts are Cedar JSON with explicit
//! `__entity` / `__extn` escapes.  For the object-level entry points (Request::new,
//! Context::validate, from_entities, add, upsert) the data are first built WITHOUT a schema.
use crate::{render, util};
use cedar_policy::{Context, Entities, Entity, EntityUid, Request, Schema};
use cedar_policy_core::entities::conformance::err::EntitySchemaConformanceError as CE;
use cedar_policy_core::entities::err::EntitiesError;
use cedar_policy_core::entities::json::err::JsonDeserializationError as JE;
use cedar_policy_core::validator::types::{BoolType, EntityKind, Type};
use cedar_policy_core::validator::{ValidatorEntityTypeKind, ValidatorSchema};
use serde_json::{json, Value as J};

pub fn dispatch(cmd: &str, v: &J) -> Option<Result<J, String>> {
    match cmd {
        "conform" => Some(conform(v)),
        "schema_dump" => Some(schema_dump(v)),
        _ => None,
    }
}

thread_local! {
    /// the last schema parsed (consecutive commands usually share one; Schema::from_json_value is
    /// a pure function of the JSON text, so this only saves time)
    static LAST_SCHEMA: std::cell::RefCell<Option<(String, Result<Schema, String>)>> = std::cell::RefCell::new(None);
}

fn schema_of(v: &J) -> Result<Result<Schema, String>, String> {
    let j = v.get("schema").ok_or("no schema")?.clone();
    let key = j.to_string();
    let hit = LAST_SCHEMA.with(|c| match &*c.borrow() {
        Some((k, s)) if *k == key => Some(s.clone()),
        _ => None,
    });
    if let Some(s) = hit {
        return Ok(s);
    }
    let s = Schema::from_json_value(j).map_err(|e| util::chain(&e));
    LAST_SCHEMA.with(|c| *c.borrow_mut() = Some((key, s.clone())));
    Ok(s)
}

fn conformance_kind(e: &CE) -> &'static str {
    match e {
        CE::UnexpectedEntityAttr(_) => "UnexpectedEntityAttr",
        CE::UnexpectedEntityTag(_) => "UnexpectedEntityTag",
        CE::MissingRequiredEntityAttr(_) => "MissingRequiredEntityAttr",
        CE::TypeMismatch(_) => "TypeMismatch",
        CE::InvalidAncestorType(_) => "InvalidAncestorType",
        CE::UnexpectedEntityType(_) => "UnexpectedEntityType",
        CE::UndeclaredAction(_) => "UndeclaredAction",
        CE::ActionDeclarationMismatch(_) => "ActionDeclarationMismatch",
        CE::ExtensionFunctionLookup(_) => "ExtensionFunctionLookup",
        CE::InvalidEnumEntity(_) => "InvalidEnumEntity",
        #[allow(unreachable_patterns)]
        _ => "OtherConformance",
    }
}

fn json_kind(e: &JE) -> String {
    match e {
        JE::EntitySchemaConformance(c) => conformance_kind(c).to_string(),
        JE::Serde(_) => "Json:Serde".into(),
        JE::ParseEscape(_) => "Json:ParseEscape".into(),
        JE::RestrictedExpressionError(_) => "Json:RestrictedExpression".into(),
        JE::ExpectedLiteralEntityRef(_) => "Json:ExpectedLiteralEntityRef".into(),
        JE::ExpectedExtnValue(_) => "Json:ExpectedExtnValue".into(),
        JE::ActionParentIsNotAction(_) => "Json:ActionParentIsNotAction".into(),
        JE::MissingImpliedConstructor(_) => "Json:MissingImpliedConstructor".into(),
        JE::IncorrectNumOfArguments(_) => "Json:IncorrectNumOfArguments".into(),
        JE::DuplicateKey(_) => "Json:DuplicateKey".into(),
        JE::EntityAttributeEvaluation(_) => "Json:EntityAttributeEvaluation".into(),
        JE::UnexpectedRecordAttr(_) => "Json:UnexpectedRecordAttr".into(),
        JE::MissingRequiredRecordAttr(_) => "Json:MissingRequiredRecordAttr".into(),
        JE::TypeMismatch(_) => "Json:TypeMismatch".into(),
        JE::ExprTag(_) => "Json:ExprTag".into(),
        JE::Null(_) => "Json:Null".into(),
        JE::FailedExtensionFunctionLookup(_) => "Json:FailedExtensionFunctionLookup".into(),
        #[allow(unreachable_patterns)]
        _ => "Json:Other".into(),
    }
}

fn entities_kind(e: &EntitiesError) -> String {
    match e {
        EntitiesError::InvalidEntity(c) => conformance_kind(c).to_string(),
        EntitiesError::Deserialization(j) => json_kind(j),
        EntitiesError::Duplicate(_) => "Entities:Duplicate".into(),
        EntitiesError::TransitiveClosureError(_) => "Entities:TransitiveClosure".into(),
        EntitiesError::Serialization(_) => "Entities:Serialization".into(),
        EntitiesError::InvalidEntityStructure(_) => "Entities:InvalidEntityStructure".into(),
    }
}

fn request_kind(e: &cedar_policy::RequestValidationError) -> &'static str {
    use cedar_policy::RequestValidationError as R;
    match e {
        R::UndeclaredAction(_) => "UndeclaredAction",
        R::UndeclaredPrincipalType(_) => "UndeclaredPrincipalType",
        R::UndeclaredResourceType(_) => "UndeclaredResourceType",
        R::InvalidPrincipalType(_) => "InvalidPrincipalType",
        R::InvalidResourceType(_) => "InvalidResourceType",
        R::InvalidContext(_) => "InvalidContext",
        R::TypeOfContext(_) => "TypeOfContext",
        R::InvalidEnumEntity(_) => "InvalidEnumEntity",
        #[allow(unreachable_patterns)]
        _ => "OtherRequestValidation",
    }
}

fn context_json_kind(e: &cedar_policy::ContextJsonError) -> String {
    use cedar_policy::ContextJsonError as C;
    match e {
        C::JsonDeserialization(inner) => {
            // the wrapped core error is not directly matchable through the API type; classify by text
            let _ = inner;
            "Json:ContextDeserialization".into()
        }
        C::MissingAction(_) => "UndeclaredAction".into(),
        #[allow(unreachable_patterns)]
        _ => "Json:OtherContext".into(),
    }
}

fn accept() -> J {
    json!({"accept": true})
}
fn reject(kind: impl Into<String>, msg: String) -> J {
    json!({"reject": kind.into(), "msg": msg})
}

fn api_uid(v: &J) -> Result<EntityUid, String> {
    Ok(EntityUid::from(util::uid(v)?))
}

/// entities built without a schema, one by one (direct parents only, no closure)
fn raw_entities(v: Option<&J>) -> Result<Vec<Entity>, String> {
    let empty = vec![];
    let arr = v.and_then(|x| x.as_array()).unwrap_or(&empty);
    arr.iter()
        .map(|e| Entity::from_json_value(e.clone(), None).map_err(|e| format!("raw entity: {}", util::chain(&e))))
        .collect()
}

fn ents_result(r: Result<Entities, EntitiesError>) -> J {
    match r {
        Ok(_) => accept(),
        Err(e) => reject(entities_kind(&e), util::chain(&e)),
    }
}

pub fn conform(v: &J) -> Result<J, String> {
    let schema = match schema_of(v)? {
        Ok(s) => s,
        Err(m) => return Ok(json!({"schema_error": m})),
    };
    let ep = util::s(v, "ep")?;
    match ep {
        "request_new" => {
            let q = v.get("request").ok_or("no request")?;
            let p = api_uid(q.get("principal").ok_or("no principal")?)?;
            let a = api_uid(q.get("action").ok_or("no action")?)?;
            let r = api_uid(q.get("resource").ok_or("no resource")?)?;
            let c = Context::from_json_value(q.get("context").ok_or("no context")?.clone(), None)
                .map_err(|e| format!("raw context: {}", util::chain(&e)))?;
            Ok(match Request::new(p, a, r, c, Some(&schema)) {
                Ok(_) => accept(),
                Err(e) => reject(request_kind(&e), util::chain(&e)),
            })
        }
        "context_validate" => {
            let a = api_uid(v.get("action").ok_or("no action")?)?;
            let c = Context::from_json_value(v.get("context").ok_or("no context")?.clone(), None)
                .map_err(|e| format!("raw context: {}", util::chain(&e)))?;
            Ok(match c.validate(&schema, &a) {
                Ok(()) => accept(),
                Err(e) => reject(request_kind(&e), util::chain(&e)),
            })
        }
        // Context::from_json_{value,str} with (schema, action); when it succeeds also report what
        // Context::validate and Request-independent re-serialisation say about the produced context
        "context_from_json" => {
            let a = api_uid(v.get("action").ok_or("no action")?)?;
            let cj = v.get("context").ok_or("no context")?.clone();
            let r = if v.get("via").and_then(|x| x.as_str()) == Some("str") {
                Context::from_json_str(&cj.to_string(), Some((&schema, &a)))
            } else {
                Context::from_json_value(cj, Some((&schema, &a)))
            };
            Ok(match r {
                Err(e) => reject(context_json_kind(&e), util::chain(&e)),
                Ok(c) => {
                    let then = match c.validate(&schema, &a) {
                        Ok(()) => accept(),
                        Err(e) => reject(request_kind(&e), util::chain(&e)),
                    };
                    json!({"accept": true, "then_validate": then})
                }
            })
        }
        "entities_from_entities" => {
            let es = raw_entities(v.get("entities"))?;
            Ok(ents_result(Entities::from_entities(es, Some(&schema))))
        }
        "entities_from_json" => {
            let ej = v.get("entities").ok_or("no entities")?.clone();
            let r = if v.get("via").and_then(|x| x.as_str()) == Some("str") {
                Entities::from_json_str(&ej.to_string(), Some(&schema))
            } else {
                Entities::from_json_value(ej, Some(&schema))
            };
            Ok(ents_result(r))
        }
        "entities_add" | "entities_upsert" | "entities_add_from_json" => {
            // the base store is built with the schema from conformant `base` entities
            let base = raw_entities(v.get("base"))?;
            let store = match Entities::from_entities(base, Some(&schema)) {
                Ok(s) => s,
                Err(e) => return Ok(json!({"base_error": util::chain(&e)})),
            };
            if ep == "entities_add_from_json" {
                let ej = v.get("entities").ok_or("no entities")?.clone();
                return Ok(ents_result(store.add_entities_from_json_value(ej, Some(&schema))));
            }
            let es = raw_entities(v.get("entities"))?;
            Ok(ents_result(if ep == "entities_add" {
                store.add_entities(es, Some(&schema))
            } else {
                store.upsert_entities(es, Some(&schema))
            }))
        }
        "entity_from_json" => {
            let ej = v.get("entity").ok_or("no entity")?.clone();
            let r = if v.get("via").and_then(|x| x.as_str()) == Some("str") {
                Entity::from_json_str(ej.to_string(), Some(&schema))
            } else {
                Entity::from_json_value(ej, Some(&schema))
            };
            Ok(match r {
                Ok(_) => accept(),
                Err(e) => reject(entities_kind(&e), util::chain(&e)),
            })
        }
        _ => Err(format!("bad entry point {ep}")),
    }
}

// ------------------------------------------------------------------ schema dump
fn ty(t: &Type) -> J {
    match t {
        Type::Never => json!("never"),
        Type::Bool(BoolType::AnyBool) => json!({"bool": "any"}),
        Type::Bool(BoolType::True) => json!({"bool": "true"}),
        Type::Bool(BoolType::False) => json!({"bool": "false"}),
        Type::Long => json!("long"),
        Type::String => json!("string"),
        Type::Set { element_type: None } => json!({"set": null}),
        Type::Set { element_type: Some(e) } => json!({"set": ty(e)}),
        Type::Entity(EntityKind::AnyEntity) => json!({"entity": "any"}),
        Type::Entity(EntityKind::Entity(lub)) => match lub.get_single_entity() {
            Some(n) => json!({"entity": [render::etype(n)]}),
            None => json!({"entity_lub_debug": format!("{lub:?}")}),
        },
        Type::Record { attrs, open_attributes } => {
            let mut a: Vec<(String, J)> = attrs
                .iter()
                .map(|(k, at)| (k.to_string(), json!([render::str_cp(k), ty(&at.attr_type), at.is_required])))
                .collect();
            a.sort_by(|x, y| x.0.cmp(&y.0));
            json!({"record": a.into_iter().map(|x| x.1).collect::<Vec<_>>(),
                   "open": matches!(open_attributes, cedar_policy_core::validator::types::OpenTag::OpenAttributes)})
        }
        Type::ExtensionType { name } => json!({"ext": render::name(name)}),
    }
}

pub fn schema_dump(v: &J) -> Result<J, String> {
    let schema = match schema_of(v)? {
        Ok(s) => s,
        Err(m) => return Ok(json!({"schema_error": m})),
    };
    let vs: &ValidatorSchema = schema.as_ref();
    let mut ets: Vec<(String, J)> = vs
        .entity_types()
        .map(|et| {
            let mut attrs: Vec<(String, J)> = et
                .attributes()
                .iter()
                .map(|(k, at)| (k.to_string(), json!([render::str_cp(k), ty(&at.attr_type), at.is_required])))
                .collect();
            attrs.sort_by(|x, y| x.0.cmp(&y.0));
            let mut desc: Vec<String> = et.descendants.iter().map(|d| d.to_string()).collect();
            desc.sort();
            let en = match &et.kind {
                ValidatorEntityTypeKind::Enum(ch) => J::Array(ch.iter().map(|e| render::str_cp(e.as_ref())).collect()),
                ValidatorEntityTypeKind::Standard(_) => J::Null,
            };
            (
                et.name().to_string(),
                json!({"name": render::etype(et.name()),
                       "attrs": attrs.into_iter().map(|x| x.1).collect::<Vec<_>>(),
                       "open": et.open_attributes().is_open_pub(),
                       "tags": et.tag_type().map(ty),
                       "descendants": desc,
                       "enum": en}),
            )
        })
        .collect();
    ets.sort_by(|x, y| x.0.cmp(&y.0));
    let mut acts: Vec<(String, J)> = vs
        .action_ids()
        .map(|a| {
            let mut ps: Vec<String> = a.applies_to_principals().map(|t| t.to_string()).collect();
            ps.sort();
            let mut rs: Vec<String> = a.applies_to_resources().map(|t| t.to_string()).collect();
            rs.sort();
            let mut ds: Vec<J> = a.descendants().map(render::uid).collect();
            ds.sort_by_key(|x| x.to_string());
            (
                a.name().to_string(),
                json!({"uid": render::uid(a.name()), "principals": ps, "resources": rs,
                       "context": ty(a.context()), "descendants": ds}),
            )
        })
        .collect();
    acts.sort_by(|x, y| x.0.cmp(&y.0));
    // the action entities the schema contributes (Schema::action_entities)
    let mut aes: Vec<(String, J)> = match schema.action_entities() {
        Err(e) => return Ok(json!({"action_entities_error": util::chain(&e)})),
        Ok(es) => es
            .iter()
            .map(|e| {
                let core: &cedar_policy_core::ast::Entity = e.as_ref();
                let mut anc: Vec<J> = core.ancestors().map(render::uid).collect();
                anc.sort_by_key(|x| x.to_string());
                (
                    core.uid().to_string(),
                    json!({"uid": render::uid(core.uid()), "ancestors": anc,
                           "nattrs": core.attrs().count(), "ntags": core.tags().count()}),
                )
            })
            .collect(),
    };
    aes.sort_by(|x, y| x.0.cmp(&y.0));
    Ok(json!({
        "entity_types": ets.into_iter().map(|x| x.1).collect::<Vec<_>>(),
        "actions": acts.into_iter().map(|x| x.1).collect::<Vec<_>>(),
        "action_entities": aes.into_iter().map(|x| x.1).collect::<Vec<_>>(),
    }))
}

trait OpenPub {
    fn is_open_pub(self) -> bool;
}
impl OpenPub for cedar_policy_core::validator::types::OpenTag {
    fn is_open_pub(self) -> bool {
        matches!(self, cedar_policy_core::validator::types::OpenTag::OpenAttributes)
    }
}
