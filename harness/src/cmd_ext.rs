//! C07: `ext_call` — an extension-function / comparison expression tree evaluated by the real
//! evaluator; the result is rendered from the value's canonical representation as numbers
//! (decimal: i64 in 10^-4 units; datetime/duration: milliseconds; ip: family, address, prefix).
//!
//! tree :=  {"s": "text"} | {"i": "123"} | {"b": true}
//!       |  {"call": "fn", "args": [tree...]}          (extension function application)
//!       |  {"op": "<" | "<=" | "==", "args": [tree, tree]}
//! route "ast": the expression is built with the public constructors (any arity);
//! route "text": {"text": "..."} is parsed by the Cedar expression parser.
use crate::{render, util};
use cedar_policy_core::ast::{self, ExprKind, Literal, Value, ValueKind};
use cedar_policy_core::entities::Entities;
use cedar_policy_core::evaluator::Evaluator;
use cedar_policy_core::extensions::Extensions;
use serde_json::{json, Value as J};
use std::str::FromStr;

pub fn dispatch(cmd: &str, v: &J) -> Option<Result<J, String>> {
    match cmd {
        "ext_call" => Some(ext_call(v)),
        _ => None,
    }
}

fn build(t: &J) -> Result<ast::Expr, String> {
    if let Some(s) = t.get("s").and_then(|x| x.as_str()) {
        return Ok(ast::Expr::val(s));
    }
    if let Some(i) = t.get("i").and_then(|x| x.as_str()) {
        let z: i64 = i.parse().map_err(|e| format!("bad long {i}: {e}"))?;
        return Ok(ast::Expr::val(z));
    }
    if let Some(b) = t.get("b").and_then(|x| x.as_bool()) {
        return Ok(ast::Expr::val(b));
    }
    let args: Vec<ast::Expr> = t
        .get("args")
        .and_then(|x| x.as_array())
        .ok_or("no args")?
        .iter()
        .map(build)
        .collect::<Result<_, _>>()?;
    if let Some(f) = t.get("call").and_then(|x| x.as_str()) {
        let n = ast::Name::from_str(f).map_err(|e| format!("bad function name {f}: {e}"))?;
        return Ok(ast::Expr::call_extension_fn(n, args));
    }
    if let Some(op) = t.get("op").and_then(|x| x.as_str()) {
        let mut it = args.into_iter();
        let (a, b) = match (it.next(), it.next(), it.next()) {
            (Some(a), Some(b), None) => (a, b),
            _ => return Err("relation needs two operands".into()),
        };
        return match op {
            "<" => Ok(ast::Expr::less(a, b)),
            "<=" => Ok(ast::Expr::lesseq(a, b)),
            "==" => Ok(ast::Expr::is_eq(a, b)),
            _ => Err(format!("bad op {op}")),
        };
    }
    Err(format!("bad tree {t}"))
}

fn str_of(e: &ast::Expr) -> Option<String> {
    match e.expr_kind() {
        ExprKind::Lit(Literal::String(s)) => Some(s.to_string()),
        _ => None,
    }
}

/// "<n>ms" -> n
fn ms_of(s: &str) -> Option<i64> {
    s.strip_suffix("ms")?.parse().ok()
}

fn render_ext(ev: &ast::RepresentableExtensionValue) -> J {
    let tn = ev.typename().to_string();
    let canon = ev.value().canonical_repr();
    let (f, args) = match canon {
        Some((f, args)) => (f.to_string(), args),
        None => return json!({"ext": ["no_canonical_repr", tn]}),
    };
    let arg = |i: usize| -> Option<&ast::Expr> { args.get(i).map(|r| r.as_ref()) };
    match tn.as_str() {
        "decimal" => {
            // Display: [-]<int>.<4 digits>
            let s = arg(0).and_then(str_of).unwrap_or_default();
            let neg = s.starts_with('-');
            let t = s.trim_start_matches('-');
            match t.split_once('.') {
                Some((i, fr)) if fr.len() == 4 => {
                    match (i.parse::<i128>(), fr.parse::<i128>()) {
                        (Ok(i), Ok(fr)) => {
                            let v = i * 10000 + fr;
                            json!({"ext": ["decimal", (if neg { -v } else { v }).to_string()]})
                        }
                        _ => json!({"ext": ["decimal_unreadable", s]}),
                    }
                }
                _ => json!({"ext": ["decimal_unreadable", s]}),
            }
        }
        "ipaddr" => {
            let s = arg(0).and_then(str_of).unwrap_or_default();
            match s.split_once('/') {
                Some((a, p)) => match (std::net::IpAddr::from_str(a), p.parse::<u32>()) {
                    (Ok(std::net::IpAddr::V4(x)), Ok(p)) => json!({"ext": ["ip", false, u32::from(x).to_string(), p]}),
                    (Ok(std::net::IpAddr::V6(x)), Ok(p)) => json!({"ext": ["ip", true, u128::from(x).to_string(), p]}),
                    _ => json!({"ext": ["ip_unreadable", s]}),
                },
                None => json!({"ext": ["ip_unreadable", s]}),
            }
        }
        "duration" => {
            let s = arg(0).and_then(str_of).unwrap_or_default();
            match ms_of(&s) {
                Some(n) if f == "duration" => json!({"ext": ["duration", n.to_string()]}),
                _ => json!({"ext": ["duration_unreadable", s]}),
            }
        }
        "datetime" => {
            // offset(datetime("1970-01-01"), duration("<n>ms"))
            let base = arg(0).and_then(|e| match e.expr_kind() {
                ExprKind::ExtensionFunctionApp { fn_name, args } if fn_name.to_string() == "datetime" => args.first().and_then(str_of),
                _ => None,
            });
            let off = arg(1).and_then(|e| match e.expr_kind() {
                ExprKind::ExtensionFunctionApp { fn_name, args } if fn_name.to_string() == "duration" => args.first().and_then(str_of),
                _ => None,
            });
            match (f.as_str(), base.as_deref(), off.as_deref().and_then(ms_of)) {
                ("offset", Some("1970-01-01"), Some(n)) => json!({"ext": ["datetime", n.to_string()]}),
                _ => json!({"ext": ["datetime_unreadable", format!("{:?}", off)]}),
            }
        }
        _ => json!({"ext": ["other", tn]}),
    }
}

fn render_value(v: &Value) -> J {
    match v.value_kind() {
        ValueKind::ExtensionValue(ev) => render_ext(ev),
        _ => render::value(v),
    }
}

thread_local! {
    static REQ: ast::Request = util::request(&json!({
        "principal": {"type": "U", "id": "p"}, "action": {"type": "Action", "id": "a"},
        "resource": {"type": "R", "id": "r"}, "context": {}})).expect("fixed request");
}

pub fn ext_call(v: &J) -> Result<J, String> {
    let route = util::s(v, "route")?;
    let e = match route {
        "ast" => build(v.get("expr").ok_or("no expr")?)?,
        "text" => match ast::Expr::from_str(util::s(v, "text")?) {
            Ok(e) => e,
            Err(err) => return Ok(json!({"parse_error": format!("{err}")})),
        },
        _ => return Err(format!("bad route {route}")),
    };
    let es = Entities::new();
    let q = REQ.with(|q| q.clone());
    let ev = Evaluator::new(q, &es, Extensions::all_available());
    let slots = ast::SlotEnv::new();
    Ok(match ev.interpret(&e, &slots) {
        Ok(val) => json!({"ok": render_value(&val)}),
        Err(err) => json!({"err": render::eval_err(&err), "msg": format!("{err}")}),
    })
}
