//! C10 — entity / context JSON round trip and schema-directed parsing.
//!   entjson_rt     {entities:[{uid,attrs:[[k,V]],tags:[[k,V]],parents:[uid]}], schema?}
//!   entjson_ctx_rt {pairs:[[k,V]], schema?, action?}
//!   entjson_parse  {kind:"entities"|"entity"|"context", json | text, schema?, action?}
//! V (a value given structurally, built through the public constructors):
//!   {"b":bool} {"l":"<i64>"} {"s":string} {"e":{type,id}} {"set":[V]} {"rec":[[k,V]]} {"x":[fn,arg]}
//! Dumps use the same V encoding; an extension value is rendered as the constructor call it carries
//! (`x`) and additionally by render::value (`sem`, the computed value).  No expectations here.
use crate::{render, util};
use cedar_policy::{Context, Entities, Entity, EntityUid, RestrictedExpression, Schema};
use cedar_policy_core::ast::{self, ExprKind, Literal, PartialValue, Value, ValueKind};
use cedar_policy_core::entities::conformance::err::EntitySchemaConformanceError as CE;
use cedar_policy_core::entities::err::EntitiesError;
use cedar_policy_core::entities::json::err::JsonDeserializationError as JE;
use serde_json::{json, Value as J};
use std::collections::HashSet;

pub fn dispatch(cmd: &str, v: &J) -> Option<Result<J, String>> {
    match cmd {
        "entjson_rt" => Some(entities_rt(v)),
        "entjson_ctx_rt" => Some(context_rt(v)),
        "entjson_parse" => Some(parse(v)),
        _ => None,
    }
}

thread_local! {
    static LAST_SCHEMA: std::cell::RefCell<Option<(String, Result<Schema, String>)>> = std::cell::RefCell::new(None);
}

fn schema_of(v: &J) -> Result<Option<Schema>, String> {
    let j = match v.get("schema") {
        None | Some(J::Null) => return Ok(None),
        Some(j) => j.clone(),
    };
    let key = j.to_string();
    let hit = LAST_SCHEMA.with(|c| match &*c.borrow() {
        Some((k, s)) if *k == key => Some(s.clone()),
        _ => None,
    });
    let s = match hit {
        Some(s) => s,
        None => {
            let s = Schema::from_json_value(j).map_err(|e| util::chain(&e));
            LAST_SCHEMA.with(|c| *c.borrow_mut() = Some((key, s.clone())));
            s
        }
    };
    s.map(Some).map_err(|e| format!("schema: {e}"))
}

// ------------------------------------------------------------------ error classes
fn conformance_kind(e: &CE) -> &'static str {
    match e {
        CE::UnexpectedEntityAttr(_) => "UnexpectedEntityAttr",
        CE::UnexpectedEntityTag(_) => "UnexpectedEntityTag",
        CE::MissingRequiredEntityAttr(_) => "MissingRequiredEntityAttr",
        CE::TypeMismatch(_) => "TypeMismatch",
        CE::InvalidAncestorType(_) => "InvalidAncestorType",
        CE::UnexpectedEntityType(_) => "UnexpectedEntityType",
        CE::UndeclaredAction(_) => "UndeclaredAction",
        CE::ActionDeclarationMismatch(_) => "ActionDeclarationMismatch",
        CE::ExtensionFunctionLookup(_) => "ExtensionFunctionLookup",
        CE::InvalidEnumEntity(_) => "InvalidEnumEntity",
        #[allow(unreachable_patterns)]
        _ => "OtherConformance",
    }
}

fn json_kind(e: &JE) -> String {
    match e {
        JE::EntitySchemaConformance(c) => format!("Conf:{}", conformance_kind(c)),
        JE::Serde(_) => "Serde".into(),
        JE::ParseEscape(_) => "ParseEscape".into(),
        JE::RestrictedExpressionError(_) => "RestrictedExpression".into(),
        JE::ExpectedLiteralEntityRef(_) => "ExpectedLiteralEntityRef".into(),
        JE::ExpectedExtnValue(_) => "ExpectedExtnValue".into(),
        JE::ActionParentIsNotAction(_) => "ActionParentIsNotAction".into(),
        JE::MissingImpliedConstructor(_) => "MissingImpliedConstructor".into(),
        JE::IncorrectNumOfArguments(_) => "IncorrectNumOfArguments".into(),
        JE::DuplicateKey(_) => "DuplicateKey".into(),
        JE::EntityAttributeEvaluation(_) => "EntityAttributeEvaluation".into(),
        JE::UnexpectedRecordAttr(_) => "UnexpectedRecordAttr".into(),
        JE::MissingRequiredRecordAttr(_) => "MissingRequiredRecordAttr".into(),
        JE::TypeMismatch(_) => "TypeMismatch".into(),
        JE::ExprTag(_) => "ExprTag".into(),
        JE::Null(_) => "Null".into(),
        JE::FailedExtensionFunctionLookup(_) => "FailedExtensionFunctionLookup".into(),
        #[allow(unreachable_patterns)]
        _ => "Other".into(),
    }
}

/// (stage, class): stage "deser" = the JSON layer, "invalid" = the conformance check after parsing,
/// "store" = duplicate / closure errors of the store constructor, "ser" = serialisation
fn entities_err(e: &EntitiesError) -> J {
    let (stage, class) = match e {
        EntitiesError::InvalidEntity(c) => ("invalid", conformance_kind(c).to_string()),
        EntitiesError::Deserialization(j) => ("deser", json_kind(j)),
        EntitiesError::Duplicate(_) => ("store", "Duplicate".into()),
        EntitiesError::TransitiveClosureError(_) => ("store", "TransitiveClosure".into()),
        EntitiesError::Serialization(_) => ("ser", "Serialization".into()),
        EntitiesError::InvalidEntityStructure(_) => ("store", "InvalidEntityStructure".into()),
    };
    json!({"error": class, "stage": stage, "msg": util::chain(e)})
}

fn context_err(e: &cedar_policy::ContextJsonError) -> J {
    use cedar_policy::ContextJsonError as C;
    let (stage, class) = match e {
        C::JsonDeserialization(j) => ("deser", json_kind(j)),
        C::ContextCreation(c) => (
            "create",
            match c {
                cedar_policy::ContextCreationError::NotARecord(_) => "NotARecord".to_string(),
                cedar_policy::ContextCreationError::Evaluation(_) => "Evaluation".to_string(),
                cedar_policy::ContextCreationError::ExpressionConstruction(_) => "ExpressionConstruction".to_string(),
            },
        ),
        C::MissingAction(_) => ("schema", "MissingAction".into()),
        #[allow(unreachable_patterns)]
        _ => ("other", "Other".into()),
    };
    json!({"error": class, "stage": stage, "msg": util::chain(e)})
}

// ------------------------------------------------------------------ V -> Cedar objects (public constructors)
fn api_uid(v: &J) -> Result<EntityUid, String> {
    Ok(EntityUid::from(util::uid(v)?))
}

fn rexpr(v: &J) -> Result<RestrictedExpression, String> {
    let o = v.as_object().ok_or("V: not an object")?;
    let (k, x) = o.iter().next().ok_or("V: empty")?;
    match k.as_str() {
        "b" => Ok(RestrictedExpression::new_bool(x.as_bool().ok_or("V.b")?)),
        "l" => Ok(RestrictedExpression::new_long(
            x.as_str().ok_or("V.l")?.parse::<i64>().map_err(|e| format!("V.l: {e}"))?,
        )),
        "s" => Ok(RestrictedExpression::new_string(x.as_str().ok_or("V.s")?.to_string())),
        "e" => Ok(RestrictedExpression::new_entity_uid(api_uid(x)?)),
        "set" => Ok(RestrictedExpression::new_set(
            x.as_array().ok_or("V.set")?.iter().map(rexpr).collect::<Result<Vec<_>, _>>()?,
        )),
        "rec" => {
            let mut fields = vec![];
            for kv in x.as_array().ok_or("V.rec")? {
                let key = kv.get(0).and_then(|s| s.as_str()).ok_or("V.rec key")?.to_string();
                fields.push((key, rexpr(kv.get(1).ok_or("V.rec value")?)?));
            }
            RestrictedExpression::new_record(fields).map_err(|e| format!("V.rec: {e}"))
        }
        "x" => {
            let f = x.get(0).and_then(|s| s.as_str()).ok_or("V.x fn")?;
            let a = x.get(1).and_then(|s| s.as_str()).ok_or("V.x arg")?;
            match f {
                "decimal" => Ok(RestrictedExpression::new_decimal(a)),
                "ip" => Ok(RestrictedExpression::new_ip(a)),
                "datetime" => Ok(RestrictedExpression::new_datetime(a)),
                "duration" => Ok(RestrictedExpression::new_duration(a)),
                _ => Err(format!("V.x: unknown constructor {f}")),
            }
        }
        _ => Err(format!("V: bad tag {k}")),
    }
}

fn pairs(v: Option<&J>) -> Result<Vec<(String, RestrictedExpression)>, String> {
    let empty = vec![];
    let arr = v.and_then(|x| x.as_array()).unwrap_or(&empty);
    let mut out = vec![];
    for kv in arr {
        let key = kv.get(0).and_then(|s| s.as_str()).ok_or("pair key")?.to_string();
        out.push((key, rexpr(kv.get(1).ok_or("pair value")?)?));
    }
    Ok(out)
}

fn build_entity(e: &J) -> Result<Entity, String> {
    let uid = api_uid(e.get("uid").ok_or("no uid")?)?;
    let attrs = pairs(e.get("attrs"))?;
    let tags = pairs(e.get("tags"))?;
    let empty = vec![];
    let parents: HashSet<EntityUid> = e
        .get("parents")
        .and_then(|x| x.as_array())
        .unwrap_or(&empty)
        .iter()
        .map(api_uid)
        .collect::<Result<_, _>>()?;
    Entity::new_with_tags(uid, attrs, parents, tags).map_err(|e| format!("Entity::new_with_tags: {}", util::chain(&e)))
}

// ------------------------------------------------------------------ Cedar objects -> dumps
fn uid_plain(u: &ast::EntityUID) -> J {
    json!({"type": u.entity_type().to_string(), "id": AsRef::<str>::as_ref(u.eid())})
}

fn expr_v(e: &ast::Expr) -> J {
    match e.expr_kind() {
        ExprKind::Lit(Literal::Bool(b)) => json!({"b": b}),
        ExprKind::Lit(Literal::Long(i)) => json!({"l": i.to_string()}),
        ExprKind::Lit(Literal::String(s)) => json!({"s": s.as_str()}),
        ExprKind::Lit(Literal::EntityUID(u)) => json!({"e": uid_plain(u)}),
        ExprKind::Set(xs) => json!({"set": xs.iter().map(expr_v).collect::<Vec<_>>()}),
        ExprKind::Record(m) => json!({"rec": m.iter().map(|(k, x)| json!([k.as_str(), expr_v(x)])).collect::<Vec<_>>()}),
        ExprKind::ExtensionFunctionApp { fn_name, args } => {
            let mut a = vec![json!(fn_name.to_string())];
            for x in args.iter() {
                match x.expr_kind() {
                    ExprKind::Lit(Literal::String(s)) => a.push(json!(s.as_str())),
                    _ => a.push(expr_v(x)),
                }
            }
            json!({"x": a})
        }
        other => json!({"other_expr": format!("{other:?}")}),
    }
}

fn value_v(v: &Value) -> J {
    match v.value_kind() {
        ValueKind::Lit(Literal::Bool(b)) => json!({"b": b}),
        ValueKind::Lit(Literal::Long(i)) => json!({"l": i.to_string()}),
        ValueKind::Lit(Literal::String(s)) => json!({"s": s.as_str()}),
        ValueKind::Lit(Literal::EntityUID(u)) => json!({"e": uid_plain(u)}),
        ValueKind::Set(s) => json!({"set": s.iter().map(value_v).collect::<Vec<_>>()}),
        ValueKind::Record(r) => json!({"rec": r.iter().map(|(k, x)| json!([k.as_str(), value_v(x)])).collect::<Vec<_>>()}),
        ValueKind::ExtensionValue(ev) => {
            let re: ast::RestrictedExpr = ast::RestrictedExpr::from((**ev).clone());
            let e: &ast::Expr = re.as_ref();
            expr_v(e)
        }
    }
}

fn pvalue(pv: &PartialValue) -> J {
    match pv {
        PartialValue::Value(v) => json!({"v": value_v(v), "sem": render::value(v)}),
        PartialValue::Residual(e) => json!({"residual": e.to_string()}),
    }
}

fn entity_dump(core: &ast::Entity) -> J {
    let mut attrs: Vec<(String, J)> = core.attrs().map(|(k, v)| (k.to_string(), json!([k.as_str(), pvalue(v)]))).collect();
    attrs.sort_by(|a, b| a.0.cmp(&b.0));
    let mut tags: Vec<(String, J)> = core.tags().map(|(k, v)| (k.to_string(), json!([k.as_str(), pvalue(v)]))).collect();
    tags.sort_by(|a, b| a.0.cmp(&b.0));
    let mut anc: Vec<J> = core.ancestors().map(uid_plain).collect();
    anc.sort_by_key(|x| x.to_string());
    anc.dedup();
    json!({"uid": uid_plain(core.uid()),
           "attrs": attrs.into_iter().map(|x| x.1).collect::<Vec<_>>(),
           "tags": tags.into_iter().map(|x| x.1).collect::<Vec<_>>(),
           "ancestors": anc})
}

fn store_dump(es: &Entities) -> J {
    let mut v: Vec<(String, J)> = es
        .iter()
        .map(|e| {
            let core: &ast::Entity = e.as_ref();
            (uid_plain(core.uid()).to_string(), entity_dump(core))
        })
        .collect();
    v.sort_by(|a, b| a.0.cmp(&b.0));
    J::Array(v.into_iter().map(|x| x.1).collect())
}

fn context_dump(c: &Context) -> J {
    let core: &ast::Context = c.as_ref();
    match core {
        ast::Context::Value(rec) => {
            let mut kv: Vec<(String, J)> = rec
                .iter()
                .map(|(k, v)| (k.to_string(), json!([k.as_str(), {"v": value_v(v), "sem": render::value(v)}])))
                .collect();
            kv.sort_by(|a, b| a.0.cmp(&b.0));
            json!({"context": kv.into_iter().map(|x| x.1).collect::<Vec<_>>()})
        }
        ast::Context::RestrictedResidual(_) => json!({"context_residual": core.to_string()}),
    }
}

fn store_result(r: Result<Entities, EntitiesError>) -> J {
    match r {
        Ok(es) => json!({"store": store_dump(&es)}),
        Err(e) => entities_err(&e),
    }
}

fn entity_result(r: Result<Entity, EntitiesError>) -> J {
    match r {
        Ok(e) => json!({"entity": entity_dump(e.as_ref())}),
        Err(e) => entities_err(&e),
    }
}

fn context_result(r: Result<Context, cedar_policy::ContextJsonError>) -> J {
    match r {
        Ok(c) => context_dump(&c),
        Err(e) => context_err(&e),
    }
}

// ------------------------------------------------------------------ commands
/// store built through the public constructors -> to_json_value / write_to_json -> parsed back
/// without and with the schema; the same for every single entity of the store
fn entities_rt(v: &J) -> Result<J, String> {
    let schema = schema_of(v)?;
    let empty = vec![];
    let arr = v.get("entities").and_then(|x| x.as_array()).unwrap_or(&empty);
    let es: Vec<Entity> = arr.iter().map(build_entity).collect::<Result<_, _>>()?;
    let store = match Entities::from_entities(es, None) {
        Ok(s) => s,
        Err(e) => return Ok(json!({"build_error": entities_err(&e)})),
    };
    let mut out = serde_json::Map::new();
    out.insert("original".into(), store_dump(&store));
    match store.to_json_value() {
        Err(e) => {
            out.insert("to_json_error".into(), entities_err(&e));
        }
        Ok(j) => {
            out.insert("json".into(), j.clone());
            let back = Entities::from_json_value(j.clone(), None);
            if let Ok(b) = &back {
                out.insert("deep_eq_noschema".into(), json!(store.deep_eq(b)));
            }
            out.insert("back_noschema".into(), store_result(back));
            if let Some(s) = &schema {
                out.insert("back_schema".into(), store_result(Entities::from_json_value(j.clone(), Some(s))));
            }
            // text path
            let mut buf: Vec<u8> = vec![];
            match store.write_to_json(&mut buf) {
                Err(e) => {
                    out.insert("write_error".into(), entities_err(&e));
                }
                Ok(()) => {
                    let text = String::from_utf8_lossy(&buf).to_string();
                    out.insert("text_equals_value".into(), json!(serde_json::from_str::<J>(&text).ok().as_ref() == Some(&j)));
                    let back = Entities::from_json_str(&text, None);
                    if let Ok(b) = &back {
                        out.insert("deep_eq_text".into(), json!(store.deep_eq(b)));
                    }
                    out.insert("back_text".into(), store_result(back));
                }
            }
        }
    }
    // single entities (as stored: ancestors already closed)
    let mut singles: Vec<(String, J)> = vec![];
    for e in store.iter() {
        let core: &ast::Entity = e.as_ref();
        let mut o = serde_json::Map::new();
        o.insert("original".into(), entity_dump(core));
        match e.to_json_value() {
            Err(err) => {
                o.insert("to_json_error".into(), entities_err(&err));
            }
            Ok(j) => {
                o.insert("json".into(), j.clone());
                let back = Entity::from_json_value(j.clone(), None);
                if let Ok(b) = &back {
                    o.insert("deep_eq_noschema".into(), json!(e.deep_eq(b)));
                }
                o.insert("back_noschema".into(), entity_result(back));
                if let Some(s) = &schema {
                    o.insert("back_schema".into(), entity_result(Entity::from_json_value(j, Some(s))));
                }
            }
        }
        singles.push((uid_plain(core.uid()).to_string(), J::Object(o)));
    }
    singles.sort_by(|a, b| a.0.cmp(&b.0));
    out.insert("singles".into(), J::Array(singles.into_iter().map(|x| x.1).collect()));
    if let Some(s) = &schema {
        out.insert(
            "schema_actions".into(),
            match s.action_entities() {
                Ok(a) => store_dump(&a),
                Err(e) => entities_err(&e),
            },
        );
    }
    Ok(J::Object(out))
}

fn context_rt(v: &J) -> Result<J, String> {
    let schema = schema_of(v)?;
    let ps = pairs(v.get("pairs"))?;
    let ctx = match Context::from_pairs(ps) {
        Ok(c) => c,
        Err(e) => return Ok(json!({"build_error": util::chain(&e)})),
    };
    let mut out = serde_json::Map::new();
    out.insert("original".into(), context_dump(&ctx));
    match ctx.to_json_value() {
        Err(e) => {
            out.insert("to_json_error".into(), json!({"error": "Serialization", "stage": "ser", "msg": util::chain(&e)}));
        }
        Ok(j) => {
            out.insert("json".into(), j.clone());
            out.insert("back_noschema".into(), context_result(Context::from_json_value(j.clone(), None)));
            out.insert("back_text".into(), context_result(Context::from_json_str(&j.to_string(), None)));
            if let (Some(s), Some(a)) = (&schema, v.get("action")) {
                let a = api_uid(a)?;
                out.insert("back_schema".into(), context_result(Context::from_json_value(j, Some((s, &a)))));
            }
        }
    }
    Ok(J::Object(out))
}

fn parse(v: &J) -> Result<J, String> {
    let schema = schema_of(v)?;
    let kind = util::s(v, "kind")?;
    let text = v.get("text").and_then(|t| t.as_str());
    let json = v.get("json").cloned();
    match kind {
        "entities" => Ok(store_result(match (text, json) {
            (Some(t), _) => Entities::from_json_str(t, schema.as_ref()),
            (None, Some(j)) => Entities::from_json_value(j, schema.as_ref()),
            _ => return Err("no json/text".into()),
        })),
        "entity" => Ok(entity_result(match (text, json) {
            (Some(t), _) => Entity::from_json_str(t, schema.as_ref()),
            (None, Some(j)) => Entity::from_json_value(j, schema.as_ref()),
            _ => return Err("no json/text".into()),
        })),
        "context" => {
            let a = match v.get("action") {
                Some(a) if !a.is_null() => Some(api_uid(a)?),
                _ => None,
            };
            let sa = match (&schema, &a) {
                (Some(s), Some(a)) => Some((s, a)),
                _ => None,
            };
            Ok(context_result(match (text, json) {
                (Some(t), _) => Context::from_json_str(t, sa),
                (None, Some(j)) => Context::from_json_value(j, sa),
                _ => return Err("no json/text".into()),
            }))
        }
        _ => Err(format!("bad kind {kind}")),
    }
}
