//! typecheck: run the Rust typechecker / validator on a policy and dump, per request
//! environment, the verdict and the type-annotated expression (ast::Expr<Option<Type>>).
//! Shared by C03, C14–C18.
use crate::render;
use cedar_policy_core::ast::{self, ExprKind, Literal};
use cedar_policy_core::extensions::Extensions;
use cedar_policy_core::validator::typecheck::{PolicyCheck, Typechecker};
use cedar_policy_core::validator::types::{BoolType, EntityKind, RequestEnv, Type};
use cedar_policy_core::validator::{ValidationMode, Validator, ValidatorSchema};
use serde_json::{json, Value as J};
use std::str::FromStr;

pub fn dispatch(cmd: &str, v: &J) -> Option<Result<J, String>> {
    match cmd {
        "typecheck" => Some(typecheck(v)),
        _ => None,
    }
}

/// schema given as {"schema_json": <json>} or {"schema_cedar": "<text>"}
pub fn schema_of(v: &J) -> Result<Result<ValidatorSchema, String>, String> {
    if let Some(j) = v.get("schema_json") {
        Ok(ValidatorSchema::from_json_value(j.clone(), Extensions::all_available()).map_err(|e| format!("{e}")))
    } else if let Some(t) = v.get("schema_cedar").and_then(|x| x.as_str()) {
        Ok(ValidatorSchema::from_cedarschema_str(t, Extensions::all_available())
            .map(|(s, _)| s)
            .map_err(|e| format!("{e}")))
    } else {
        Err("no schema".into())
    }
}

pub fn mode_of(v: &J) -> ValidationMode {
    match v.get("mode").and_then(|m| m.as_str()) {
        Some("permissive") => ValidationMode::Permissive,
        #[allow(unreachable_patterns)]
        Some("partial") => ValidationMode::Partial,
        _ => ValidationMode::Strict,
    }
}

/// complete rendering of a validator type (entity LUBs with several elements included)
pub fn ty(t: &Type) -> J {
    match t {
        Type::Never => json!("never"),
        Type::Bool(BoolType::AnyBool) => json!({"bool": "any"}),
        Type::Bool(BoolType::True) => json!({"bool": "true"}),
        Type::Bool(BoolType::False) => json!({"bool": "false"}),
        Type::Long => json!("long"),
        Type::String => json!("string"),
        Type::Set { element_type: None } => json!({"set": null}),
        Type::Set { element_type: Some(e) } => json!({"set": ty(e)}),
        Type::Entity(EntityKind::AnyEntity) => json!({"entity": "any"}),
        Type::Entity(EntityKind::Entity(lub)) => match lub.get_single_entity() {
            Some(n) => json!({"entity": [render::etype(n)]}),
            None => {
                // the elements are only reachable through Display: __cedar::internal::Union<A, B>
                let s = t.to_string();
                let inner = s.trim_start_matches("__cedar::internal::Union<").trim_end_matches('>');
                let names: Vec<J> = inner
                    .split(", ")
                    .filter_map(|n| ast::EntityType::from_str(n).ok())
                    .map(|n| render::etype(&n))
                    .collect();
                json!({"entity": names})
            }
        },
        Type::Record { attrs, open_attributes } => {
            let mut a: Vec<(String, J)> = attrs
                .iter()
                .map(|(k, at)| (k.to_string(), json!([render::str_cp(k), ty(&at.attr_type), at.is_required])))
                .collect();
            a.sort_by(|x, y| x.0.cmp(&y.0));
            json!({"record": a.into_iter().map(|x| x.1).collect::<Vec<_>>(), "open": matches!(open_attributes, cedar_policy_core::validator::types::OpenTag::OpenAttributes)})
        }
        Type::ExtensionType { name } => json!({"ext": render::name(name)}),
    }
}

fn prim(l: &Literal) -> J {
    match l {
        Literal::Bool(b) => json!({"bool": b}),
        Literal::Long(i) => json!({"long": i.to_string()}),
        Literal::String(s) => json!({"string": render::str_cp(s)}),
        Literal::EntityUID(u) => json!({"entity": render::uid(u)}),
    }
}

fn var(v: &ast::Var) -> &'static str {
    match v {
        ast::Var::Principal => "principal",
        ast::Var::Action => "action",
        ast::Var::Resource => "resource",
        ast::Var::Context => "context",
    }
}

pub fn unop(op: &ast::UnaryOp) -> &'static str {
    match op {
        ast::UnaryOp::Not => "not",
        ast::UnaryOp::Neg => "neg",
        ast::UnaryOp::IsEmpty => "isEmpty",
    }
}

pub fn binop(op: &ast::BinaryOp) -> &'static str {
    match op {
        ast::BinaryOp::Eq => "eq",
        ast::BinaryOp::Less => "less",
        ast::BinaryOp::LessEq => "lesseq",
        ast::BinaryOp::Add => "add",
        ast::BinaryOp::Sub => "sub",
        ast::BinaryOp::Mul => "mul",
        ast::BinaryOp::In => "in",
        ast::BinaryOp::Contains => "contains",
        ast::BinaryOp::ContainsAll => "containsAll",
        ast::BinaryOp::ContainsAny => "containsAny",
        ast::BinaryOp::GetTag => "getTag",
        ast::BinaryOp::HasTag => "hasTag",
    }
}

/// structural dump of an expression; `ann` renders the node annotation
pub fn expr<T>(e: &ast::Expr<T>, ann: &dyn Fn(&T) -> J) -> J {
    let node = match e.expr_kind() {
        ExprKind::Lit(l) => json!(["lit", prim(l)]),
        ExprKind::Var(v) => json!(["var", var(v)]),
        ExprKind::Slot(s) => json!(["slot", if s.is_principal() { "principal" } else { "resource" }]),
        ExprKind::Unknown(u) => json!(["unknown", render::str_cp(&u.name), u.type_annotation.as_ref().map(|t| t.to_string())]),
        ExprKind::If { test_expr, then_expr, else_expr } => {
            json!(["if", expr(test_expr, ann), expr(then_expr, ann), expr(else_expr, ann)])
        }
        ExprKind::And { left, right } => json!(["and", expr(left, ann), expr(right, ann)]),
        ExprKind::Or { left, right } => json!(["or", expr(left, ann), expr(right, ann)]),
        ExprKind::UnaryApp { op, arg } => json!(["unop", unop(op), expr(arg, ann)]),
        ExprKind::BinaryApp { op, arg1, arg2 } => json!(["binop", binop(op), expr(arg1, ann), expr(arg2, ann)]),
        ExprKind::ExtensionFunctionApp { fn_name, args } => {
            json!(["ext", render::name(fn_name), args.iter().map(|a| expr(a, ann)).collect::<Vec<_>>()])
        }
        ExprKind::GetAttr { expr: e1, attr } => json!(["getattr", expr(e1, ann), render::str_cp(attr)]),
        ExprKind::HasAttr { expr: e1, attr } => json!(["hasattr", expr(e1, ann), render::str_cp(attr)]),
        ExprKind::Like { expr: e1, pattern } => json!(["like", expr(e1, ann), pattern
            .iter()
            .map(|p| match p {
                ast::PatternElem::Char(c) => json!(*c as u32),
                ast::PatternElem::Wildcard => json!("star"),
            })
            .collect::<Vec<_>>()]),
        ExprKind::Is { expr: e1, entity_type } => json!(["is", expr(e1, ann), render::etype(entity_type)]),
        ExprKind::Set(items) => json!(["set", items.iter().map(|a| expr(a, ann)).collect::<Vec<_>>()]),
        ExprKind::Record(m) => json!(["record", m.iter().map(|(k, x)| json!([render::str_cp(k), expr(x, ann)])).collect::<Vec<_>>()]),
        #[allow(unreachable_patterns)]
        _ => json!(["unsupported"]),
    };
    json!({"t": ann(e.data()), "n": node})
}

pub fn typed_expr(e: &ast::Expr<Option<Type>>) -> J {
    expr(e, &|t: &Option<Type>| t.as_ref().map(ty).unwrap_or(J::Null))
}

pub fn untyped_expr(e: &ast::Expr) -> J {
    expr(e, &|_: &()| J::Null)
}

pub fn request_env(env: &RequestEnv<'_>) -> J {
    match env {
        RequestEnv::DeclaredAction { principal, action, resource, context, principal_slot, resource_slot } => json!({
            "principal": render::etype(principal), "action": render::uid(action), "resource": render::etype(resource),
            "context": ty(context),
            "principal_slot": principal_slot.as_ref().map(render::etype),
            "resource_slot": resource_slot.as_ref().map(render::etype),
        }),
        RequestEnv::UndeclaredAction => json!("undeclared_action"),
    }
}

pub fn error_kind(e: &cedar_policy_core::validator::ValidationError) -> String {
    // the variant name is the first identifier of the Debug rendering
    let d = format!("{e:?}");
    d.split(|c: char| !c.is_alphanumeric() && c != '_').next().unwrap_or("").to_string()
}

pub fn template_of(v: &J) -> Result<Result<ast::Template, String>, String> {
    let text = v.get("policy").and_then(|p| p.as_str()).ok_or("no policy")?;
    Ok(cedar_policy_core::parser::parse_policy_or_template(Some(ast::PolicyID::from_string("p0")), text)
        .map_err(|e| format!("{e}")))
}

pub fn typecheck(v: &J) -> Result<J, String> {
    let schema = match schema_of(v)? {
        Ok(s) => s,
        Err(m) => return Ok(json!({"schema_error": m})),
    };
    let t = match template_of(v)? {
        Ok(t) => t,
        Err(m) => return Ok(json!({"parse_error": m})),
    };
    let mode = mode_of(v);
    let tc = Typechecker::new(&schema, mode);
    let mut envs = vec![];
    for (env, check) in tc.typecheck_by_request_env(&t) {
        let (res, errs, typed) = match check {
            PolicyCheck::Success(e) => ("success", vec![], Some(typed_expr(&e))),
            PolicyCheck::Irrelevant(errs, e) => ("irrelevant", errs, Some(typed_expr(&e))),
            PolicyCheck::Fail(errs) => ("fail", errs, None),
        };
        let mut kinds: Vec<String> = errs.iter().map(error_kind).collect();
        kinds.sort();
        envs.push(json!({"env": request_env(&env), "result": res, "errors": kinds, "typed": typed}));
    }
    // whole-policy verdict of the validator (includes the rbac checks and the impossible-policy warning)
    let mut pset = ast::PolicySet::new();
    let _ = pset.add_template(t.clone());
    if t.slots().count() == 0 {
        let _ = pset.link(t.id().clone(), ast::PolicyID::from_string("p0link"), std::collections::HashMap::new());
    }
    let validator = Validator::new(schema);
    let res = validator.validate(&pset, mode);
    let mut verrs: Vec<String> = res.validation_errors().map(error_kind).collect();
    verrs.sort();
    let mut vwarns: Vec<String> = res
        .validation_warnings()
        .map(|w| {
            let d = format!("{w:?}");
            d.split(|c: char| !c.is_alphanumeric() && c != '_').next().unwrap_or("").to_string()
        })
        .collect();
    vwarns.sort();
    Ok(json!({"condition": untyped_expr(&t.condition()), "envs": envs,
              "validation_passed": res.validation_passed(), "validation_errors": verrs, "validation_warnings": vwarns}))
}
