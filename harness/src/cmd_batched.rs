//! C15 — batched (loader-driven) authorization.
//!   batched {schema, templates?, policies, request, entities, store_schema: bool, variant, budgets:[u32]}
//!     -> {"validates": bool, "ordinary": "Allow"|"Deny", "ordinary_errors": [ids], "n": usize,
//!         "store": [[uid, [ancestor uids]]...],
//!         "runs": [{"budget": b, "outcome": {"ok": d} | {"insufficient": true} | {"err": class, "msg": m},
//!                   "calls": [{"requested": [uid..], "returned": [[uid, exists]..]}..]}..]}
//! The loader is backed by the given store; a requested uid that the store does not contain is
//! answered `None` (what the EntityLoader documentation prescribes for non-existent entities).
//! Variants:
//!   exact            exactly the requested uids
//!   extra_fresh      requested + up to two more entities of the store that were never returned before
//!   extra_any        requested + up to two more entities of the store (stateless: may return an entity again)
//!   ancestors_fresh  requested + the entities of their ancestors, except those returned before
//!   ancestors_any    requested + the entities of their ancestors (stateless)
//!   all_any          requested + every entity of the store, every time (stateless)
//! No expectations here: the harness builds the objects, calls the public API and renders.
use crate::util;
use cedar_policy::{Authorizer, Entities, Entity, EntityLoader, EntityUid, Policy, PolicyId, PolicySet, Request, Schema, SlotId, Template, ValidationMode, Validator};
use cedar_policy_core::ast;
use cedar_policy_core::batched_evaluator::err::BatchedEvalError;
use serde_json::{json, Value as J};
use std::collections::{BTreeSet, HashMap, HashSet};

pub fn dispatch(cmd: &str, v: &J) -> Option<Result<J, String>> {
    match cmd {
        "batched" => Some(batched(v)),
        _ => None,
    }
}

thread_local! {
    static LAST_SCHEMA: std::cell::RefCell<Option<(String, Result<Schema, String>)>> = std::cell::RefCell::new(None);
}

fn schema_of(v: &J) -> Result<Result<Schema, String>, String> {
    let j = v.get("schema").ok_or("no schema")?.clone();
    let key = j.to_string();
    let hit = LAST_SCHEMA.with(|c| match &*c.borrow() {
        Some((k, s)) if *k == key => Some(s.clone()),
        _ => None,
    });
    if let Some(s) = hit {
        return Ok(s);
    }
    let s = Schema::from_json_value(j).map_err(|e| util::chain(&e));
    LAST_SCHEMA.with(|c| *c.borrow_mut() = Some((key, s.clone())));
    Ok(s)
}

fn us(u: &ast::EntityUID) -> String {
    format!("{u}")
}

struct StoreLoader<'a> {
    store: &'a Entities,
    variant: &'a str,
    /// sorted uids of the store (deterministic choice of the "extra" entities)
    order: Vec<EntityUid>,
    returned_before: HashSet<EntityUid>,
    ncalls: usize,
    calls: Vec<J>,
}

impl EntityLoader for StoreLoader<'_> {
    fn load_entities(&mut self, uids: &HashSet<EntityUid>) -> HashMap<EntityUid, Option<Entity>> {
        let mut out: HashMap<EntityUid, Option<Entity>> = HashMap::new();
        for u in uids {
            out.insert(u.clone(), self.store.get(u).cloned());
        }
        let fresh_only = self.variant.ends_with("_fresh");
        let mut extra: Vec<EntityUid> = vec![];
        if self.variant.starts_with("extra") && !self.order.is_empty() {
            // two entities of the store chosen by the call number
            let k = self.order.len();
            for j in 0..2 {
                extra.push(self.order[(self.ncalls * 2 + j) % k].clone());
            }
            if fresh_only {
                // take the first two never returned instead
                extra = self.order.iter().filter(|u| !self.returned_before.contains(*u) && !uids.contains(*u)).take(2).cloned().collect();
            }
        } else if self.variant.starts_with("all") {
            // the whole store, every time
            extra = self.order.clone();
        } else if self.variant.starts_with("ancestors") {
            for u in uids {
                if let Some(it) = self.store.ancestors(u) {
                    for a in it {
                        extra.push(a.clone());
                    }
                }
            }
        }
        for u in extra {
            if out.contains_key(&u) {
                continue;
            }
            if fresh_only && self.returned_before.contains(&u) {
                continue;
            }
            if let Some(e) = self.store.get(&u) {
                out.insert(u.clone(), Some(e.clone()));
            }
        }
        for u in out.keys() {
            self.returned_before.insert(u.clone());
        }
        let mut req: Vec<String> = uids.iter().map(|u| us(u.as_ref())).collect();
        req.sort();
        let mut ret: Vec<(String, bool)> = out.iter().map(|(u, e)| (us(u.as_ref()), e.is_some())).collect();
        ret.sort();
        self.calls.push(json!({"requested": req, "returned": ret.iter().map(|(u, b)| json!([u, b])).collect::<Vec<_>>()}));
        self.ncalls += 1;
        out
    }
}

fn err_class(e: &BatchedEvalError) -> &'static str {
    match e {
        BatchedEvalError::TPE(_) => "tpe",
        BatchedEvalError::RequestValidation(_) => "request_validation",
        BatchedEvalError::PartialRequest(_) => "partial_request",
        BatchedEvalError::Entities(_) => "entities",
        BatchedEvalError::PartialValueToValue(_) => "partial_value",
        BatchedEvalError::MissingEntities(_) => "missing_entities",
        BatchedEvalError::InsufficientIterations(_) => "insufficient",
        _ => "other",
    }
}

fn value_uids(pv: &ast::PartialValue, acc: &mut BTreeSet<String>) {
    if let ast::PartialValue::Value(v) = pv {
        for u in v.all_literal_uids() {
            acc.insert(us(&u));
        }
    }
}

pub fn batched(v: &J) -> Result<J, String> {
    let schema = match schema_of(v)? {
        Ok(s) => s,
        Err(m) => return Ok(json!({"schema_error": m})),
    };
    let mut pset = PolicySet::new();
    let empty = vec![];
    for t in v.get("templates").and_then(|x| x.as_array()).unwrap_or(&empty) {
        let id = util::s(t, "id")?;
        let tpl = Template::parse(Some(PolicyId::new(id)), util::s(t, "text")?).map_err(|e| format!("template {id}: {e}"))?;
        pset.add_template(tpl).map_err(|e| format!("add_template {id}: {e}"))?;
    }
    for p in v.get("policies").and_then(|x| x.as_array()).ok_or("no policies")? {
        let id = util::s(p, "id")?;
        if let Some(tid) = p.get("template").and_then(|x| x.as_str()) {
            let mut vals = HashMap::new();
            if let Some(J::Object(m)) = p.get("slots") {
                for (k, u) in m {
                    let sid = match k.as_str() {
                        "?principal" => SlotId::principal(),
                        "?resource" => SlotId::resource(),
                        _ => return Err(format!("bad slot {k}")),
                    };
                    vals.insert(sid, EntityUid::from(util::uid(u)?));
                }
            }
            pset.link(PolicyId::new(tid), PolicyId::new(id), vals).map_err(|e| format!("link {id}: {e}"))?;
        } else {
            let pol = Policy::parse(Some(PolicyId::new(id)), util::s(p, "text")?).map_err(|e| format!("policy {id}: {e}"))?;
            pset.add(pol).map_err(|e| format!("add {id}: {e}"))?;
        }
    }
    let core_q = util::request(v.get("request").ok_or("no request")?)?;
    let q = Request::from(core_q.clone());
    let ej = v.get("entities").ok_or("no entities")?.clone();
    let with_schema = v.get("store_schema").and_then(|x| x.as_bool()).unwrap_or(true);
    let store = match Entities::from_json_value(ej, if with_schema { Some(&schema) } else { None }) {
        Ok(s) => s,
        Err(e) => return Ok(json!({"entities_error": util::chain(&e)})),
    };
    let variant = v.get("variant").and_then(|x| x.as_str()).unwrap_or("exact").to_string();
    let validates = Validator::new(schema.clone()).validate(&pset, ValidationMode::Strict).validation_passed();
    let request_valid = {
        use cedar_policy_core::ast::RequestSchema;
        let vs: &cedar_policy_core::validator::ValidatorSchema = schema.as_ref();
        vs.validate_request(&core_q, cedar_policy_core::extensions::Extensions::all_available()).is_ok()
    };

    // ordinary authorization over the full store
    let resp = Authorizer::new().is_authorized(&q, &pset, &store);
    let mut oerrs: Vec<String> = resp
        .diagnostics()
        .errors()
        .map(|e| match e {
            cedar_policy::AuthorizationError::PolicyEvaluationError(pe) => {
                let s: &str = pe.policy_id().as_ref();
                s.to_string()
            }
        })
        .collect();
    oerrs.sort();

    // n = distinct uids occurring in store + request + policies
    let mut all: BTreeSet<String> = BTreeSet::new();
    let mut store_view: Vec<J> = vec![];
    {
        let core_store: &cedar_policy_core::entities::Entities = store.as_ref();
        let mut ents: Vec<&ast::Entity> = core_store.iter().collect();
        ents.sort_by_key(|e| us(e.uid()));
        for e in ents {
            all.insert(us(e.uid()));
            let mut anc: Vec<String> = e.ancestors().map(us).collect();
            anc.sort();
            for a in &anc {
                all.insert(a.clone());
            }
            for (_, pv) in e.attrs() {
                value_uids(pv, &mut all);
            }
            for (_, pv) in e.tags() {
                value_uids(pv, &mut all);
            }
            store_view.push(json!([us(e.uid()), anc]));
        }
        for ent in [core_q.principal(), core_q.action(), core_q.resource()] {
            if let Some(u) = ent.uid() {
                all.insert(us(u));
            }
        }
        if let Some(ast::Context::Value(m)) = core_q.context() {
            for val in m.values() {
                for u in val.all_literal_uids() {
                    all.insert(us(&u));
                }
            }
        }
        let core_ps: &ast::PolicySet = pset.as_ref();
        for p in core_ps.policies() {
            let c = p.condition();
            for sub in c.subexpressions() {
                if let ast::ExprKind::Lit(ast::Literal::EntityUID(u)) = sub.expr_kind() {
                    all.insert(us(u));
                }
            }
            for u in p.env().values() {
                all.insert(us(u));
            }
        }
    }
    let mut order: Vec<EntityUid> = store.iter().map(|e| e.uid()).collect();
    order.sort_by_key(|u| us(u.as_ref()));

    let mut runs = vec![];
    for b in v.get("budgets").and_then(|x| x.as_array()).ok_or("no budgets")? {
        let b = b.as_u64().ok_or("bad budget")? as u32;
        let mut loader = StoreLoader { store: &store, variant: &variant, order: order.clone(), returned_before: HashSet::new(), ncalls: 0, calls: vec![] };
        let r = pset.is_authorized_batched(&q, &schema, &mut loader, b);
        let outcome = match &r {
            Ok(d) => json!({"ok": format!("{d:?}")}),
            Err(BatchedEvalError::InsufficientIterations(_)) => json!({"insufficient": true}),
            Err(e) => json!({"err": err_class(e), "msg": util::chain(e)}),
        };
        runs.push(json!({"budget": b, "outcome": outcome, "calls": loader.calls}));
    }
    Ok(json!({
        "validates": validates,
        "request_valid": request_valid,
        "ordinary": format!("{:?}", resp.decision()),
        "ordinary_errors": oerrs,
        "n": all.len(),
        "store": store_view,
        "runs": runs,
    }))
}
