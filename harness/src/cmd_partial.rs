//! partial_authorize — C13.  Builds a request with unknown principal/resource/context (or unknown
//! leaves inside context / entity attributes), runs partial authorization, renders the
//! PartialResponse views, and for every substitution: reauthorize(sigma) and concrete
//! authorization from scratch on the substituted request / entities.  No expectations here.
use crate::{render, util};
use cedar_policy_core::ast;
use cedar_policy_core::authorizer::{AuthorizationError, Authorizer, ErrorState, PartialResponse};
use cedar_policy_core::entities::Entities;
use serde_json::{json, Value as J};
use smol_str::SmolStr;
use std::collections::{BTreeMap, HashMap};
use std::str::FromStr;

pub fn dispatch(cmd: &str, v: &J) -> Option<Result<J, String>> {
    match cmd {
        "partial_authorize" => Some(partial_authorize(v)),
        _ => None,
    }
}

fn pid(i: &ast::PolicyID) -> String {
    let s: &str = i.as_ref();
    s.to_string()
}

fn entry(v: &J) -> Result<ast::EntityUIDEntry, String> {
    if let Some(u) = v.get("uid") {
        return Ok(ast::EntityUIDEntry::known(util::uid(u)?, None));
    }
    match v.get("unknown") {
        Some(J::Null) => Ok(ast::EntityUIDEntry::unknown()),
        Some(J::String(t)) => {
            let ty = ast::EntityType::from_str(t).map_err(|e| format!("bad type {t}: {e}"))?;
            Ok(ast::EntityUIDEntry::unknown_with_type(ty, None))
        }
        _ => Err("bad request entry".into()),
    }
}

fn partial_request(v: &J) -> Result<ast::Request, String> {
    let p = entry(v.get("principal").ok_or("no principal")?)?;
    let a = entry(v.get("action").ok_or("no action")?)?;
    let r = entry(v.get("resource").ok_or("no resource")?)?;
    let c = v.get("context").ok_or("no context")?;
    let ctx = if let Some(j) = c.get("json") { Some(util::context(j)?) } else { None };
    Ok(ast::Request::new_unchecked(p, a, r, ctx))
}

/// a Cedar JSON value -> Value (through the context parser, as attribute "v" of a record)
fn value_of_json(j: &J) -> Result<ast::Value, String> {
    let ctx = util::context(&json!({ "v": j }))?;
    match ctx {
        ast::Context::Value(m) => m.get("v").cloned().ok_or_else(|| "no v".to_string()),
        _ => Err("substitution value is not concrete".into()),
    }
}

/// per-policy status of a (partial) response: sat | false | err:<class> | residual
fn statuses(r: &PartialResponse) -> BTreeMap<String, String> {
    let mut errs: HashMap<String, &'static str> = HashMap::new();
    for e in &r.errors {
        match e {
            AuthorizationError::PolicyEvaluationError { id, error } => {
                errs.insert(pid(id), render::eval_err(error));
            }
        }
    }
    let mut m = BTreeMap::new();
    for id in r.satisfied_permits.keys().chain(r.satisfied_forbids.keys()) {
        m.insert(pid(id), "sat".to_string());
    }
    for (id, (st, _)) in r.false_permits.iter().chain(r.false_forbids.iter()) {
        let s = match st {
            ErrorState::NoError => "false".to_string(),
            ErrorState::Error => format!("err:{}", errs.get(&pid(id)).copied().unwrap_or("?")),
        };
        m.insert(pid(id), s);
    }
    for id in r.residual_permits.keys().chain(r.residual_forbids.keys()) {
        m.insert(pid(id), "residual".to_string());
    }
    m
}

fn concrete_view(r: PartialResponse) -> J {
    let st = statuses(&r);
    let resp = r.concretize();
    let mut reasons: Vec<String> = resp.diagnostics.reason.iter().map(pid).collect();
    reasons.sort();
    let mut errors: Vec<(String, &'static str)> = resp
        .diagnostics
        .errors
        .iter()
        .map(|e| match e {
            AuthorizationError::PolicyEvaluationError { id, error } => (pid(id), render::eval_err(error)),
        })
        .collect();
    errors.sort();
    json!({
        "decision": format!("{:?}", resp.decision),
        "reasons": reasons,
        "errors": errors.iter().map(|(i, c)| json!([i, c])).collect::<Vec<_>>(),
        "status": st,
    })
}

fn sorted_ids<'a>(it: impl Iterator<Item = String>) -> Vec<String> {
    let mut v: Vec<String> = it.collect();
    v.sort();
    v
}

pub fn partial_authorize(v: &J) -> Result<J, String> {
    let mut pset = ast::PolicySet::new();
    for p in v.get("policies").and_then(|x| x.as_array()).ok_or("no policies")? {
        let id = util::s(p, "id")?;
        let pol = cedar_policy_core::parser::parse_policy(Some(ast::PolicyID::from_string(id)), util::s(p, "text")?)
            .map_err(|e| format!("policy {id}: {e}"))?;
        pset.add_static(pol).map_err(|e| format!("add {id}: {e}"))?;
    }
    let q = partial_request(v.get("request").ok_or("no request")?)?;
    let mut es: Entities = util::entities(v.get("entities").ok_or("no entities")?)?;
    let partial_store = v.get("partial_store").and_then(|b| b.as_bool()).unwrap_or(false);
    if partial_store {
        es = es.partial();
    }
    let auth = Authorizer::new();
    let presp = auth.is_authorized_core(q, &pset, &es);

    let mut residuals = BTreeMap::new();
    for (id, (e, _)) in presp.residual_permits.iter().chain(presp.residual_forbids.iter()) {
        residuals.insert(pid(id), e.to_string());
    }
    let mut out = json!({
        "decision": presp.decision().map(|d| format!("{d:?}")),
        "must": sorted_ids(presp.must_be_determining().map(|p| pid(p.id()))),
        "may": sorted_ids(presp.may_be_determining().map(|p| pid(p.id()))),
        "satisfied": sorted_ids(presp.definitely_satisfied().map(|p| pid(p.id()))),
        "errored": sorted_ids(presp.definitely_errored().map(pid)),
        "nontrivial": sorted_ids(presp.nontrivial_residual_ids().map(pid)),
        "status": statuses(&presp),
        "residuals": residuals,
    });

    let mut subs_out = vec![];
    let empty = vec![];
    for s in v.get("subs").and_then(|x| x.as_array()).unwrap_or(&empty) {
        let mut mapping: HashMap<SmolStr, ast::Value> = HashMap::new();
        if let Some(J::Object(m)) = s.get("map") {
            for (k, j) in m {
                mapping.insert(SmolStr::new(k), value_of_json(j)?);
            }
        }
        // unknowns standing for entities missing from a partial store are named by the uid
        for u in s.get("entity_unknowns").and_then(|x| x.as_array()).unwrap_or(&empty) {
            let u = util::uid(u)?;
            mapping.insert(u.to_smolstr_key(), ast::Value::from(u.clone()));
        }
        // ... and so is every entity the partial store could not dereference while producing the
        // residuals (PartialResponse::unknown_entities at the API level)
        if partial_store {
            for (_, (e, _)) in presp.residual_permits.iter().chain(presp.residual_forbids.iter()) {
                for u in e.unknowns() {
                    if let Some(ast::Type::Entity { .. }) = &u.type_annotation {
                        if u.name != "principal" && u.name != "resource" {
                            if let Ok(uid) = ast::EntityUID::from_str(u.name.as_str()) {
                                mapping.entry(u.name.clone()).or_insert_with(|| ast::Value::from(uid));
                            }
                        }
                    }
                }
            }
        }
        let cq = util::request(s.get("request").ok_or("no concrete request")?)?;
        let ces = util::entities(s.get("entities").ok_or("no concrete entities")?)?;
        // third route: Expr::substitute applied to every residual, then CONCRETE evaluation
        let mut subst_eval = BTreeMap::new();
        {
            let ev = cedar_policy_core::evaluator::Evaluator::new(cq.clone(), &ces, cedar_policy_core::extensions::Extensions::all_available());
            let slots = ast::SlotEnv::new();
            for (id, (e, _)) in presp.residual_permits.iter().chain(presp.residual_forbids.iter()) {
                let e2 = e.substitute(&mapping);
                let st = match ev.interpret(&e2, &slots) {
                    Ok(v) => match v.value_kind() {
                        ast::ValueKind::Lit(ast::Literal::Bool(true)) => "sat".to_string(),
                        ast::ValueKind::Lit(ast::Literal::Bool(false)) => "false".to_string(),
                        _ => "err:TypeError".to_string(),
                    },
                    Err(err) => format!("err:{}", render::eval_err(&err)),
                };
                subst_eval.insert(pid(id), st);
            }
        }
        let scratch = concrete_view(auth.is_authorized_core(cq, &pset, &ces));
        // reauthorize against the substituted (concrete) entities ...
        let reauth = match presp.reauthorize(&mapping, &auth, &ces) {
            Ok(r) => concrete_view(r),
            Err(e) => json!({"reauth_error": format!("{e}")}),
        };
        // ... and against the original entities (attribute unknowns resolved by the mapping)
        let reauth_orig = match presp.reauthorize(&mapping, &auth, &es) {
            Ok(r) => concrete_view(r),
            Err(e) => json!({"reauth_error": format!("{e}")}),
        };
        subs_out.push(json!({"scratch": scratch, "reauth": reauth, "reauth_orig": reauth_orig, "subst_eval": subst_eval}));
    }
    out["subs"] = J::Array(subs_out);
    Ok(out)
}

trait UidKey {
    fn to_smolstr_key(&self) -> SmolStr;
}
impl UidKey for ast::EntityUID {
    fn to_smolstr_key(&self) -> SmolStr {
        use smol_str::ToSmolStr;
        self.to_smolstr()
    }
}
