//! Correspondence harness: one JSON command per input line, one JSON answer per output line.
//! Contains no expectations — only construction of Cedar objects, the call, and canonical
//! rendering of the result.  Every command runs under catch_unwind.
use serde_json::{json, Value as J};
use std::io::{BufRead, Write};

mod render;
mod util;
mod cmd_core;
mod cmd_fuzz;
mod cmd_typecheck;
mod cmd_conform;
mod cmd_tc;
mod cmd_parse;
mod cmd_fmt;
mod cmd_formats;
mod cmd_partial;
mod cmd_pset;
mod cmd_batched;
mod cmd_valeval;
mod cmd_schema_syn;
mod cmd_ext;
mod cmd_level;
mod cmd_manifest;
mod cmd_entjson;
mod cmd_ffi;
mod cmd_tpe;
mod cmd_symcc;
mod cmd_nopanic;

/// Command families.  To add one: create src/cmd_xxx.rs with
/// `pub fn dispatch(cmd: &str, v: &J) -> Option<Result<J, String>>`, add `mod cmd_xxx;` above
/// and append `cmd_xxx::dispatch` to this list.
const FAMILIES: &[fn(&str, &J) -> Option<Result<J, String>>] = &[
    cmd_core::dispatch,
    cmd_fuzz::dispatch,
    cmd_typecheck::dispatch,
    cmd_conform::dispatch,
    cmd_tc::dispatch,
    cmd_parse::dispatch,
    cmd_fmt::dispatch,
    cmd_formats::dispatch,
    cmd_partial::dispatch,
    cmd_pset::dispatch,
    cmd_batched::dispatch,
    cmd_valeval::dispatch,
    cmd_schema_syn::dispatch,
    cmd_ext::dispatch,
    cmd_level::dispatch,
    cmd_manifest::dispatch,
    cmd_entjson::dispatch,
    cmd_ffi::dispatch,
    cmd_tpe::dispatch,
    cmd_symcc::dispatch,
    cmd_nopanic::dispatch,
];

fn dispatch(cmd: &str, v: &J) -> Result<J, String> {
    for f in FAMILIES {
        if let Some(r) = f(cmd, v) {
            return r;
        }
    }
    Err(format!("unknown command {cmd}"))
}

fn main() {
    std::panic::set_hook(Box::new(|_| {}));
    let stdin = std::io::stdin();
    let stdout = std::io::stdout();
    let mut out = std::io::BufWriter::new(stdout.lock());
    for line in stdin.lock().lines() {
        let line = match line {
            Ok(l) => l,
            Err(_) => break,
        };
        if line.trim().is_empty() {
            continue;
        }
        let ans = match serde_json::from_str::<J>(&line) {
            Err(e) => json!({"harness_error": format!("bad json: {e}")}),
            Ok(v) => {
                let cmd = v.get("cmd").and_then(|c| c.as_str()).unwrap_or("").to_string();
                let r = std::panic::catch_unwind(std::panic::AssertUnwindSafe(|| dispatch(&cmd, &v)));
                match r {
                    Ok(Ok(j)) => j,
                    Ok(Err(e)) => json!({"harness_error": e}),
                    Err(p) => {
                        let msg = if let Some(s) = p.downcast_ref::<&str>() {
                            s.to_string()
                        } else if let Some(s) = p.downcast_ref::<String>() {
                            s.clone()
                        } else {
                            "panic".to_string()
                        };
                        json!({"panic": msg})
                    }
                }
            }
        };
        let _ = writeln!(out, "{}", ans);
        let _ = out.flush();
    }
}
