//! tpe / tpe_query / tpe_query_action: type-aware partial evaluation and permission queries (C14).
//! No expectations here: build the objects, call the API, render everything canonically.
use crate::{cmd_typecheck, render, util};
use cedar_policy::{
    ActionQueryRequest, Context, Entities, PartialEntities, PartialEntityUid, PartialRequest, Policy, PolicyId,
    PolicySet, PrincipalQueryRequest, Request, ResourceQueryRequest, Schema,
};
use cedar_policy_core::ast::{self, RequestSchema};
use cedar_policy_core::authorizer::Authorizer;
use cedar_policy_core::evaluator::Evaluator;
use cedar_policy_core::extensions::Extensions;
use cedar_policy_core::tpe::residual::{Residual, ResidualKind};
use cedar_policy_core::validator::typecheck::{PolicyCheck, Typechecker};
use cedar_policy_core::validator::{ValidationMode, ValidatorSchema};
use serde_json::{json, Value as J};
use std::collections::BTreeMap;
use std::str::FromStr;

pub fn dispatch(cmd: &str, v: &J) -> Option<Result<J, String>> {
    match cmd {
        "tpe" => Some(tpe(v)),
        "tpe_query" => Some(tpe_query(v)),
        "tpe_query_action" => Some(tpe_query_action(v)),
        _ => None,
    }
}

/// variant path of an error: the identifiers that open the Debug rendering, e.g. "Validation(Foo"
fn err_class<E: std::fmt::Debug>(e: &E) -> String {
    let d = format!("{e:?}");
    let mut out: Vec<String> = vec![];
    let mut cur = String::new();
    for c in d.chars() {
        if c.is_alphanumeric() || c == '_' {
            cur.push(c);
        } else if c == '(' && !cur.is_empty() {
            out.push(std::mem::take(&mut cur));
            if out.len() >= 3 {
                break;
            }
        } else {
            if !cur.is_empty() {
                out.push(std::mem::take(&mut cur));
            }
            break;
        }
    }
    if !cur.is_empty() && out.len() < 3 {
        out.push(cur);
    }
    out.join(".")
}

fn setup_err<E: std::fmt::Debug + std::fmt::Display>(stage: &str, e: &E) -> J {
    json!({"setup_error": {"stage": stage, "class": err_class(e), "msg": format!("{e}")}})
}

fn schema_of(v: &J) -> Result<(Schema, ValidatorSchema), String> {
    let j = v.get("schema_json").ok_or("no schema_json")?;
    let s = Schema::from_json_value(j.clone()).map_err(|e| format!("schema: {e}"))?;
    let vs = ValidatorSchema::from_json_value(j.clone(), Extensions::all_available()).map_err(|e| format!("schema: {e}"))?;
    Ok((s, vs))
}

fn policies_of(v: &J) -> Result<PolicySet, String> {
    let mut pset = PolicySet::new();
    for p in v.get("policies").and_then(|x| x.as_array()).ok_or("no policies")? {
        let id = util::s(p, "id")?;
        let pol = Policy::parse(Some(PolicyId::new(id)), util::s(p, "text")?).map_err(|e| format!("policy {id}: {e}"))?;
        pset.add(pol).map_err(|e| format!("add {id}: {e}"))?;
    }
    Ok(pset)
}

fn puid(v: &J) -> Result<PartialEntityUid, String> {
    let ty = util::s(v, "type")?;
    let tn = cedar_policy::EntityTypeName::from_str(ty).map_err(|e| format!("bad type {ty}: {e}"))?;
    let id = v.get("id").and_then(|x| x.as_str()).map(cedar_policy::EntityId::new);
    Ok(PartialEntityUid::new(tn, id))
}

fn api_uid(v: &J) -> Result<cedar_policy::EntityUid, String> {
    Ok(cedar_policy::EntityUid::from(util::uid(v)?))
}

fn context_opt(v: Option<&J>) -> Result<Option<Context>, String> {
    match v {
        None | Some(J::Null) => Ok(None),
        Some(c) => Context::from_json_value(c.clone(), None).map(Some).map_err(|e| format!("context: {e}")),
    }
}

fn concrete_entities(v: &J) -> Result<Entities, String> {
    Entities::from_json_value(v.clone(), None).map_err(|e| format!("entities: {}", util::chain(&e)))
}

fn uid_str(u: &ast::EntityUID) -> J {
    render::uid(u)
}

fn id_str(i: &ast::PolicyID) -> String {
    let s: &str = i.as_ref();
    s.to_string()
}

/// structural dump of a residual (types omitted: the evaluator never reads them)
fn residual(r: &Residual) -> J {
    match r {
        Residual::Concrete { value, .. } => json!({"c": render::value(value)}),
        Residual::Error(_) => json!({"e": 1}),
        Residual::Partial { kind, .. } => {
            let n = match kind {
                ResidualKind::Var(v) => json!(["var", match v {
                    ast::Var::Principal => "principal",
                    ast::Var::Action => "action",
                    ast::Var::Resource => "resource",
                    ast::Var::Context => "context",
                }]),
                ResidualKind::If { test_expr, then_expr, else_expr } => {
                    json!(["if", residual(test_expr), residual(then_expr), residual(else_expr)])
                }
                ResidualKind::And { left, right } => json!(["and", residual(left), residual(right)]),
                ResidualKind::Or { left, right } => json!(["or", residual(left), residual(right)]),
                ResidualKind::UnaryApp { op, arg } => json!(["unop", cmd_typecheck::unop(op), residual(arg)]),
                ResidualKind::BinaryApp { op, arg1, arg2 } => {
                    json!(["binop", cmd_typecheck::binop(op), residual(arg1), residual(arg2)])
                }
                ResidualKind::ExtensionFunctionApp { fn_name, args } => {
                    json!(["ext", render::name(fn_name), args.iter().map(residual).collect::<Vec<_>>()])
                }
                ResidualKind::GetAttr { expr, attr } => json!(["getattr", residual(expr), render::str_cp(attr)]),
                ResidualKind::HasAttr { expr, attr } => json!(["hasattr", residual(expr), render::str_cp(attr)]),
                ResidualKind::Like { expr, pattern } => json!(["like", residual(expr), pattern
                    .iter()
                    .map(|p| match p {
                        ast::PatternElem::Char(c) => json!(*c as u32),
                        ast::PatternElem::Wildcard => json!("star"),
                    })
                    .collect::<Vec<_>>()]),
                ResidualKind::Is { expr, entity_type } => json!(["is", residual(expr), render::etype(entity_type)]),
                ResidualKind::Set(items) => json!(["set", items.iter().map(residual).collect::<Vec<_>>()]),
                ResidualKind::Record(m) => {
                    json!(["record", m.iter().map(|(k, x)| json!([render::str_cp(k), residual(x)])).collect::<Vec<_>>()])
                }
            };
            json!({"p": n})
        }
    }
}

fn outcome(ev: &Evaluator<'_>, p: &ast::Policy) -> J {
    match ev.evaluate(p) {
        Ok(true) => json!("sat"),
        Ok(false) => json!("unsat"),
        Err(e) => json!({"error": render::eval_err(&e)}),
    }
}

fn core_response(resp: &cedar_policy_core::authorizer::Response) -> J {
    let mut reasons: Vec<String> = resp.diagnostics.reason.iter().map(id_str).collect();
    reasons.sort();
    let mut errors: Vec<String> = resp
        .diagnostics
        .errors
        .iter()
        .map(|e| match e {
            cedar_policy_core::authorizer::AuthorizationError::PolicyEvaluationError { id, .. } => id_str(id),
        })
        .collect();
    errors.sort();
    json!({"decision": format!("{:?}", resp.decision), "reasons": reasons, "errors": errors})
}

fn api_response(resp: &cedar_policy::Response) -> J {
    let mut reasons: Vec<String> = resp.diagnostics().reason().map(|i| { let s: &str = i.as_ref(); s.to_string() }).collect();
    reasons.sort();
    let mut errors: Vec<String> = resp
        .diagnostics()
        .errors()
        .map(|e| match e {
            cedar_policy::AuthorizationError::PolicyEvaluationError(pe) => { let s: &str = pe.policy_id().as_ref(); s.to_string() }
        })
        .collect();
    errors.sort();
    json!({"decision": format!("{:?}", resp.decision()), "reasons": reasons, "errors": errors})
}

fn ids<'a>(it: impl Iterator<Item = &'a PolicyId>) -> Vec<String> {
    let mut v: Vec<String> = it.map(|i| { let s: &str = i.as_ref(); s.to_string() }).collect();
    v.sort();
    v
}

fn view(it: impl Iterator<Item = Policy>) -> J {
    // id -> printed policy; a Vec of pairs so that duplicated ids stay visible
    let mut v: Vec<(String, String)> = it.map(|p| { let s: &str = p.id().as_ref(); (s.to_string(), p.to_string()) }).collect();
    v.sort();
    J::Array(v.into_iter().map(|(i, t)| json!([i, t])).collect())
}

fn partial_request_of(v: &J, schema: &Schema) -> Result<Result<PartialRequest, J>, String> {
    let pr = v.get("prequest").ok_or("no prequest")?;
    let p = puid(pr.get("principal").ok_or("no principal")?)?;
    let r = puid(pr.get("resource").ok_or("no resource")?)?;
    let a = api_uid(pr.get("action").ok_or("no action")?)?;
    let c = context_opt(pr.get("context"))?;
    Ok(PartialRequest::new(p, a, r, c, schema).map_err(|e| setup_err("partial_request", &e)))
}

/// the typed condition the TPE front end starts from (policy_residual_map): dumped for the model
fn typed_conditions(pset: &PolicySet, vs: &ValidatorSchema, pr: &J) -> Result<J, String> {
    let ptype = ast::EntityType::from_str(util::s(pr.get("principal").ok_or("p")?, "type")?).map_err(|e| format!("{e}"))?;
    let rtype = ast::EntityType::from_str(util::s(pr.get("resource").ok_or("r")?, "type")?).map_err(|e| format!("{e}"))?;
    let action = util::uid(pr.get("action").ok_or("a")?)?;
    let env = vs
        .unlinked_request_envs(ValidationMode::Strict)
        .find(|env| {
            env.action_entity_uid() == Some(&action)
                && env.principal_entity_type() == Some(&ptype)
                && env.resource_entity_type() == Some(&rtype)
        });
    let Some(env) = env else { return Ok(J::Null) };
    let tc = Typechecker::new(vs, ValidationMode::Strict);
    let core: &ast::PolicySet = pset.as_ref();
    let mut out = BTreeMap::new();
    for p in core.policies() {
        let env = env.clone().link_slot_env(p.env());
        let t = match tc.typecheck_by_single_request_env(p.template(), &env) {
            PolicyCheck::Success(e) => json!({"result": "success", "typed": cmd_typecheck::typed_expr(&e)}),
            PolicyCheck::Irrelevant(errs, e) => {
                json!({"result": "irrelevant", "nerrs": errs.len(), "typed": cmd_typecheck::typed_expr(&e)})
            }
            PolicyCheck::Fail(errs) => json!({"result": "fail", "nerrs": errs.len()}),
        };
        out.insert(id_str(p.id()), t);
    }
    Ok(json!(out))
}

pub fn tpe(v: &J) -> Result<J, String> {
    let (schema, vs) = schema_of(v)?;
    let pset = policies_of(v)?;
    let preq = match partial_request_of(v, &schema)? {
        Ok(p) => p,
        Err(j) => return Ok(j),
    };
    let pents = match PartialEntities::from_json_value(v.get("pentities").ok_or("no pentities")?.clone(), &schema) {
        Ok(p) => p,
        Err(e) => return Ok(setup_err("partial_entities", &e)),
    };
    let typed = typed_conditions(&pset, &vs, v.get("prequest").ok_or("no prequest")?)?;
    let resp = match pset.tpe(&preq, &pents, &schema) {
        Ok(r) => r,
        Err(e) => {
            let mut j = setup_err("tpe", &e);
            j["typed"] = typed;
            return Ok(j);
        }
    };
    let core = resp.as_ref();
    // buckets
    let mut bucket: BTreeMap<String, &'static str> = BTreeMap::new();
    let mut bucket_dups = 0usize;
    {
        let mut put = |i: String, b: &'static str| {
            if bucket.insert(i, b).is_some() {
                bucket_dups += 1;
            }
        };
        for i in ids(resp.true_permits()) { put(i, "true"); }
        for i in ids(resp.false_permits()) { put(i, "false"); }
        for i in ids(resp.error_permits()) { put(i, "error"); }
        for i in ids(resp.residual_permits()) { put(i, "residual"); }
        for i in ids(resp.true_forbids()) { put(i, "true"); }
        for i in ids(resp.false_forbids()) { put(i, "false"); }
        for i in ids(resp.error_forbids()) { put(i, "error"); }
        for i in ids(resp.residual_forbids()) { put(i, "residual"); }
    }
    let mut permits = ids(resp.true_permits().chain(resp.false_permits()).chain(resp.error_permits()).chain(resp.residual_permits()));
    permits.sort();
    let orig_core: &ast::PolicySet = pset.as_ref();
    let mut all_ids: Vec<String> = orig_core.policies().map(|p| id_str(p.id())).collect();
    all_ids.sort();
    // structural residuals
    let mut residuals = BTreeMap::new();
    for rp in core.policies() {
        residuals.insert(id_str(rp.get_policy_id()), residual(&rp.get_residual()));
    }
    // views
    let v_policies = view(resp.policies());
    let v_policy_set = view(resp.policy_set().policies().cloned());
    let mut lookups = vec![];
    for i in &all_ids {
        match resp.get_policy(&PolicyId::new(i)) {
            Some(p) => { let s: &str = p.id().as_ref(); lookups.push(json!([s, p.to_string()])) }
            None => lookups.push(json!([i, null])),
        }
    }
    let absent_lookup = resp.get_policy(&PolicyId::new("\u{1}no such policy")).map(|p| p.to_string());
    let v_nontrivial = view(resp.residual_policies());
    let reauth_set = core.policy_set();
    let mut v_reauth: Vec<(String, String)> = reauth_set.policies().map(|p| (id_str(p.id()), p.to_string())).collect();
    v_reauth.sort();
    // effects and annotations carried by the view
    let mut effects = BTreeMap::new();
    for p in resp.policies() {
        let s: &str = p.id().as_ref();
        let mut annos: Vec<(String, String)> = p.annotations().map(|(k, v)| (k.to_string(), v.to_string())).collect();
        annos.sort();
        effects.insert(s.to_string(), json!({"effect": format!("{:?}", p.effect()), "annotations": annos}));
    }
    let mut orig_effects = BTreeMap::new();
    for p in pset.policies() {
        let s: &str = p.id().as_ref();
        let mut annos: Vec<(String, String)> = p.annotations().map(|(k, v)| (k.to_string(), v.to_string())).collect();
        annos.sort();
        orig_effects.insert(s.to_string(), json!({"effect": format!("{:?}", p.effect()), "annotations": annos}));
    }

    // completions
    let mut comps = vec![];
    let empty = vec![];
    for c in v.get("completions").and_then(|x| x.as_array()).unwrap_or(&empty) {
        let q = util::request(c.get("request").ok_or("no request")?)?;
        let es = concrete_entities(c.get("entities").ok_or("no entities")?)?;
        let api_q = Request::from(q.clone());
        let reauth = match resp.reauthorize(&api_q, &es) {
            Ok(r) => json!({"ok": api_response(&r)}),
            Err(e) => json!({"err": err_class(&e), "msg": format!("{e}")}),
        };
        let core_es: &cedar_policy_core::entities::Entities = es.as_ref();
        let scratch = Authorizer::new().is_authorized(q.clone(), orig_core, core_es);
        let ev = Evaluator::new(q.clone(), core_es, Extensions::all_available());
        let mut per = BTreeMap::new();
        for p in orig_core.policies() {
            let i = id_str(p.id());
            let res_out = match resp.get_policy(&PolicyId::new(&i)) {
                Some(rp) => outcome(&ev, rp.as_ref()),
                None => J::Null,
            };
            // the policy the reauthorization set holds under this id
            let set_out = match reauth_set.get(p.id()) {
                Some(sp) => outcome(&ev, sp),
                None => J::Null,
            };
            per.insert(i, json!({"orig": outcome(&ev, p), "residual": res_out, "reauth_set": set_out}));
        }
        comps.push(json!({"reauthorize": reauth, "scratch": core_response(&scratch), "per_policy": per}));
    }

    Ok(json!({
        "decision": resp.decision().map(|d| format!("{d:?}")),
        "reason": resp.reason().map(|r| ids(r)),
        "bucket": bucket, "bucket_dups": bucket_dups,
        "ids": all_ids,
        "residuals": residuals,
        "typed": typed,
        "views": {"policies": v_policies, "policy_set": v_policy_set, "get_policy": lookups,
                  "residual_policies": v_nontrivial,
                  "reauth_set": v_reauth.into_iter().map(|(i, t)| json!([i, t])).collect::<Vec<_>>(),
                  "absent_lookup": absent_lookup},
        "effects": effects, "orig_effects": orig_effects,
        "completions": comps,
    }))
}

/// query_resource / query_principal + brute force over the store through the plain Authorizer
pub fn tpe_query(v: &J) -> Result<J, String> {
    let (schema, _vs) = schema_of(v)?;
    let pset = policies_of(v)?;
    let es = concrete_entities(v.get("entities").ok_or("no entities")?)?;
    let kind = util::s(v, "kind")?;
    let rq = v.get("request").ok_or("no request")?;
    let action = api_uid(rq.get("action").ok_or("no action")?)?;
    let ctx = context_opt(rq.get("context"))?.ok_or("context required")?;
    let hole_ty = cedar_policy::EntityTypeName::from_str(util::s(rq, "hole_type")?).map_err(|e| format!("{e}"))?;
    let fixed = api_uid(rq.get("fixed").ok_or("no fixed")?)?;
    let render_uids = |it: Vec<cedar_policy::EntityUid>| -> Vec<J> {
        let mut out: Vec<(String, J)> = it.iter().map(|u| { let c: &ast::EntityUID = u.as_ref(); (u.to_string(), uid_str(c)) }).collect();
        out.sort_by(|a, b| a.0.cmp(&b.0));
        out.into_iter().map(|x| x.1).collect()
    };
    let result = match kind {
        "resource" => {
            let req = match ResourceQueryRequest::new(fixed.clone(), action.clone(), hole_ty.clone(), ctx.clone(), &schema) {
                Ok(r) => r,
                Err(e) => return Ok(setup_err("query_request", &e)),
            };
            match pset.query_resource(&req, &es, &schema) {
                Ok(it) => render_uids(it.collect()),
                Err(e) => return Ok(setup_err("query", &e)),
            }
        }
        "principal" => {
            let req = match PrincipalQueryRequest::new(hole_ty.clone(), action.clone(), fixed.clone(), ctx.clone(), &schema) {
                Ok(r) => r,
                Err(e) => return Ok(setup_err("query_request", &e)),
            };
            match pset.query_principal(&req, &es, &schema) {
                Ok(it) => render_uids(it.collect()),
                Err(e) => return Ok(setup_err("query", &e)),
            }
        }
        _ => return Err(format!("bad kind {kind}")),
    };
    // brute force: every entity of the store with the hole's type, plus explicitly listed candidates
    let mut cands: Vec<cedar_policy::EntityUid> = es.iter().map(|e| e.uid()).filter(|u| u.type_name() == &hole_ty).collect();
    let empty = vec![];
    let mut extra = vec![];
    for c in v.get("extra_candidates").and_then(|x| x.as_array()).unwrap_or(&empty) {
        extra.push(api_uid(c)?);
    }
    let core_es: &cedar_policy_core::entities::Entities = es.as_ref();
    let orig_core: &ast::PolicySet = pset.as_ref();
    let fixed_core: &ast::EntityUID = fixed.as_ref();
    let action_core: &ast::EntityUID = action.as_ref();
    let ctx_core: ast::Context = util::context(rq.get("context").ok_or("no context")?)?;
    let mut brute = |us: &Vec<cedar_policy::EntityUid>| -> Result<Vec<J>, String> {
        let mut out: Vec<(String, J)> = vec![];
        for u in us {
            let uc: &ast::EntityUID = u.as_ref();
            let (p, r) = if kind == "resource" { (fixed_core.clone(), uc.clone()) } else { (uc.clone(), fixed_core.clone()) };
            let q = ast::Request::new::<ast::RequestSchemaAllPass>((p, None), (action_core.clone(), None), (r, None), ctx_core.clone(), None, Extensions::all_available())
                .map_err(|e| format!("request: {e}"))?;
            let valid = schema.as_ref().validate_request(&q, Extensions::all_available()).is_ok();
            let resp = Authorizer::new().is_authorized(q, orig_core, core_es);
            out.push((u.to_string(), json!({"uid": uid_str(uc), "decision": format!("{:?}", resp.decision), "valid_request": valid})));
        }
        out.sort_by(|a, b| a.0.cmp(&b.0));
        Ok(out.into_iter().map(|x| x.1).collect())
    };
    cands.sort_by_key(|u| u.to_string());
    let b1 = brute(&cands)?;
    let b2 = brute(&extra)?;
    Ok(json!({"result": result, "brute": b1, "brute_extra": b2}))
}

/// query_action + from-scratch authorization of the listed concrete completions
pub fn tpe_query_action(v: &J) -> Result<J, String> {
    let (schema, _vs) = schema_of(v)?;
    let pset = policies_of(v)?;
    let rq = v.get("request").ok_or("no request")?;
    let p = puid(rq.get("principal").ok_or("no principal")?)?;
    let r = puid(rq.get("resource").ok_or("no resource")?)?;
    let c = context_opt(rq.get("context"))?;
    let pents = match PartialEntities::from_json_value(v.get("pentities").ok_or("no pentities")?.clone(), &schema) {
        Ok(p) => p,
        Err(e) => return Ok(setup_err("partial_entities", &e)),
    };
    let req = match ActionQueryRequest::new(p, r, c, schema.clone()) {
        Ok(r) => r,
        Err(e) => return Ok(setup_err("query_request", &e)),
    };
    let mut result: Vec<(String, J)> = match pset.query_action(&req, &pents) {
        Ok(it) => it
            .map(|(a, d)| { let c: &ast::EntityUID = a.as_ref(); (a.to_string(), json!({"action": uid_str(c), "decision": d.map(|d| format!("{d:?}"))})) })
            .collect(),
        Err(e) => return Ok(setup_err("query", &e)),
    };
    result.sort_by(|a, b| a.0.cmp(&b.0));
    let orig_core: &ast::PolicySet = pset.as_ref();
    let mut comps = vec![];
    let empty = vec![];
    for c in v.get("completions").and_then(|x| x.as_array()).unwrap_or(&empty) {
        let q = util::request(c.get("request").ok_or("no request")?)?;
        let es = concrete_entities(c.get("entities").ok_or("no entities")?)?;
        let core_es: &cedar_policy_core::entities::Entities = es.as_ref();
        let valid = schema.as_ref().validate_request(&q, Extensions::all_available()).is_ok();
        let resp = Authorizer::new().is_authorized(q, orig_core, core_es);
        comps.push(json!({"decision": format!("{:?}", resp.decision), "valid_request": valid}));
    }
    Ok(json!({"result": result.into_iter().map(|x| x.1).collect::<Vec<_>>(), "completions": comps}))
}
