//! C20: pipelines over arbitrary input.  Each command feeds one document to an entry point and,
//! when it is accepted, pushes the object through print / to_json / format / validate / authorize /
//! link; every returned error is rendered (message, help, labels, related).  A panic anywhere is
//! caught by main.rs; an abort kills the process and is detected by the runner.
use cedar_policy::*;
use miette::Diagnostic;
use serde_json::{json, Value as J};
use std::str::FromStr;

pub fn dispatch(cmd: &str, v: &J) -> Option<Result<J, String>> {
    match cmd {
        "pipeline" => Some(pipeline(v)),
        _ => None,
    }
}

/// render a diagnostic completely (this is itself under test)
fn render<E: Diagnostic + ?Sized>(e: &E) -> usize {
    let mut n = e.to_string().len();
    if let Some(h) = e.help() {
        n += h.to_string().len();
    }
    if let Some(c) = e.code() {
        n += c.to_string().len();
    }
    if let Some(u) = e.url() {
        n += u.to_string().len();
    }
    if let Some(ls) = e.labels() {
        for l in ls {
            n += l.label().map(|s| s.len()).unwrap_or(0) + l.offset() + l.len();
        }
    }
    if let Some(rel) = e.related() {
        for r in rel {
            n += render(r);
        }
    }
    if let Some(src) = e.diagnostic_source() {
        n += render(src);
    }
    n
}

fn render_report(r: &miette::Report) -> usize {
    let d: &dyn Diagnostic = r.as_ref();
    render(d) + format!("{r:?}").len()
}

const SCHEMA_SRC: &str = r#"
entity User in [Group] { n: Long, s?: String, e?: User, d?: decimal, ip?: ipaddr, r?: {a: Long, b?: Set<String>} } tags String;
entity Group in [Group];
entity Photo { owner: User, tags: Set<String> };
action view, edit appliesTo { principal: [User], resource: [Photo], context: { n?: Long, ip?: ipaddr } };
"#;

fn fixed_schema() -> Schema {
    Schema::from_cedarschema_str(SCHEMA_SRC).expect("fixed schema parses").0
}

fn fixed_request() -> Request {
    Request::new(
        EntityUid::from_str(r#"User::"alice""#).unwrap(),
        EntityUid::from_str(r#"Action::"view""#).unwrap(),
        EntityUid::from_str(r#"Photo::"p""#).unwrap(),
        Context::empty(),
        None,
    )
    .unwrap()
}

fn fixed_entities() -> Entities {
    Entities::from_json_str(
        r#"[{"uid":{"type":"User","id":"alice"},"attrs":{"n":1},"parents":[{"type":"Group","id":"g"}]},
            {"uid":{"type":"Group","id":"g"},"attrs":{},"parents":[]},
            {"uid":{"type":"Photo","id":"p"},"attrs":{"owner":{"__entity":{"type":"User","id":"alice"}},"tags":["x"]},"parents":[]}]"#,
        None,
    )
    .unwrap()
}

fn after_policy_set(ps: &PolicySet, stats: &mut Vec<String>) {
    let _ = ps.to_string();
    let _ = ps.to_cedar();
    match ps.clone().to_json() {
        Ok(j) => {
            stats.push("to_json".into());
            match PolicySet::from_json_value(j) {
                Ok(p2) => {
                    let _ = p2.to_string();
                }
                Err(e) => {
                    render(&e);
                }
            }
        }
        Err(e) => {
            render(&e);
        }
    }
    for p in ps.policies() {
        let _ = p.to_string();
        let _ = p.to_cedar();
        let _ = p.to_json().map_err(|e| render(&e));
        let _ = p.annotations().count();
        let _ = p.principal_constraint();
        let _ = p.action_constraint();
        let _ = p.resource_constraint();
    }
    for t in ps.templates() {
        let _ = t.to_string();
        let _ = t.to_json().map_err(|e| render(&e));
        // link with a fixed binding
        let mut ps2 = ps.clone();
        let mut vals = std::collections::HashMap::new();
        for s in t.slots() {
            vals.insert(s.clone(), EntityUid::from_str(r#"User::"alice""#).unwrap());
        }
        match ps2.link(t.id().clone(), PolicyId::new("fresh_link_id"), vals) {
            Ok(()) => {
                let _ = ps2.to_string();
                let _ = Authorizer::new().is_authorized(&fixed_request(), &ps2, &fixed_entities());
            }
            Err(e) => {
                render(&e);
            }
        }
    }
    let schema = fixed_schema();
    let v = Validator::new(schema);
    for mode in [ValidationMode::Strict, ValidationMode::Permissive] {
        let r = v.validate(ps, mode);
        for e in r.validation_errors() {
            render(e);
        }
        for w in r.validation_warnings() {
            render(w);
        }
    }
    let resp = Authorizer::new().is_authorized(&fixed_request(), ps, &fixed_entities());
    for e in resp.diagnostics().errors() {
        render(e);
    }
    let _ = Authorizer::new().is_authorized_partial(&fixed_request(), ps, &fixed_entities());
    #[allow(unused_must_use)]
    {
        use cedar_policy::proto::traits::Protobuf;
        if let Ok(bytes) = ps.encode() {
            match PolicySet::decode(&bytes[..]) {
                Ok(p) => {
                    p.to_string();
                }
                Err(e) => {
                    e.to_string();
                }
            }
        }
    }
}

fn pipeline(v: &J) -> Result<J, String> {
    let kind = v.get("kind").and_then(|k| k.as_str()).ok_or("no kind")?;
    let bytes: Vec<u8> = match v.get("data") {
        Some(J::String(s)) => s.as_bytes().to_vec(),
        Some(J::Array(a)) => a.iter().map(|x| x.as_u64().unwrap_or(0) as u8).collect(),
        Some(other) => other.to_string().into_bytes(),
        None => return Err("no data".into()),
    };
    let text = String::from_utf8_lossy(&bytes).to_string();
    let mut stats: Vec<String> = vec![];
    match kind {
        "policy_text" => match PolicySet::from_str(&text) {
            Ok(ps) => {
                stats.push("accepted".into());
                after_policy_set(&ps, &mut stats);
                for (w, i) in [(80usize, 2isize), (1, 0), (20, 8), (500, 1)] {
                    let cfg = cedar_policy_formatter::Config { line_width: w, indent_width: i };
                    match cedar_policy_formatter::policies_str_to_pretty(&text, &cfg) {
                        Ok(s) => {
                            let _ = s.len();
                        }
                        Err(e) => {
                            render_report(&e);
                        }
                    }
                }
            }
            Err(e) => {
                render(&e);
                let _ = Policy::parse(None, &text).map_err(|e| render(&e));
                let _ = Template::parse(None, &text).map_err(|e| render(&e));
                let cfg = cedar_policy_formatter::Config { line_width: 80, indent_width: 2 };
                let _ = cedar_policy_formatter::policies_str_to_pretty(&text, &cfg).map_err(|e| render_report(&e));
            }
        },
        "expr_text" => match Expression::from_str(&text) {
            Ok(e) => {
                stats.push("accepted".into());
                let _ = e.to_string();
                let _ = eval_expression(&fixed_request(), &fixed_entities(), &e).map_err(|e| render(&e));
                let _ = RestrictedExpression::from_str(&text).map_err(|e| render(&e));
            }
            Err(e) => {
                render(&e);
            }
        },
        "schema_cedar" => match Schema::from_cedarschema_str(&text) {
            Ok((s, warnings)) => {
                stats.push("accepted".into());
                for w in warnings {
                    render(&w);
                }
                let _ = s.entity_types().count();
                let _ = s.actions().count();
                let _ = s.principals().count();
                if let Ok((f, _)) = SchemaFragment::from_cedarschema_str(&text) {
                    let _ = f.to_cedarschema().map_err(|e| render(&e));
                    match f.to_json_value() {
                        Ok(j) => {
                            let _ = Schema::from_json_value(j).map_err(|e| render(&e));
                        }
                        Err(e) => {
                            render(&e);
                        }
                    }
                }
                let v = Validator::new(s);
                let ps = PolicySet::from_str("permit(principal, action, resource) when { principal has n && context has x };").unwrap();
                let r = v.validate(&ps, ValidationMode::Strict);
                for e in r.validation_errors() {
                    render(e);
                }
            }
            Err(e) => {
                render(&e);
            }
        },
        "schema_json" => match Schema::from_json_str(&text) {
            Ok(s) => {
                stats.push("accepted".into());
                let _ = s.entity_types().count();
                if let Ok(f) = SchemaFragment::from_json_str(&text) {
                    match f.to_cedarschema() {
                        Ok(t) => {
                            let _ = Schema::from_cedarschema_str(&t).map_err(|e| render(&e));
                        }
                        Err(e) => {
                            render(&e);
                        }
                    }
                    let _ = f.to_json_value().map_err(|e| render(&e));
                }
                let v = Validator::new(s);
                let ps = PolicySet::from_str("permit(principal, action, resource) when { principal has n && context has x };").unwrap();
                let r = v.validate(&ps, ValidationMode::Strict);
                for e in r.validation_errors() {
                    render(e);
                }
            }
            Err(e) => {
                render(&e);
            }
        },
        "entities_json" => {
            let schema = fixed_schema();
            for sch in [None, Some(&schema)] {
                match Entities::from_json_str(&text, sch) {
                    Ok(es) => {
                        stats.push("accepted".into());
                        let mut buf = Vec::new();
                        let _ = es.write_to_json(&mut buf).map_err(|e| render(&e));
                        let _ = es.iter().count();
                        let ps = PolicySet::from_str("permit(principal, action, resource) when { principal.n > 0 || resource in principal };").unwrap();
                        let _ = Authorizer::new().is_authorized(&fixed_request(), &ps, &es);
                        #[allow(unused_must_use)]
                        {
                            use cedar_policy::proto::traits::Protobuf;
                            if let Ok(b) = es.encode() {
                                Entities::decode(&b[..]).map_err(|e| e.to_string());
                            }
                        }
                    }
                    Err(e) => {
                        render(&e);
                    }
                }
            }
            let _ = Entity::from_json_str(&text, None).map_err(|e| render(&e));
        }
        "context_json" => {
            let schema = fixed_schema();
            let action = EntityUid::from_str(r#"Action::"view""#).unwrap();
            match Context::from_json_str(&text, None) {
                Ok(c) => {
                    stats.push("accepted".into());
                    let _ = c.validate(&schema, &action).map_err(|e| render(&e));
                    let _ = Request::new(
                        EntityUid::from_str(r#"User::"alice""#).unwrap(),
                        action.clone(),
                        EntityUid::from_str(r#"Photo::"p""#).unwrap(),
                        c,
                        Some(&schema),
                    )
                    .map_err(|e| render(&e));
                }
                Err(e) => {
                    render(&e);
                }
            }
            let _ = Context::from_json_str(&text, Some((&schema, &action))).map_err(|e| render(&e));
        }
        "policy_json" => {
            match serde_json::from_str::<J>(&text) {
                Ok(j) => {
                    match Policy::from_json(Some(PolicyId::new("p")), j.clone()) {
                        Ok(p) => {
                            stats.push("accepted".into());
                            let _ = format!("{p}");
                            let _ = p.to_cedar();
                            let _ = p.to_json().map_err(|e| render(&e));
                            let mut ps = PolicySet::new();
                            if ps.add(p).is_ok() {
                                after_policy_set(&ps, &mut stats);
                            }
                        }
                        Err(e) => {
                            render(&e);
                        }
                    }
                    match Template::from_json(Some(PolicyId::new("t")), j.clone()) {
                        Ok(t) => {
                            let _ = format!("{t}");
                            let _ = t.to_cedar();
                            let mut ps = PolicySet::new();
                            if ps.add_template(t).is_ok() {
                                after_policy_set(&ps, &mut stats);
                            }
                        }
                        Err(e) => {
                            render(&e);
                        }
                    }
                    match PolicySet::from_json_value(j) {
                        Ok(ps) => {
                            after_policy_set(&ps, &mut stats);
                        }
                        Err(e) => {
                            render(&e);
                        }
                    }
                }
                Err(_) => {}
            }
        }
        "proto_policyset" => {
            use cedar_policy::proto::traits::Protobuf;
            match PolicySet::decode(&bytes[..]) {
                Ok(ps) => {
                    stats.push("accepted".into());
                    after_policy_set(&ps, &mut stats);
                }
                Err(e) => {
                    let _ = e.to_string();
                }
            }
        }
        "proto_entities" => {
            use cedar_policy::proto::traits::Protobuf;
            match Entities::decode(&bytes[..]) {
                Ok(es) => {
                    stats.push("accepted".into());
                    let _ = es.iter().count();
                    let mut buf = Vec::new();
                    let _ = es.write_to_json(&mut buf).map_err(|e| render(&e));
                }
                Err(e) => {
                    let _ = e.to_string();
                }
            }
        }
        "ffi_authorize" => {
            let r = cedar_policy::ffi::is_authorized_json_str(&text);
            if r.is_ok() {
                stats.push("accepted".into());
            }
            let _ = cedar_policy::ffi::is_authorized_partial_json_str(&text);
        }
        "ffi_validate" => {
            let r = cedar_policy::ffi::validate_json_str(&text);
            if r.is_ok() {
                stats.push("accepted".into());
            }
        }
        "ffi_misc" => {
            let _ = cedar_policy::ffi::check_parse_policy_set_json_str(&text);
            let _ = cedar_policy::ffi::check_parse_schema_json_str(&text);
            let _ = cedar_policy::ffi::check_parse_entities_json_str(&text);
            let _ = cedar_policy::ffi::check_parse_context_json_str(&text);
            let _ = cedar_policy::ffi::format_json_str(&text);
        }
        _ => return Err(format!("bad kind {kind}")),
    }
    Ok(json!({"done": stats}))
}
