//! level: Validator::validate_with_level (RFC 76) per policy and per level, together with the
//! type-annotated expressions (per request environment) the level checker runs on.  C16.
//! No expectations here: build the objects, call the API, render canonically.
use crate::cmd_typecheck::{error_kind, mode_of, request_env, schema_of, typed_expr};
use cedar_policy_core::ast;
use cedar_policy_core::validator::typecheck::{PolicyCheck, Typechecker};
use cedar_policy_core::validator::validation_errors::EntityDerefViolationKind;
use cedar_policy_core::validator::{ValidationError, Validator};
use serde_json::{json, Value as J};

pub fn dispatch(cmd: &str, v: &J) -> Option<Result<J, String>> {
    match cmd {
        "level" => Some(level(v)),
        _ => None,
    }
}

fn level_errors(errs: &[ValidationError], base_internal: usize) -> Vec<J> {
    let mut out: Vec<String> = vec![];
    let mut internal = 0usize;
    for e in errs {
        match e {
            ValidationError::EntityDerefLevelViolation(v) => match &v.violation_kind {
                EntityDerefViolationKind::MaximumLevelExceeded { allowed_level, actual_level } => {
                    out.push(format!("max {} {}", allowed_level, actual_level));
                }
                EntityDerefViolationKind::LiteralDerefTarget => out.push("literal".to_string()),
            },
            ValidationError::InternalInvariantViolation(_) => internal += 1,
            _ => {}
        }
    }
    if internal > base_internal {
        out.push("internal".to_string());
    }
    out.sort();
    out.dedup();
    out.into_iter().map(J::String).collect()
}

/// {schema_json|schema_cedar, mode?, ns: [n..], policies: [{id, text}], dump_typed?: bool}
pub fn level(v: &J) -> Result<J, String> {
    let schema = match schema_of(v)? {
        Ok(s) => s,
        Err(m) => return Ok(json!({"schema_error": m})),
    };
    let mode = mode_of(v);
    let ns: Vec<u32> = v
        .get("ns")
        .and_then(|x| x.as_array())
        .ok_or("no ns")?
        .iter()
        .filter_map(|x| x.as_u64().map(|n| n as u32))
        .collect();
    let dump = v.get("dump_typed").and_then(|x| x.as_bool()).unwrap_or(true);
    let validator = Validator::new(schema.clone());
    let api_validator = cedar_policy::Validator::new(cedar_policy::Schema::from(schema.clone()));
    let api_mode = match v.get("mode").and_then(|m| m.as_str()) {
        Some("permissive") => cedar_policy::ValidationMode::Permissive,
        _ => cedar_policy::ValidationMode::Strict,
    };
    let mut whole = ast::PolicySet::new();
    let mut whole_api_text = String::new();
    let mut pols = vec![];
    for p in v.get("policies").and_then(|x| x.as_array()).ok_or("no policies")? {
        let id = crate::util::s(p, "id")?;
        let text = crate::util::s(p, "text")?;
        let t = match cedar_policy_core::parser::parse_policy_or_template(Some(ast::PolicyID::from_string(id)), text) {
            Ok(t) => t,
            Err(e) => {
                pols.push(json!({"id": id, "parse_error": format!("{e}")}));
                continue;
            }
        };
        let mut pset = ast::PolicySet::new();
        pset.add_template(t.clone()).map_err(|e| format!("add {id}: {e}"))?;
        let _ = whole.add_template(t.clone());
        if t.slots().count() == 0 {
            whole_api_text.push_str(text);
            whole_api_text.push('\n');
        }
        let base = validator.validate(&pset, mode);
        let base_errs: Vec<ValidationError> = base.validation_errors().cloned().collect();
        let base_internal = base_errs
            .iter()
            .filter(|e| matches!(e, ValidationError::InternalInvariantViolation(_)))
            .count();
        let mut base_kinds: Vec<String> = base_errs.iter().map(error_kind).collect();
        base_kinds.sort();
        let mut levels = serde_json::Map::new();
        for n in &ns {
            let r = validator.validate_with_level(&pset, mode, *n);
            let errs: Vec<ValidationError> = r.validation_errors().cloned().collect();
            let mut kinds: Vec<String> = errs.iter().map(error_kind).collect();
            kinds.sort();
            levels.insert(
                n.to_string(),
                json!({"passed": r.validation_passed(), "level_errors": level_errors(&errs, base_internal), "all_kinds": kinds}),
            );
        }
        let mut envs = vec![];
        if dump {
            let tc = Typechecker::new(&schema, mode);
            for (env, check) in tc.typecheck_by_request_env(&t) {
                let (res, typed) = match check {
                    PolicyCheck::Success(e) => ("success", Some(typed_expr(&e))),
                    PolicyCheck::Irrelevant(_, e) => ("irrelevant", Some(typed_expr(&e))),
                    PolicyCheck::Fail(_) => ("fail", None),
                };
                envs.push(json!({"env": request_env(&env), "result": res, "typed": typed}));
            }
        }
        pols.push(json!({"id": id, "base_passed": base.validation_passed(), "base_errors": base_kinds,
                         "levels": J::Object(levels), "envs": envs}));
    }
    // the whole set through the core validator and through the public API (static policies only)
    let mut set_levels = serde_json::Map::new();
    let api_pset: Result<cedar_policy::PolicySet, _> = whole_api_text.parse();
    for n in &ns {
        let core_passed = validator.validate_with_level(&whole, mode, *n).validation_passed();
        let api_passed = match &api_pset {
            Ok(ps) => J::Bool(api_validator.validate_with_level(ps, api_mode, *n).validation_passed()),
            Err(_) => J::Null,
        };
        set_levels.insert(n.to_string(), json!({"core_passed": core_passed, "api_passed": api_passed}));
    }
    Ok(json!({"policies": pols, "set": J::Object(set_levels)}))
}
