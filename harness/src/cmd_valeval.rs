//! C03 — validate a policy (strict and permissive) and evaluate it on request/store pairs that the
//! implementation's own schema-based validation accepts.
//!   validate_eval {schema, policy, slots?, cases: [{request, entities}], trace?: bool}
//!     -> {strict: {passed, errors, warnings}, permissive: {...},
//!         cases: [{request: accept|reject.., entities: accept|reject.., result: {ok: v}|{err: class},
//!                  trace: <tree>}]}
//! The trace tree has the shape of the policy condition: {"k": kind, "v": {ok|err}|null, "c": [children]};
//! "v" is what Evaluator::interpret returns for that sub-expression in the same environment, null when the
//! sub-expression is not reached (operands after an erroring operand, the skipped operand of && / ||,
//! the branch of `if` not taken).  No expectation is held here.
use crate::{cmd_typecheck, render, util};
use cedar_policy::{Entities, Entity, EntityUid, Request, Schema};
use cedar_policy_core::ast::{self, Expr, ExprKind};
use cedar_policy_core::evaluator::Evaluator;
use cedar_policy_core::extensions::Extensions;
use cedar_policy_core::validator::{ValidationMode, Validator, ValidatorSchema};
use serde_json::{json, Value as J};
use std::collections::HashMap;
use std::sync::Arc;

pub fn dispatch(cmd: &str, v: &J) -> Option<Result<J, String>> {
    match cmd {
        "validate_eval" => Some(validate_eval(v)),
        _ => None,
    }
}

fn kind_of<T: std::fmt::Debug>(x: &T) -> String {
    let d = format!("{x:?}");
    d.split(|c: char| !c.is_alphanumeric() && c != '_').next().unwrap_or("").to_string()
}

fn validate(schema: &ValidatorSchema, t: &ast::Template, slots: &HashMap<ast::SlotId, ast::EntityUID>, mode: ValidationMode) -> J {
    let mut pset = ast::PolicySet::new();
    let _ = pset.add_template(t.clone());
    if t.slots().count() == 0 || !slots.is_empty() {
        let _ = pset.link(t.id().clone(), ast::PolicyID::from_string("p0link"), slots.clone());
    }
    let validator = Validator::new(schema.clone());
    let res = validator.validate(&pset, mode);
    let mut errs: Vec<String> = res.validation_errors().map(cmd_typecheck::error_kind).collect();
    errs.sort();
    let mut warns: Vec<String> = res.validation_warnings().map(|w| kind_of(w)).collect();
    warns.sort();
    json!({"passed": res.validation_passed(), "errors": errs, "warnings": warns})
}

fn res_json(r: &Result<ast::Value, cedar_policy_core::evaluator::EvaluationError>) -> J {
    match r {
        Ok(v) => json!({"ok": render::value(v)}),
        Err(e) => json!({"err": render::eval_err(e)}),
    }
}

fn kind_name(e: &Expr) -> &'static str {
    match e.expr_kind() {
        ExprKind::Lit(_) => "lit",
        ExprKind::Var(_) => "var",
        ExprKind::Slot(_) => "slot",
        ExprKind::Unknown(_) => "unknown",
        ExprKind::If { .. } => "if",
        ExprKind::And { .. } => "and",
        ExprKind::Or { .. } => "or",
        ExprKind::UnaryApp { .. } => "unop",
        ExprKind::BinaryApp { .. } => "binop",
        ExprKind::ExtensionFunctionApp { .. } => "ext",
        ExprKind::GetAttr { .. } => "getattr",
        ExprKind::HasAttr { .. } => "hasattr",
        ExprKind::Like { .. } => "like",
        ExprKind::Is { .. } => "is",
        ExprKind::Set(_) => "set",
        ExprKind::Record(_) => "record",
        #[allow(unreachable_patterns)]
        _ => "other",
    }
}

fn as_bool(r: &Result<ast::Value, cedar_policy_core::evaluator::EvaluationError>) -> Option<bool> {
    match r {
        Ok(v) => match v.value_kind() {
            ast::ValueKind::Lit(ast::Literal::Bool(b)) => Some(*b),
            _ => None,
        },
        Err(_) => None,
    }
}

/// the value of every sub-expression that the evaluation of `e` reaches
fn trace(ev: &Evaluator<'_>, slots: &ast::SlotEnv, e: &Expr, reached: bool) -> J {
    if !reached {
        let kids: Vec<&Expr> = children(e);
        return json!({"k": kind_name(e), "v": J::Null, "c": kids.iter().map(|c| trace(ev, slots, c, false)).collect::<Vec<_>>()});
    }
    let r = ev.interpret(e, slots);
    let mut out = vec![];
    match e.expr_kind() {
        ExprKind::If { test_expr, then_expr, else_expr } => {
            let t = ev.interpret(test_expr, slots);
            let b = as_bool(&t);
            out.push(trace(ev, slots, test_expr, true));
            out.push(trace(ev, slots, then_expr, b == Some(true)));
            out.push(trace(ev, slots, else_expr, b == Some(false)));
        }
        ExprKind::And { left, right } => {
            let b = as_bool(&ev.interpret(left, slots));
            out.push(trace(ev, slots, left, true));
            out.push(trace(ev, slots, right, b == Some(true)));
        }
        ExprKind::Or { left, right } => {
            let b = as_bool(&ev.interpret(left, slots));
            out.push(trace(ev, slots, left, true));
            out.push(trace(ev, slots, right, b == Some(false)));
        }
        _ => {
            // strict left-to-right: operands after the first erroring operand are not reached
            let mut ok = true;
            for c in children(e) {
                out.push(trace(ev, slots, c, ok));
                if ok && ev.interpret(c, slots).is_err() {
                    ok = false;
                }
            }
        }
    }
    json!({"k": kind_name(e), "v": res_json(&r), "c": out})
}

fn children(e: &Expr) -> Vec<&Expr> {
    match e.expr_kind() {
        ExprKind::If { test_expr, then_expr, else_expr } => vec![test_expr.as_ref(), then_expr.as_ref(), else_expr.as_ref()],
        ExprKind::And { left, right } | ExprKind::Or { left, right } => vec![left.as_ref(), right.as_ref()],
        ExprKind::UnaryApp { arg, .. } => vec![arg.as_ref()],
        ExprKind::BinaryApp { arg1, arg2, .. } => vec![arg1.as_ref(), arg2.as_ref()],
        ExprKind::ExtensionFunctionApp { args, .. } => args.iter().collect(),
        ExprKind::GetAttr { expr, .. } | ExprKind::HasAttr { expr, .. } | ExprKind::Like { expr, .. } | ExprKind::Is { expr, .. } => {
            vec![expr.as_ref()]
        }
        ExprKind::Set(items) => items.iter().collect(),
        ExprKind::Record(m) => m.values().collect(),
        _ => vec![],
    }
}

fn api_uid(v: &J) -> Result<EntityUid, String> {
    Ok(EntityUid::from(util::uid(v)?))
}

pub fn validate_eval(v: &J) -> Result<J, String> {
    let sj = v.get("schema").ok_or("no schema")?.clone();
    let schema = match Schema::from_json_value(sj) {
        Ok(s) => s,
        Err(e) => return Ok(json!({"schema_error": util::chain(&e)})),
    };
    let vs: &ValidatorSchema = schema.as_ref();
    let t = match cmd_typecheck::template_of(v)? {
        Ok(t) => t,
        Err(m) => return Ok(json!({"parse_error": m})),
    };
    let slot_env = util::slots(v.get("slots"))?;
    let slot_map: HashMap<ast::SlotId, ast::EntityUID> = slot_env.iter().map(|(k, u)| (*k, u.clone())).collect();
    let strict = validate(vs, &t, &slot_map, ValidationMode::Strict);
    let permissive = validate(vs, &t, &slot_map, ValidationMode::Permissive);
    let policy = match ast::Template::link(Arc::new(t.clone()), ast::PolicyID::from_string("p0link"), slot_map.clone()) {
        Ok(p) => p,
        Err(e) => return Ok(json!({"link_error": format!("{e}"), "strict": strict, "permissive": permissive})),
    };
    let want_trace = v.get("trace").and_then(|x| x.as_bool()).unwrap_or(false);
    let cond = policy.condition();
    let mut cases = vec![];
    let empty = vec![];
    for c in v.get("cases").and_then(|x| x.as_array()).unwrap_or(&empty) {
        // the implementation's own request validation
        let q = c.get("request").ok_or("no request")?;
        let p = api_uid(q.get("principal").ok_or("no principal")?)?;
        let a = api_uid(q.get("action").ok_or("no action")?)?;
        let r = api_uid(q.get("resource").ok_or("no resource")?)?;
        let ctx = cedar_policy::Context::from_json_value(q.get("context").ok_or("no context")?.clone(), None)
            .map_err(|e| format!("raw context: {}", util::chain(&e)))?;
        let req = Request::new(p, a, r, ctx, Some(&schema));
        // ... and entity validation
        let arr = c.get("entities").and_then(|x| x.as_array()).cloned().unwrap_or_default();
        let mut raw = vec![];
        for e in arr {
            raw.push(Entity::from_json_value(e, None).map_err(|e| format!("raw entity: {}", util::chain(&e)))?);
        }
        let ents = Entities::from_entities(raw, Some(&schema));
        match (req, ents) {
            (Ok(req), Ok(ents)) => {
                let core_req: &ast::Request = req.as_ref();
                let core_ents: &cedar_policy_core::entities::Entities = ents.as_ref();
                let ev = Evaluator::new(core_req.clone(), core_ents, Extensions::all_available());
                let res = ev.interpret(&cond, policy.env());
                let pol = match ev.evaluate(&policy) {
                    Ok(b) => json!({"ok": b}),
                    Err(e) => json!({"err": render::eval_err(&e)}),
                };
                let tr = if want_trace { trace(&ev, policy.env(), &cond, true) } else { J::Null };
                cases.push(json!({"request": "accept", "entities": "accept", "result": res_json(&res), "policy": pol, "trace": tr}));
            }
            (rq, es) => {
                cases.push(json!({
                    "request": match rq { Ok(_) => "accept".to_string(), Err(e) => format!("reject: {}", util::chain(&e)) },
                    "entities": match es { Ok(_) => "accept".to_string(), Err(e) => format!("reject: {}", util::chain(&e)) },
                }));
            }
        }
    }
    Ok(json!({"strict": strict, "permissive": permissive, "cases": cases,
              "condition": cmd_typecheck::untyped_expr(&cond)}))
}
