//! C06 — structured policy formats (JSON/EST, PST, protobuf).
//! Commands: json_rt, pst_rt, proto_rt, text_json_routes, json_print_eval, est_of_ast, from_json.
//! No expectations here: build the object, convert, convert back, dump everything structurally.
use crate::{render, util};
use cedar_policy::proto::traits::Protobuf;
use cedar_policy::{Policy, PolicyId, PolicySet, SlotId, Template};
use cedar_policy_core::ast::{self, ExprKind, Literal};
use cedar_policy_core::authorizer::Authorizer;
use cedar_policy_core::est;
use serde_json::{json, Value as J};
use std::collections::HashMap;

pub fn dispatch(cmd: &str, v: &J) -> Option<Result<J, String>> {
    match cmd {
        "json_rt" => Some(round_trip(v, Format::Json)),
        "pst_rt" => Some(round_trip(v, Format::Pst)),
        "proto_rt" => Some(round_trip(v, Format::Proto)),
        "text_json_routes" => Some(text_json_routes(v)),
        "json_print_eval" => Some(json_print_eval(v)),
        "est_of_ast" => Some(est_of_ast(v)),
        "from_json" => Some(from_json(v)),
        _ => None,
    }
}

// ------------------------------------------------------------------ structural dumps
fn prim(l: &Literal) -> J {
    match l {
        Literal::Bool(b) => json!({"bool": b}),
        Literal::Long(i) => json!({"long": i.to_string()}),
        Literal::String(s) => json!({"string": render::str_cp(s)}),
        Literal::EntityUID(u) => json!({"entity": render::uid(u)}),
    }
}

fn var(v: &ast::Var) -> &'static str {
    match v {
        ast::Var::Principal => "principal",
        ast::Var::Action => "action",
        ast::Var::Resource => "resource",
        ast::Var::Context => "context",
    }
}

fn unop(op: &ast::UnaryOp) -> &'static str {
    match op {
        ast::UnaryOp::Not => "not",
        ast::UnaryOp::Neg => "neg",
        ast::UnaryOp::IsEmpty => "isEmpty",
    }
}

fn binop(op: &ast::BinaryOp) -> &'static str {
    match op {
        ast::BinaryOp::Eq => "eq",
        ast::BinaryOp::Less => "less",
        ast::BinaryOp::LessEq => "lesseq",
        ast::BinaryOp::Add => "add",
        ast::BinaryOp::Sub => "sub",
        ast::BinaryOp::Mul => "mul",
        ast::BinaryOp::In => "in",
        ast::BinaryOp::Contains => "contains",
        ast::BinaryOp::ContainsAll => "containsAll",
        ast::BinaryOp::ContainsAny => "containsAny",
        ast::BinaryOp::GetTag => "getTag",
        ast::BinaryOp::HasTag => "hasTag",
    }
}

/// structural dump of an expression (one arm per ExprKind constructor)
pub fn expr(e: &ast::Expr) -> J {
    match e.expr_kind() {
        ExprKind::Lit(l) => json!(["lit", prim(l)]),
        ExprKind::Var(v) => json!(["var", var(v)]),
        ExprKind::Slot(s) => json!(["slot", if s.is_principal() { "principal" } else { "resource" }]),
        ExprKind::Unknown(u) => {
            json!(["unknown", render::str_cp(&u.name), u.type_annotation.as_ref().map(|t| t.to_string())])
        }
        ExprKind::If { test_expr, then_expr, else_expr } => {
            json!(["if", expr(test_expr), expr(then_expr), expr(else_expr)])
        }
        ExprKind::And { left, right } => json!(["and", expr(left), expr(right)]),
        ExprKind::Or { left, right } => json!(["or", expr(left), expr(right)]),
        ExprKind::UnaryApp { op, arg } => json!(["unop", unop(op), expr(arg)]),
        ExprKind::BinaryApp { op, arg1, arg2 } => json!(["binop", binop(op), expr(arg1), expr(arg2)]),
        ExprKind::ExtensionFunctionApp { fn_name, args } => {
            json!(["ext", render::name(fn_name), args.iter().map(expr).collect::<Vec<_>>()])
        }
        ExprKind::GetAttr { expr: e1, attr } => json!(["getattr", expr(e1), render::str_cp(attr)]),
        ExprKind::HasAttr { expr: e1, attr } => json!(["hasattr", expr(e1), render::str_cp(attr)]),
        ExprKind::Like { expr: e1, pattern } => json!(["like", expr(e1), pattern
            .iter()
            .map(|p| match p {
                ast::PatternElem::Char(c) => json!(*c as u32),
                ast::PatternElem::Wildcard => json!("star"),
            })
            .collect::<Vec<_>>()]),
        ExprKind::Is { expr: e1, entity_type } => json!(["is", expr(e1), render::etype(entity_type)]),
        ExprKind::Set(items) => json!(["set", items.iter().map(expr).collect::<Vec<_>>()]),
        ExprKind::Record(m) => {
            json!(["record", m.iter().map(|(k, x)| json!([render::str_cp(k), expr(x)])).collect::<Vec<_>>()])
        }
        #[allow(unreachable_patterns)]
        _ => json!(["unsupported"]),
    }
}

fn eref(r: &ast::EntityReference) -> J {
    match r {
        ast::EntityReference::EUID(u) => render::uid(u),
        ast::EntityReference::Slot(_) => json!("slot"),
    }
}

fn por(c: &ast::PrincipalOrResourceConstraint) -> J {
    use ast::PrincipalOrResourceConstraint as C;
    match c {
        C::Any => json!(["any"]),
        C::Eq(r) => json!(["eq", eref(r)]),
        C::In(r) => json!(["in", eref(r)]),
        C::Is(t) => json!(["is", render::etype(t)]),
        C::IsIn(t, r) => json!(["isin", render::etype(t), eref(r)]),
    }
}

fn acons(c: &ast::ActionConstraint) -> J {
    match c {
        ast::ActionConstraint::Any => json!(["any"]),
        ast::ActionConstraint::Eq(u) => json!(["eq", render::uid(u)]),
        ast::ActionConstraint::In(us) => json!(["in", us.iter().map(|u| render::uid(u)).collect::<Vec<_>>()]),
        #[allow(unreachable_patterns)]
        _ => json!(["unsupported"]),
    }
}

fn pid(i: &ast::PolicyID) -> J {
    let s: &str = i.as_ref();
    render::str_cp(s)
}

pub fn template(t: &ast::Template) -> J {
    let mut slots: Vec<&str> = t.slots().map(|s| if s.id.is_principal() { "principal" } else { "resource" }).collect();
    slots.sort();
    json!({
        "id": pid(t.id()),
        "effect": t.effect().to_string(),
        "annotations": t.annotations().map(|(k, a)| json!([render::str_cp(k.as_ref()), render::str_cp(a.as_ref())])).collect::<Vec<_>>(),
        "principal": por(t.principal_constraint().as_inner()),
        "action": acons(t.action_constraint()),
        "resource": por(t.resource_constraint().as_inner()),
        "body": t.non_scope_constraints().map(expr),
        "slots": slots,
    })
}

pub fn policy(p: &ast::Policy) -> J {
    let mut env: Vec<(String, J)> = p
        .env()
        .iter()
        .map(|(k, u)| ((if k.is_principal() { "principal" } else { "resource" }).to_string(), render::uid(u)))
        .collect();
    env.sort_by(|a, b| a.0.cmp(&b.0));
    json!({
        "id": pid(p.id()),
        "static": p.is_static(),
        "template": template(p.template()),
        "env": env.into_iter().map(|(k, u)| json!([k, u])).collect::<Vec<_>>(),
        "condition": expr(&p.condition()),
    })
}

pub fn policy_set(ps: &ast::PolicySet) -> J {
    let mut ts: Vec<(String, J)> = ps.templates().map(|t| (t.id().to_string(), template(t))).collect();
    ts.sort_by(|a, b| a.0.cmp(&b.0));
    let mut pols: Vec<(String, J)> = ps.policies().map(|p| (p.id().to_string(), policy(p))).collect();
    pols.sort_by(|a, b| a.0.cmp(&b.0));
    json!({
        "templates": ts.into_iter().map(|x| x.1).collect::<Vec<_>>(),
        "policies": pols.into_iter().map(|x| x.1).collect::<Vec<_>>(),
    })
}

// ------------------------------------------------------------------ subjects
enum Subject {
    P(Policy),
    T(Template),
    S(PolicySet),
}

fn slot_vals(v: Option<&J>) -> Result<HashMap<SlotId, cedar_policy::EntityUid>, String> {
    let mut vals = HashMap::new();
    if let Some(J::Object(m)) = v {
        for (k, u) in m {
            let sid = match k.as_str() {
                "?principal" => SlotId::principal(),
                "?resource" => SlotId::resource(),
                _ => return Err(format!("bad slot {k}")),
            };
            vals.insert(sid, cedar_policy::EntityUid::from(util::uid(u)?));
        }
    }
    Ok(vals)
}

fn one_policy(id: &str, v: &J) -> Result<Result<Policy, String>, String> {
    if let Some(t) = v.get("text").and_then(|x| x.as_str()) {
        Ok(Policy::parse(Some(PolicyId::new(id)), t).map_err(|e| format!("{e}")))
    } else if let Some(j) = v.get("json") {
        Ok(Policy::from_json(Some(PolicyId::new(id)), j.clone()).map_err(|e| util::chain(&e)))
    } else {
        Err("policy needs text or json".into())
    }
}

fn one_template(id: &str, v: &J) -> Result<Result<Template, String>, String> {
    if let Some(t) = v.get("text").and_then(|x| x.as_str()) {
        Ok(Template::parse(Some(PolicyId::new(id)), t).map_err(|e| format!("{e}")))
    } else if let Some(j) = v.get("json") {
        Ok(Template::from_json(Some(PolicyId::new(id)), j.clone()).map_err(|e| util::chain(&e)))
    } else {
        Err("template needs text or json".into())
    }
}

/// {"kind":"policy"|"template"|"set", ...}; Ok(Err(msg)) = the front end refused the input
fn subject(v: &J) -> Result<Result<Subject, String>, String> {
    let kind = util::s(v, "kind")?;
    let id = v.get("id").and_then(|x| x.as_str()).unwrap_or("p0");
    match kind {
        "policy" => Ok(one_policy(id, v)?.map(Subject::P)),
        "template" => Ok(one_template(id, v)?.map(Subject::T)),
        "set" => {
            if let Some(j) = v.get("set_json") {
                return Ok(PolicySet::from_json_value(j.clone()).map(Subject::S).map_err(|e| util::chain(&e)));
            }
            let mut ps = PolicySet::new();
            let empty = vec![];
            for t in v.get("templates").and_then(|x| x.as_array()).unwrap_or(&empty) {
                let tid = util::s(t, "id")?;
                match one_template(tid, t)? {
                    Ok(t) => {
                        if let Err(e) = ps.add_template(t) {
                            return Ok(Err(format!("add_template: {e}")));
                        }
                    }
                    Err(e) => return Ok(Err(e)),
                }
            }
            for p in v.get("policies").and_then(|x| x.as_array()).unwrap_or(&empty) {
                let pid = util::s(p, "id")?;
                match one_policy(pid, p)? {
                    Ok(p) => {
                        if let Err(e) = ps.add(p) {
                            return Ok(Err(format!("add: {e}")));
                        }
                    }
                    Err(e) => return Ok(Err(e)),
                }
            }
            for l in v.get("links").and_then(|x| x.as_array()).unwrap_or(&empty) {
                let lid = util::s(l, "id")?;
                let tid = util::s(l, "template")?;
                if let Err(e) = ps.link(PolicyId::new(tid), PolicyId::new(lid), slot_vals(l.get("slots"))?) {
                    return Ok(Err(format!("link: {e}")));
                }
            }
            Ok(Ok(Subject::S(ps)))
        }
        _ => Err(format!("bad kind {kind}")),
    }
}

fn dump(s: &Subject) -> J {
    match s {
        Subject::P(p) => policy(p.as_ref()),
        Subject::T(t) => template(t.as_ref()),
        Subject::S(ps) => policy_set(ps.as_ref()),
    }
}

/// authorization responses of the subject on the given requests (templates are evaluated through a
/// link with the given slot values)
fn responses(s: &Subject, v: &J) -> Result<J, String> {
    let empty = vec![];
    let reqs = v.get("requests").and_then(|x| x.as_array()).unwrap_or(&empty);
    if reqs.is_empty() {
        return Ok(json!([]));
    }
    let es = util::entities(v.get("entities").ok_or("no entities")?)?;
    let ps: PolicySet = match s {
        Subject::P(p) => {
            let mut ps = PolicySet::new();
            ps.add(p.clone()).map_err(|e| format!("responses/add: {e}"))?;
            ps
        }
        Subject::T(t) => {
            let mut ps = PolicySet::new();
            ps.add_template(t.clone()).map_err(|e| format!("responses/add_template: {e}"))?;
            let vals = slot_vals(v.get("link_slots"))?;
            let vals: HashMap<_, _> = vals.into_iter().filter(|(k, _)| t.slots().any(|s| s == k)).collect();
            ps.link(t.id().clone(), PolicyId::new("__link"), vals).map_err(|e| format!("responses/link: {e}"))?;
            ps
        }
        Subject::S(ps) => ps.clone(),
    };
    let auth = Authorizer::new();
    let core: &ast::PolicySet = ps.as_ref();
    let mut out = vec![];
    for r in reqs {
        let q = util::request(r)?;
        let resp = auth.is_authorized(q, core, &es);
        let mut reasons: Vec<String> = resp.diagnostics.reason.iter().map(|i| i.to_string()).collect();
        reasons.sort();
        let mut errors: Vec<(String, &'static str)> = resp
            .diagnostics
            .errors
            .iter()
            .map(|e| match e {
                cedar_policy_core::authorizer::AuthorizationError::PolicyEvaluationError { id, error } => {
                    (id.to_string(), render::eval_err(error))
                }
            })
            .collect();
        errors.sort();
        out.push(json!({"decision": format!("{:?}", resp.decision), "reasons": reasons,
                        "errors": errors.iter().map(|(i, c)| json!([i, c])).collect::<Vec<_>>()}));
    }
    Ok(J::Array(out))
}

// ------------------------------------------------------------------ round trips
#[derive(Clone, Copy)]
enum Format {
    Json,
    Pst,
    Proto,
}

/// one trip of the subject through the format; Ok(Err((stage, msg))) when a conversion fails
fn trip(s: &Subject, f: Format, extra: &mut serde_json::Map<String, J>) -> Result<Subject, (String, String)> {
    let e = |stage: &str, m: String| (stage.to_string(), m);
    match (s, f) {
        (Subject::P(p), Format::Json) => {
            let j = p.to_json().map_err(|x| e("to_json", util::chain(&x)))?;
            extra.insert("json".into(), j.clone());
            if p.is_static() {
                Policy::from_json(Some(p.id().clone()), j).map(Subject::P).map_err(|x| e("from_json", util::chain(&x)))
            } else {
                Err(e("from_json", "linked policy has no single-policy JSON".into()))
            }
        }
        (Subject::T(t), Format::Json) => {
            let j = t.to_json().map_err(|x| e("to_json", util::chain(&x)))?;
            extra.insert("json".into(), j.clone());
            Template::from_json(Some(t.id().clone()), j).map(Subject::T).map_err(|x| e("from_json", util::chain(&x)))
        }
        (Subject::S(ps), Format::Json) => {
            let j = ps.clone().to_json().map_err(|x| e("to_json", util::chain(&x)))?;
            extra.insert("json".into(), j.clone());
            // through the textual layer as well (from_json_str), both must agree
            let txt = serde_json::to_string(&j).map_err(|x| e("to_string", x.to_string()))?;
            let via_str = PolicySet::from_json_str(&txt).map_err(|x| e("from_json_str", util::chain(&x)))?;
            extra.insert("via_str".into(), policy_set(via_str.as_ref()));
            PolicySet::from_json_value(j).map(Subject::S).map_err(|x| e("from_json", util::chain(&x)))
        }
        (Subject::P(p), Format::Pst) => {
            let x = p.to_pst().map_err(|x| e("to_pst", util::chain(&x)))?;
            extra.insert("pst_display".into(), json!(x.to_string()));
            Policy::from_pst(x).map(Subject::P).map_err(|x| e("from_pst", util::chain(&x)))
        }
        (Subject::T(t), Format::Pst) => {
            let x = t.to_pst().map_err(|x| e("to_pst", util::chain(&x)))?;
            extra.insert("pst_display".into(), json!(x.to_string()));
            Template::from_pst(x).map(Subject::T).map_err(|x| e("from_pst", util::chain(&x)))
        }
        (Subject::S(ps), Format::Pst) => {
            let x = ps.to_pst().map_err(|x| e("to_pst", util::chain(&x)))?;
            PolicySet::from_pst(x).map(Subject::S).map_err(|x| e("from_pst", util::chain(&x)))
        }
        (Subject::P(p), Format::Proto) => {
            // a single policy travels inside a policy set
            let mut ps = PolicySet::new();
            if p.is_static() {
                ps.add(p.clone()).map_err(|x| e("add", x.to_string()))?;
            } else {
                return Err(e("encode", "linked policy outside a set".into()));
            }
            let bytes = ps.encode().map_err(|x| e("encode", x.to_string()))?;
            extra.insert("bytes".into(), json!(bytes.len()));
            let back = PolicySet::decode(&bytes[..]).map_err(|x| e("decode", x.to_string()))?;
            let q = back.policy(p.id()).ok_or_else(|| e("decode", "policy id missing after decode".into()))?;
            extra.insert("decoded_set_size".into(), json!(back.policies().count() + back.templates().count()));
            Ok(Subject::P(q.clone()))
        }
        (Subject::T(t), Format::Proto) => {
            let bytes = t.encode().map_err(|x| e("encode", x.to_string()))?;
            extra.insert("bytes".into(), json!(bytes.len()));
            Template::decode(&bytes[..]).map(Subject::T).map_err(|x| e("decode", x.to_string()))
        }
        (Subject::S(ps), Format::Proto) => {
            let bytes = ps.encode().map_err(|x| e("encode", x.to_string()))?;
            extra.insert("bytes".into(), json!(bytes.len()));
            PolicySet::decode(&bytes[..]).map(Subject::S).map_err(|x| e("decode", x.to_string()))
        }
    }
}

fn rust_eq(a: &Subject, b: &Subject) -> J {
    match (a, b) {
        (Subject::P(x), Subject::P(y)) => json!(x == y),
        (Subject::T(x), Subject::T(y)) => json!(x == y),
        (Subject::S(x), Subject::S(y)) => json!(x == y),
        _ => J::Null,
    }
}

fn round_trip(v: &J, f: Format) -> Result<J, String> {
    let a = match subject(v)? {
        Ok(s) => s,
        Err(m) => return Ok(json!({"parse_error": m})),
    };
    let mut out = serde_json::Map::new();
    out.insert("a".into(), dump(&a));
    out.insert("resp_a".into(), responses(&a, v)?);
    // the same object rebuilt from its AST only (no cached text / EST / PST)
    let a_ast = match &a {
        Subject::P(p) => Subject::P(Policy::from(p.as_ref().clone())),
        Subject::T(t) => Subject::T(Template::from(t.as_ref().clone())),
        Subject::S(ps) => Subject::S(PolicySet::from(ps.as_ref().clone())),
    };
    for (tag, src) in [("", &a), ("ast_", &a_ast)] {
        let mut extra = serde_json::Map::new();
        match trip(src, f, &mut extra) {
            Ok(b) => {
                out.insert(format!("{tag}b"), dump(&b));
                out.insert(format!("{tag}eq"), rust_eq(&a, &b));
                out.insert(format!("{tag}resp_b"), responses(&b, v)?);
                // a second trip must be a fixpoint and the JSON view of the result must denote the same object
                let mut extra2 = serde_json::Map::new();
                match trip(&b, Format::Json, &mut extra2) {
                    Ok(c) => {
                        out.insert(format!("{tag}c"), dump(&c));
                    }
                    Err((stage, m)) => {
                        out.insert(format!("{tag}c_error"), json!([stage, m]));
                    }
                }
                if let Some(j) = extra2.remove("json") {
                    out.insert(format!("{tag}json_b"), j);
                }
            }
            Err((stage, m)) => {
                out.insert(format!("{tag}error"), json!([stage, m]));
            }
        }
        for (k, x) in extra {
            out.insert(format!("{tag}{k}"), x);
        }
    }
    Ok(J::Object(out))
}

// ------------------------------------------------------------------ the two JSON routes
fn text_json_routes(v: &J) -> Result<J, String> {
    let text = util::s(v, "text")?;
    let id = ast::PolicyID::from_string(v.get("id").and_then(|x| x.as_str()).unwrap_or("p0"));
    // reference: text -> CST -> AST
    let parsed = match cedar_policy_core::parser::parse_policy_or_template(Some(id.clone()), text) {
        Ok(t) => t,
        Err(e) => return Ok(json!({"parse_error": format!("{e}")})),
    };
    let mut out = serde_json::Map::new();
    out.insert("ast".into(), template(&parsed));
    // route 1: text -> CST -> EST
    match cedar_policy_core::parser::parse_policy_or_template_to_est(text) {
        Ok(e1) => {
            out.insert("json_cst".into(), serde_json::to_value(&e1).map_err(|e| e.to_string())?);
            out.insert("display_cst".into(), json!(e1.to_string()));
            match e1.try_into_ast_policy_or_template(Some(id.clone())) {
                Ok(t) => {
                    out.insert("ast_cst".into(), template(&t));
                }
                Err(e) => {
                    out.insert("ast_cst_error".into(), json!(util::chain(&e)));
                }
            }
        }
        Err(e) => {
            out.insert("json_cst_error".into(), json!(format!("{e}")));
        }
    }
    // route 2: AST -> EST
    let e2: est::Policy = parsed.clone().into();
    out.insert("json_ast".into(), serde_json::to_value(&e2).map_err(|e| e.to_string())?);
    match e2.try_into_ast_policy_or_template(Some(id)) {
        Ok(t) => {
            out.insert("ast_ast".into(), template(&t));
        }
        Err(e) => {
            out.insert("ast_ast_error".into(), json!(util::chain(&e)));
        }
    }
    Ok(J::Object(out))
}

// ------------------------------------------------------------------ JSON policy vs the text it prints as
fn json_print_eval(v: &J) -> Result<J, String> {
    let id = v.get("id").and_then(|x| x.as_str()).unwrap_or("p0");
    let j = v.get("json").ok_or("no json")?;
    let p = match Policy::from_json(Some(PolicyId::new(id)), j.clone()) {
        Ok(p) => p,
        Err(e) => return Ok(json!({"parse_error": util::chain(&e)})),
    };
    let mut out = serde_json::Map::new();
    let a = Subject::P(p.clone());
    out.insert("a".into(), dump(&a));
    out.insert("resp_a".into(), responses(&a, v)?);
    // two printers: to_cedar (AST Display) and Display of the policy (EST Display)
    let printed = [("cedar", p.to_cedar()), ("display", Some(p.to_string()))];
    for (tag, text) in printed {
        let Some(text) = text else {
            out.insert(format!("{tag}_text"), J::Null);
            continue;
        };
        out.insert(format!("{tag}_text"), json!(text));
        match Policy::parse(Some(PolicyId::new(id)), &text) {
            Ok(q) => {
                let b = Subject::P(q);
                out.insert(format!("{tag}_b"), dump(&b));
                out.insert(format!("{tag}_resp_b"), responses(&b, v)?);
            }
            Err(e) => {
                out.insert(format!("{tag}_reparse_error"), json!(format!("{e}")));
            }
        }
    }
    Ok(J::Object(out))
}

// ------------------------------------------------------------------ model correspondence
/// AST (from text or JSON) -> EST by `From<ast::Template> for est::Policy`, dumped verbatim
fn est_of_ast(v: &J) -> Result<J, String> {
    let id = ast::PolicyID::from_string(v.get("id").and_then(|x| x.as_str()).unwrap_or("p0"));
    let t: ast::Template = if let Some(text) = v.get("text").and_then(|x| x.as_str()) {
        match cedar_policy_core::parser::parse_policy_or_template(Some(id), text) {
            Ok(t) => t,
            Err(e) => return Ok(json!({"parse_error": format!("{e}")})),
        }
    } else {
        let j = v.get("json").ok_or("no text/json")?;
        let e: est::Policy = match serde_json::from_value(j.clone()) {
            Ok(e) => e,
            Err(e) => return Ok(json!({"parse_error": format!("{e}")})),
        };
        match e.try_into_ast_policy_or_template(Some(id)) {
            Ok(t) => t,
            Err(e) => return Ok(json!({"parse_error": util::chain(&e)})),
        }
    };
    let e: est::Policy = t.clone().into();
    Ok(json!({"ast": template(&t), "json": serde_json::to_value(&e).map_err(|e| e.to_string())?}))
}

/// JSON *text* -> est::Policy (serde) -> ast::Template; accept + dump, or reject + stage
fn from_json(v: &J) -> Result<J, String> {
    let id = ast::PolicyID::from_string(v.get("id").and_then(|x| x.as_str()).unwrap_or("p0"));
    let s = util::s(v, "json_str")?;
    if v.get("kind").and_then(|x| x.as_str()) == Some("set") {
        return Ok(match PolicySet::from_json_str(s) {
            Ok(ps) => json!({"accept": policy_set(ps.as_ref())}),
            Err(e) => json!({"reject": util::chain(&e)}),
        });
    }
    let e: est::Policy = match serde_json::from_str(s) {
        Ok(e) => e,
        Err(e) => return Ok(json!({"reject": ["serde", e.to_string()]})),
    };
    Ok(match e.try_into_ast_policy_or_template(Some(id)) {
        Ok(t) => json!({"accept": template(&t)}),
        Err(e) => json!({"reject": ["convert", util::chain(&e)]}),
    })
}
