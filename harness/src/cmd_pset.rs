//! C08: policy-set edit histories (`pset_history`) at the API level (cedar_policy::PolicySet) and
//! at the core level (ast::PolicySet).  No expectations here: after every operation the result
//! class and a dump of everything the public interface shows is rendered.
use crate::util;
use cedar_policy_core::ast;
use cedar_policy_core::authorizer::Authorizer;
use cedar_policy_core::entities::Entities;
use cedar_policy_core::parser;
use serde_json::{json, Value as J};
use std::collections::{BTreeSet, HashMap};

pub fn dispatch(cmd: &str, v: &J) -> Option<Result<J, String>> {
    match cmd {
        "pset_history" => Some(history(v)),
        _ => None,
    }
}

fn uid_j(u: &ast::EntityUID) -> J {
    let e: &str = u.eid().as_ref();
    json!({"type": u.entity_type().to_string(), "id": e.to_string()})
}

fn pid_s(i: &ast::PolicyID) -> String {
    let s: &str = i.as_ref();
    s.to_string()
}

fn slot_s(s: &ast::SlotId) -> &'static str {
    if s.is_principal() {
        "principal"
    } else if s.is_resource() {
        "resource"
    } else {
        "other"
    }
}

fn env_of(v: Option<&J>) -> Result<HashMap<ast::SlotId, ast::EntityUID>, String> {
    let mut m = HashMap::new();
    if let Some(J::Array(a)) = v {
        for kv in a {
            let k = kv.get(0).and_then(|x| x.as_str()).ok_or("bad slot entry")?;
            let sid = match k {
                "principal" => ast::SlotId::principal(),
                "resource" => ast::SlotId::resource(),
                _ => return Err(format!("bad slot {k}")),
            };
            m.insert(sid, util::uid(kv.get(1).ok_or("bad slot entry")?)?);
        }
    }
    Ok(m)
}

fn effect_s(e: ast::Effect) -> &'static str {
    match e {
        ast::Effect::Permit => "permit",
        ast::Effect::Forbid => "forbid",
    }
}

fn respond(pset: &ast::PolicySet, qs: &[ast::Request], es: &Entities) -> J {
    let auth = Authorizer::new();
    J::Array(
        qs.iter()
            .map(|q| {
                let r = auth.is_authorized(q.clone(), pset, es);
                let mut reasons: Vec<String> = r.diagnostics.reason.iter().map(pid_s).collect();
                reasons.sort();
                let mut errs: Vec<String> = r
                    .diagnostics
                    .errors
                    .iter()
                    .map(|e| match e {
                        cedar_policy_core::authorizer::AuthorizationError::PolicyEvaluationError { id, .. } => pid_s(id),
                    })
                    .collect();
                errs.sort();
                json!([format!("{:?}", r.decision).to_lowercase(), reasons, errs])
            })
            .collect(),
    )
}

/// everything ast::PolicySet shows through its public interface
fn dump_ast(pset: &ast::PolicySet, universe: &BTreeSet<String>) -> J {
    let links: Vec<J> = pset
        .policies()
        .map(|p| {
            let mut env: Vec<J> = p.env().iter().map(|(k, u)| json!([slot_s(k), uid_j(u)])).collect();
            env.sort_by_key(|x| x.to_string());
            let mut ann: Vec<J> = p.annotations().map(|(k, a)| json!([k.to_string(), a.val.to_string()])).collect();
            ann.sort_by_key(|x| x.to_string());
            json!({"id": pid_s(p.id()), "static": p.is_static(), "template": pid_s(p.template().id()),
                   "env": env, "effect": effect_s(p.effect()), "annotations": ann})
        })
        .collect();
    let templates: Vec<J> = pset
        .all_templates()
        .map(|t| {
            let mut ann: Vec<J> = t.annotations().map(|(k, a)| json!([k.to_string(), a.val.to_string()])).collect();
            ann.sort_by_key(|x| x.to_string());
            let mut sl: Vec<&str> = t.slots().map(|s| slot_s(&s.id)).collect();
            sl.sort();
            json!({"id": pid_s(t.id()), "slots": sl, "effect": effect_s(t.effect()), "annotations": ann})
        })
        .collect();
    let slotted: Vec<String> = pset.templates().map(|t| pid_s(t.id())).collect();
    let statics: Vec<String> = pset.static_policies().map(|p| pid_s(p.id())).collect();
    // lookups by id over the whole id universe (iteration and lookup must agree)
    let mut ids: BTreeSet<String> = universe.clone();
    for p in pset.policies() {
        ids.insert(pid_s(p.id()));
    }
    for t in pset.all_templates() {
        ids.insert(pid_s(t.id()));
    }
    let mut t2l = vec![];
    let mut get = vec![];
    let mut get_t = vec![];
    for i in &ids {
        let id = ast::PolicyID::from_string(i);
        if let Ok(it) = pset.get_linked_policies(&id) {
            let mut l: Vec<String> = it.map(pid_s).collect();
            l.sort();
            t2l.push(json!([i, l]));
        }
        if let Some(p) = pset.get(&id) {
            get.push(json!([i, pid_s(p.id())]));
        }
        if let Some(t) = pset.get_template(&id) {
            get_t.push(json!([i, pid_s(t.id())]));
        }
    }
    json!({"links": links, "templates": templates, "slotted": slotted, "statics": statics, "t2l": t2l,
           "get": get, "get_template": get_t, "is_empty": pset.is_empty()})
}

fn requests(v: &J) -> Result<Vec<ast::Request>, String> {
    v.get("requests").and_then(|x| x.as_array()).ok_or("no requests")?.iter().map(util::request).collect()
}

fn history(v: &J) -> Result<J, String> {
    match util::s(v, "level")? {
        "api" => history_api(v),
        "ast" => history_ast(v),
        l => Err(format!("bad level {l}")),
    }
}

// ------------------------------------------------------------------------------------ API level
mod api {
    pub use cedar_policy::{EntityUid, Policy, PolicyId, PolicySet, PolicySetError, SlotId, Template};
}

fn api_err(e: &api::PolicySetError) -> String {
    use api::PolicySetError as E;
    match e {
        E::AlreadyDefined(_) => "occupied".into(),
        E::Linking(_) => {
            let d = format!("{e:?}");
            if d.contains("ArityError") {
                "arity".into()
            } else if d.contains("NoSuchTemplate") {
                "no_such_template".into()
            } else if d.contains("PolicyIdConflict") {
                "id_conflict".into()
            } else {
                format!("linking:{d}")
            }
        }
        E::ExpectedStatic(_) => "expected_static".into(),
        E::ExpectedTemplate(_) => "expected_template".into(),
        E::PolicyNonexistent(_) => "policy_nonexistent".into(),
        E::TemplateNonexistent(_) => "template_nonexistent".into(),
        E::RemoveTemplateWithActiveLinks(_) => "template_has_links".into(),
        E::RemoveTemplateNotTemplate(_) => "not_template".into(),
        E::LinkNonexistent(_) => "link_nonexistent".into(),
        E::UnlinkLinkNotLink(_) => "not_link".into(),
        other => format!("other:{other:?}"),
    }
}

fn api_env(m: HashMap<ast::SlotId, ast::EntityUID>) -> HashMap<api::SlotId, api::EntityUid> {
    m.into_iter().map(|(k, u)| (api::SlotId::from(k), api::EntityUid::from(u))).collect()
}

fn dump_api(pset: &api::PolicySet, universe: &BTreeSet<String>) -> J {
    let policies: Vec<J> = pset
        .policies()
        .map(|p| {
            let mut env: Vec<J> = p
                .template_links()
                .unwrap_or_default()
                .iter()
                .map(|(k, u)| json!([slot_s(k.as_ref()), uid_j(u.as_ref())]))
                .collect();
            env.sort_by_key(|x| x.to_string());
            let mut ann: Vec<J> = p.annotations().map(|(k, a)| json!([k, a])).collect();
            ann.sort_by_key(|x| x.to_string());
            json!({"id": p.id().to_string(), "static": p.is_static(),
                   "template": p.template_id().map(|t| t.to_string()),
                   "env": env, "effect": format!("{}", p.effect()), "annotations": ann})
        })
        .collect();
    let templates: Vec<J> = pset
        .templates()
        .map(|t| {
            let mut ann: Vec<J> = t.annotations().map(|(k, a)| json!([k, a])).collect();
            ann.sort_by_key(|x| x.to_string());
            let mut sl: Vec<&str> = t.slots().map(|s| slot_s(s.as_ref())).collect();
            sl.sort();
            json!({"id": t.id().to_string(), "slots": sl, "effect": format!("{}", t.effect()), "annotations": ann})
        })
        .collect();
    let mut ids: BTreeSet<String> = universe.clone();
    for p in pset.policies() {
        ids.insert(p.id().to_string());
    }
    for t in pset.templates() {
        ids.insert(t.id().to_string());
    }
    let mut linked = vec![];
    let mut get = vec![];
    let mut get_t = vec![];
    for i in &ids {
        let id = api::PolicyId::new(i);
        if let Ok(it) = pset.get_linked_policies(id.clone()) {
            let mut l: Vec<String> = it.map(|x| x.to_string()).collect();
            l.sort();
            linked.push(json!([i, l]));
        }
        if let Some(p) = pset.policy(&id) {
            get.push(json!([i, p.id().to_string()]));
        }
        if let Some(t) = pset.template(&id) {
            get_t.push(json!([i, t.id().to_string()]));
        }
    }
    json!({"policies": policies, "templates": templates, "linked": linked, "get": get, "get_template": get_t,
           "num_policies": pset.num_of_policies(), "num_templates": pset.num_of_templates(),
           "is_empty": match std::panic::catch_unwind(std::panic::AssertUnwindSafe(|| pset.is_empty())) {
               Ok(b) => json!(b),
               Err(_) => json!("debug_assert failed"),
           }})
}

/// apply the operations to `pset`; `out` receives one record per operation when given
fn run_api(
    pset: &mut api::PolicySet,
    ops: &[J],
    universe: &mut BTreeSet<String>,
    qs: &[ast::Request],
    es: &Entities,
    mut out: Option<&mut Vec<J>>,
) -> Result<(), String> {
    let mut stash: Vec<api::Policy> = vec![];
    for op in ops {
        let kind = util::s(op, "op")?;
        let mut renaming = J::Null;
        let res: Result<(), String> = match kind {
            "add" => {
                let id = util::s(op, "id")?;
                match api::Policy::parse(Some(api::PolicyId::new(id)), util::s(op, "text")?) {
                    Err(_) => Err("parse_error".into()),
                    Ok(p) => pset.add(p).map_err(|e| api_err(&e)),
                }
            }
            "add_template" => {
                let id = util::s(op, "id")?;
                match api::Template::parse(Some(api::PolicyId::new(id)), util::s(op, "text")?) {
                    Err(_) => Err("parse_error".into()),
                    Ok(t) => pset.add_template(t).map_err(|e| api_err(&e)),
                }
            }
            "link" => {
                let env = api_env(env_of(op.get("env"))?);
                pset.link(api::PolicyId::new(util::s(op, "template")?), api::PolicyId::new(util::s(op, "id")?), env)
                    .map_err(|e| api_err(&e))
            }
            "unlink" => match pset.unlink(api::PolicyId::new(util::s(op, "id")?)) {
                Ok(p) => {
                    stash.push(p);
                    Ok(())
                }
                Err(e) => Err(api_err(&e)),
            },
            "remove_static" => match pset.remove_static(api::PolicyId::new(util::s(op, "id")?)) {
                Ok(p) => {
                    stash.push(p);
                    Ok(())
                }
                Err(e) => Err(api_err(&e)),
            },
            "remove_template" => pset.remove_template(api::PolicyId::new(util::s(op, "id")?)).map(|_| ()).map_err(|e| api_err(&e)),
            "add_stashed" => {
                let k = op.get("k").and_then(|x| x.as_u64()).ok_or("no k")? as usize;
                if stash.is_empty() {
                    Err("skipped".into())
                } else {
                    let p = stash[k % stash.len()].clone();
                    pset.add(p).map_err(|e| api_err(&e))
                }
            }
            "merge" => {
                let mut other = api::PolicySet::new();
                let oops = op.get("other").and_then(|x| x.as_array()).ok_or("no other")?;
                run_api(&mut other, oops, universe, qs, es, None)?;
                let rename = op.get("rename").and_then(|x| x.as_bool()).ok_or("no rename")?;
                match pset.merge(&other, rename) {
                    Ok(r) => {
                        let mut l: Vec<J> = r.iter().map(|(a, b)| json!([a.to_string(), b.to_string()])).collect();
                        l.sort_by_key(|x| x.to_string());
                        for (_, b) in &r {
                            universe.insert(b.to_string());
                        }
                        renaming = J::Array(l);
                        Ok(())
                    }
                    Err(e) => Err(api_err(&e)),
                }
            }
            k => return Err(format!("bad op {k}")),
        };
        if let Some(o) = out.as_deref_mut() {
            let core: &ast::PolicySet = pset.as_ref();
            o.push(json!({
                "result": match &res { Ok(()) => "ok".to_string(), Err(e) => e.clone() },
                "renaming": renaming,
                "api": dump_api(pset, universe),
                "ast": dump_ast(core, universe),
                "responses": respond(core, qs, es),
            }));
        }
    }
    Ok(())
}

fn universe_of(v: &J) -> BTreeSet<String> {
    v.get("universe")
        .and_then(|x| x.as_array())
        .map(|a| a.iter().filter_map(|x| x.as_str().map(|s| s.to_string())).collect())
        .unwrap_or_default()
}

/// outcome of each probe policy alone, per request
fn probes(v: &J, qs: &[ast::Request], es: &Entities) -> Result<J, String> {
    let mut out = vec![];
    let empty = vec![];
    for p in v.get("probes").and_then(|x| x.as_array()).unwrap_or(&empty) {
        let key = util::s(p, "key")?;
        let sp = parser::parse_policy(Some(ast::PolicyID::from_string("probe")), util::s(p, "text")?)
            .map_err(|e| format!("probe {key}: {e}"))?;
        let mut ps = ast::PolicySet::new();
        ps.add_static(sp).map_err(|e| format!("probe {key}: {e}"))?;
        let pol = ps.get(&ast::PolicyID::from_string("probe")).ok_or("probe vanished")?;
        let mut ann: Vec<J> = pol.annotations().map(|(k, a)| json!([k.to_string(), a.val.to_string()])).collect();
        ann.sort_by_key(|x| x.to_string());
        out.push(json!({"key": key, "effect": effect_s(pol.effect()), "annotations": ann, "responses": respond(&ps, qs, es)}));
    }
    Ok(J::Array(out))
}

/// EST JSON of a policy or template text
fn est_of_text(text: &str) -> Result<J, String> {
    match api::Policy::parse(None, text) {
        Ok(p) => p.to_json().map_err(|e| format!("to_json: {e}")),
        Err(_) => api::Template::parse(None, text).map_err(|e| format!("init text: {e}"))?.to_json().map_err(|e| format!("to_json: {e}")),
    }
}

fn init_to_json(i: &J) -> Result<J, String> {
    let empty = vec![];
    let mut statics = serde_json::Map::new();
    for p in i.get("statics").and_then(|x| x.as_array()).unwrap_or(&empty) {
        statics.insert(util::s(p, "id")?.to_string(), est_of_text(util::s(p, "text")?)?);
    }
    let mut templates = serde_json::Map::new();
    for p in i.get("templates").and_then(|x| x.as_array()).unwrap_or(&empty) {
        templates.insert(util::s(p, "id")?.to_string(), est_of_text(util::s(p, "text")?)?);
    }
    let mut links = vec![];
    for l in i.get("links").and_then(|x| x.as_array()).unwrap_or(&empty) {
        let mut vals = serde_json::Map::new();
        for kv in l.get("env").and_then(|x| x.as_array()).unwrap_or(&empty) {
            let k = kv.get(0).and_then(|x| x.as_str()).ok_or("bad slot entry")?;
            vals.insert(format!("?{k}"), json!({"__entity": kv.get(1).ok_or("bad slot entry")?}));
        }
        links.push(json!({"templateId": util::s(l, "template")?, "newId": util::s(l, "id")?, "values": vals}));
    }
    Ok(json!({"staticPolicies": statics, "templates": templates, "templateLinks": links}))
}

fn history_api(v: &J) -> Result<J, String> {
    let qs = requests(v)?;
    let es = util::entities(v.get("entities").ok_or("no entities")?)?;
    let mut universe = universe_of(v);
    let ops = v.get("ops").and_then(|x| x.as_array()).ok_or("no ops")?;
    // optional start state: PolicySet::from_json_value (EST policy set) instead of the empty set;
    // "init" gives the three sections as texts, the EST JSON is assembled here
    let assembled = match v.get("init") {
        Some(i) => Some(init_to_json(i)?),
        None => v.get("init_json").cloned(),
    };
    let mut pset = match assembled.as_ref() {
        Some(j) => match api::PolicySet::from_json_value(j.clone()) {
            Ok(p) => p,
            Err(e) => {
                let d = format!("{e:?}");
                let class = if d.contains("Occupied") || d.contains("AlreadyDefined") {
                    "occupied".to_string()
                } else if d.contains("ArityError") {
                    "arity".to_string()
                } else if d.contains("NoSuchTemplate") {
                    "no_such_template".to_string()
                } else if d.contains("PolicyIdConflict") {
                    "id_conflict".to_string()
                } else {
                    format!("from_json:{}", d.chars().take(200).collect::<String>())
                };
                return Ok(json!({"init_error": class}));
            }
        },
        None => api::PolicySet::new(),
    };
    let mut out = vec![];
    if assembled.is_some() {
        let core: &ast::PolicySet = pset.as_ref();
        out.push(json!({"result": "init", "renaming": J::Null, "api": dump_api(&pset, &universe),
                        "ast": dump_ast(core, &universe), "responses": respond(core, &qs, &es),
                        "to_json": pset.clone().to_json().map_err(|e| format!("{e:?}"))}));
    }
    run_api(&mut pset, ops, &mut universe, &qs, &es, Some(&mut out))?;
    Ok(json!({"steps": out, "probes": probes(v, &qs, &es)?}))
}

// ----------------------------------------------------------------------------------- core level
fn link_err(e: &ast::LinkingError) -> &'static str {
    match e {
        ast::LinkingError::ArityError { .. } => "arity",
        ast::LinkingError::NoSuchTemplate { .. } => "no_such_template",
        ast::LinkingError::PolicyIdConflict { .. } => "id_conflict",
    }
}

fn run_ast(
    pset: &mut ast::PolicySet,
    ops: &[J],
    universe: &mut BTreeSet<String>,
    qs: &[ast::Request],
    es: &Entities,
    mut out: Option<&mut Vec<J>>,
) -> Result<(), String> {
    use cedar_policy_core::ast::{PolicySetPolicyRemovalError as RP, PolicySetTemplateRemovalError as RT, PolicySetUnlinkError as UL};
    let mut stash: Vec<ast::Policy> = vec![];
    for op in ops {
        let kind = util::s(op, "op")?;
        let mut renaming = J::Null;
        let res: Result<(), String> = match kind {
            "add" => {
                let id = ast::PolicyID::from_string(util::s(op, "id")?);
                match parser::parse_policy(Some(id), util::s(op, "text")?) {
                    Err(_) => Err("parse_error".into()),
                    Ok(sp) => {
                        if op.get("via").and_then(|x| x.as_str()) == Some("add") {
                            pset.add(ast::Policy::from(sp)).map_err(|_| "occupied".to_string())
                        } else {
                            pset.add_static(sp).map_err(|_| "occupied".to_string())
                        }
                    }
                }
            }
            "add_template" => {
                let id = ast::PolicyID::from_string(util::s(op, "id")?);
                match parser::parse_policy_or_template(Some(id), util::s(op, "text")?) {
                    Err(_) => Err("parse_error".into()),
                    Ok(t) => pset.add_template(t).map_err(|_| "occupied".to_string()),
                }
            }
            "link" => pset
                .link(
                    ast::PolicyID::from_string(util::s(op, "template")?),
                    ast::PolicyID::from_string(util::s(op, "id")?),
                    env_of(op.get("env"))?,
                )
                .map(|_| ())
                .map_err(|e| link_err(&e).to_string()),
            "unlink" => match pset.unlink(&ast::PolicyID::from_string(util::s(op, "id")?)) {
                Ok(p) => {
                    stash.push(p);
                    Ok(())
                }
                Err(UL::UnlinkingError(_)) => Err("link_nonexistent".into()),
                Err(UL::NotLinkError(_)) => Err("not_link".into()),
            },
            "remove_static" => match pset.remove_static(&ast::PolicyID::from_string(util::s(op, "id")?)) {
                Ok(p) => {
                    stash.push(p);
                    Ok(())
                }
                Err(RP::RemovePolicyNoLinkError(_)) => Err("rm_no_link".into()),
                Err(RP::RemovePolicyNoTemplateError(_)) => Err("rm_no_template".into()),
            },
            "remove_template" => match pset.remove_template(&ast::PolicyID::from_string(util::s(op, "id")?)) {
                Ok(_) => Ok(()),
                Err(RT::RemovePolicyNoTemplateError(_)) => Err("template_nonexistent".into()),
                Err(RT::RemoveTemplateWithLinksError(_)) => Err("template_has_links".into()),
                Err(RT::NotTemplateError(_)) => Err("not_template".into()),
            },
            "add_stashed" => {
                let k = op.get("k").and_then(|x| x.as_u64()).ok_or("no k")? as usize;
                if stash.is_empty() {
                    Err("skipped".into())
                } else {
                    let p = stash[k % stash.len()].clone();
                    pset.add(p).map_err(|_| "occupied".to_string())
                }
            }
            "merge" => {
                let mut other = ast::PolicySet::new();
                let oops = op.get("other").and_then(|x| x.as_array()).ok_or("no other")?;
                run_ast(&mut other, oops, universe, qs, es, None)?;
                let rename = op.get("rename").and_then(|x| x.as_bool()).ok_or("no rename")?;
                match pset.merge_policyset(&other, rename) {
                    Ok(r) => {
                        let mut l: Vec<J> = r.iter().map(|(a, b)| json!([pid_s(a), pid_s(b)])).collect();
                        l.sort_by_key(|x| x.to_string());
                        for (_, b) in &r {
                            universe.insert(pid_s(b));
                        }
                        renaming = J::Array(l);
                        Ok(())
                    }
                    Err(_) => Err("occupied".into()),
                }
            }
            k => return Err(format!("bad op {k}")),
        };
        if let Some(o) = out.as_deref_mut() {
            o.push(json!({
                "result": match &res { Ok(()) => "ok".to_string(), Err(e) => e.clone() },
                "renaming": renaming,
                "ast": dump_ast(pset, universe),
                "responses": respond(pset, qs, es),
            }));
        }
    }
    Ok(())
}

fn history_ast(v: &J) -> Result<J, String> {
    let qs = requests(v)?;
    let es = util::entities(v.get("entities").ok_or("no entities")?)?;
    let mut universe = universe_of(v);
    let ops = v.get("ops").and_then(|x| x.as_array()).ok_or("no ops")?;
    let mut pset = ast::PolicySet::new();
    let mut out = vec![];
    run_ast(&mut pset, ops, &mut universe, &qs, &es, Some(&mut out))?;
    Ok(json!({"steps": out, "probes": probes(v, &qs, &es)?}))
}
