//! C19 — the JSON/FFI front end (cedar_policy::ffi) next to the plain Rust API on the same inputs.
//!
//! `ffi_history {calls:[...]}` runs every call of the list, in order, on ONE fresh thread (so the
//! thread-local caches of `ffi::is_authorized.rs` start empty and are private to the history) and
//! returns for each call `{"ffi": ..., "api": ...}`: the canonically rendered answer of the FFI
//! entry point and the answer obtained by calling the plain API (`PolicySet::from_str`,
//! `Policy::parse`, `Schema::from_*`, `Entities::from_json_value`, `Request::new`,
//! `Authorizer::is_authorized`, `Validator::validate`, `policies_str_to_pretty`, `Policy::to_json`…)
//! on the same documents.  No expectations here: the comparison is done by vp/props/c19.py.
use cedar_policy as cp;
use cedar_policy::ffi;
use serde_json::{json, Value as J};
use std::collections::HashMap;
use std::str::FromStr;

pub fn dispatch(cmd: &str, v: &J) -> Option<Result<J, String>> {
    match cmd {
        "ffi_history" => Some(history(v)),
        _ => None,
    }
}

fn history(v: &J) -> Result<J, String> {
    let calls = v.get("calls").and_then(|c| c.as_array()).ok_or("no calls")?.clone();
    // a fresh thread: fresh thread-locals (PREPARSED_POLICY_SETS / PREPARSED_SCHEMAS)
    let h = std::thread::Builder::new()
        .stack_size(64 << 20)
        .spawn(move || {
            let mut out = Vec::new();
            for c in &calls {
                let r = std::panic::catch_unwind(std::panic::AssertUnwindSafe(|| one(c)));
                out.push(match r {
                    Ok(Ok(j)) => j,
                    Ok(Err(e)) => json!({"harness_error": e}),
                    Err(p) => {
                        let msg = if let Some(s) = p.downcast_ref::<&str>() {
                            s.to_string()
                        } else if let Some(s) = p.downcast_ref::<String>() {
                            s.clone()
                        } else {
                            "panic".to_string()
                        };
                        json!({"panic": msg})
                    }
                });
            }
            out
        })
        .map_err(|e| format!("spawn: {e}"))?;
    let out = h.join().map_err(|_| "history thread died".to_string())?;
    Ok(json!({"answers": out}))
}

// ------------------------------------------------------------------ rendering of FFI answers

fn msgs(v: Option<&J>) -> Vec<J> {
    v.and_then(|x| x.as_array())
        .map(|a| a.iter().map(|e| e.get("message").cloned().unwrap_or(J::Null)).collect())
        .unwrap_or_default()
}

/// AuthorizationAnswer (serialised) -> canonical
fn render_auth_answer(a: &J) -> J {
    match a.get("type").and_then(|t| t.as_str()) {
        Some("success") => {
            let resp = &a["response"];
            let mut reasons: Vec<String> = resp["diagnostics"]["reason"]
                .as_array()
                .map(|x| x.iter().filter_map(|s| s.as_str().map(String::from)).collect())
                .unwrap_or_default();
            reasons.sort();
            let mut errors: Vec<(String, String)> = resp["diagnostics"]["errors"]
                .as_array()
                .map(|x| {
                    x.iter()
                        .map(|e| {
                            (
                                e["policyId"].as_str().unwrap_or("?").to_string(),
                                e["error"]["message"].as_str().unwrap_or("?").to_string(),
                            )
                        })
                        .collect()
                })
                .unwrap_or_default();
            errors.sort();
            json!({"ok": {"decision": resp["decision"], "reasons": reasons, "errors": errors},
                   "warnings": msgs(a.get("warnings")).len()})
        }
        Some("failure") => json!({"fail": msgs(a.get("errors")), "warnings": msgs(a.get("warnings")).len()}),
        _ => json!({"unexpected": a}),
    }
}

fn render_checkparse(a: &J) -> J {
    match a.get("type").and_then(|t| t.as_str()) {
        Some("success") => json!({"ok": true}),
        Some("failure") => json!({"fail": msgs(a.get("errors"))}),
        _ => json!({"unexpected": a}),
    }
}

// ------------------------------------------------------------------ the plain API on the same documents

fn rep<E: std::fmt::Display>(e: E) -> String {
    format!("{e}")
}

fn api_policy(id: Option<cp::PolicyId>, v: &J) -> Result<cp::Policy, String> {
    match v {
        J::String(s) => cp::Policy::parse(id, s).map_err(rep),
        other => cp::Policy::from_json(id, other.clone()).map_err(rep),
    }
}

fn api_template(id: Option<cp::PolicyId>, v: &J) -> Result<cp::Template, String> {
    match v {
        J::String(s) => cp::Template::parse(id, s).map_err(rep),
        other => cp::Template::from_json(id, other.clone()).map_err(rep),
    }
}

fn api_slot(s: &str) -> Result<cp::SlotId, String> {
    match s {
        "?principal" => Ok(cp::SlotId::principal()),
        "?resource" => Ok(cp::SlotId::resource()),
        _ => Err(format!("bad slot {s}")),
    }
}

/// a policy set document {staticPolicies: text | [..] | {id: ..}, templates: {id: ..},
/// templateLinks: [{templateId,newId,values}]} assembled with the public API; all errors collected
/// (document order), assembly continues after an error exactly as a caller of the API would who
/// wants every error.
fn api_pset(v: &J) -> Result<cp::PolicySet, Vec<String>> {
    let mut errs: Vec<String> = Vec::new();
    let mut pset = cp::PolicySet::new();
    match v.get("staticPolicies") {
        None => {}
        Some(J::String(s)) => match cp::PolicySet::from_str(s) {
            Ok(ps) => {
                if ps.templates().count() > 0 {
                    errs.push("static policy set includes a template".into());
                } else {
                    pset = ps;
                }
            }
            Err(e) => errs.push(rep(e)),
        },
        Some(J::Array(a)) => {
            let mut ps = Vec::new();
            let mut bad = false;
            for p in a {
                match api_policy(None, p) {
                    Ok(p) => ps.push(p),
                    Err(e) => {
                        bad = true;
                        errs.push(e)
                    }
                }
            }
            if !bad {
                match cp::PolicySet::from_policies(ps) {
                    Ok(s) => pset = s,
                    Err(e) => errs.push(rep(e)),
                }
            }
        }
        Some(J::Object(m)) => {
            let mut ps = Vec::new();
            let mut bad = false;
            for (id, p) in m {
                match api_policy(Some(cp::PolicyId::new(id)), p) {
                    Ok(p) => ps.push(p),
                    Err(e) => {
                        bad = true;
                        errs.push(e)
                    }
                }
            }
            if !bad {
                match cp::PolicySet::from_policies(ps) {
                    Ok(s) => pset = s,
                    Err(e) => errs.push(rep(e)),
                }
            }
        }
        Some(_) => errs.push("staticPolicies: bad shape".into()),
    }
    if let Some(J::Object(m)) = v.get("templates") {
        for (id, t) in m {
            match api_template(Some(cp::PolicyId::new(id)), t) {
                Ok(t) => {
                    if let Err(e) = pset.add_template(t) {
                        errs.push(rep(e));
                    }
                }
                Err(e) => errs.push(e),
            }
        }
    }
    if let Some(J::Array(ls)) = v.get("templateLinks") {
        for l in ls {
            let r = (|| -> Result<(), String> {
                let tid = l.get("templateId").and_then(|x| x.as_str()).ok_or("no templateId")?;
                let nid = l.get("newId").and_then(|x| x.as_str()).ok_or("no newId")?;
                let mut vals = HashMap::new();
                if let Some(J::Object(m)) = l.get("values") {
                    for (k, u) in m {
                        vals.insert(api_slot(k)?, cp::EntityUid::from_json(u.clone()).map_err(rep)?);
                    }
                }
                pset.link(cp::PolicyId::new(tid), cp::PolicyId::new(nid), vals).map_err(rep)
            })();
            if let Err(e) = r {
                errs.push(e);
            }
        }
    }
    if errs.is_empty() {
        Ok(pset)
    } else {
        Err(errs)
    }
}

fn pset_ids(ps: &cp::PolicySet) -> J {
    let mut p: Vec<String> = ps.policies().map(|p| p.id().to_string()).collect();
    p.sort();
    let mut t: Vec<String> = ps.templates().map(|p| p.id().to_string()).collect();
    t.sort();
    json!({"policies": p, "templates": t})
}

fn api_schema(v: &J) -> Result<(cp::Schema, usize), String> {
    match v {
        J::String(s) => cp::Schema::from_cedarschema_str(s).map(|(s, w)| (s, w.count())).map_err(rep),
        other => cp::Schema::from_json_value(other.clone()).map(|s| (s, 0)).map_err(rep),
    }
}

fn api_fragment(v: &J) -> Result<(cp::SchemaFragment, usize), String> {
    match v {
        J::String(s) => cp::SchemaFragment::from_cedarschema_str(s).map(|(s, w)| (s, w.count())).map_err(rep),
        other => cp::SchemaFragment::from_json_value(other.clone()).map(|s| (s, 0)).map_err(rep),
    }
}

fn render_response(r: &cp::Response) -> J {
    let mut reasons: Vec<String> = r.diagnostics().reason().map(|p| p.to_string()).collect();
    reasons.sort();
    let mut errors: Vec<(String, String)> = r
        .diagnostics()
        .errors()
        .map(|e| match e {
            cp::AuthorizationError::PolicyEvaluationError(pe) => (pe.policy_id().to_string(), format!("{e}")),
        })
        .collect();
    errors.sort();
    let d = match r.decision() {
        cp::Decision::Allow => "allow",
        cp::Decision::Deny => "deny",
    };
    json!({"decision": d, "reasons": reasons, "errors": errors})
}

/// the request part shared by the stateless and the stateful call, given already-built policies/schema
fn api_authorize(call: &J, schema: Option<&cp::Schema>, pset: Result<cp::PolicySet, Vec<String>>, mut stages: Vec<&'static str>) -> J {
    let get = |k: &str| call.get(k).cloned().unwrap_or(J::Null);
    let p = cp::EntityUid::from_json(get("principal")).map_err(|_| stages.push("principal"));
    let a = cp::EntityUid::from_json(get("action")).map_err(|_| stages.push("action"));
    let r = cp::EntityUid::from_json(get("resource")).map_err(|_| stages.push("resource"));
    let (Ok(p), Ok(a), Ok(r), true) = (p, a, r, stages.is_empty()) else {
        return json!({"fail": stages});
    };
    let ctx = match cp::Context::from_json_value(get("context"), schema.map(|s| (s, &a))) {
        Ok(c) => c,
        Err(_) => return json!({"fail": ["context"]}),
    };
    let validate = call.get("validateRequest").and_then(|b| b.as_bool()).unwrap_or(true);
    let req = cp::Request::new(p, a, r, ctx, if validate { schema } else { None }).map_err(|_| stages.push("request"));
    let ents = cp::Entities::from_json_value(get("entities"), schema).map_err(|_| stages.push("entities"));
    let npol_errs = match &pset {
        Ok(_) => 0,
        Err(es) => {
            stages.push("policies");
            es.len()
        }
    };
    match (req, pset, ents) {
        (Ok(req), Ok(pset), Ok(ents)) => {
            let resp = cp::Authorizer::new().is_authorized(&req, &pset, &ents);
            json!({"ok": render_response(&resp), "ids": pset_ids(&pset)})
        }
        _ => json!({"fail": stages, "policy_errors": npol_errs}),
    }
}

fn api_auth_stateless(call: &J) -> J {
    let mut stages = Vec::new();
    let mut warnings = 0usize;
    let schema = match call.get("schema") {
        None | Some(J::Null) => None,
        Some(s) => match api_schema(s) {
            Ok((s, w)) => {
                warnings = w;
                Some(s)
            }
            Err(_) => {
                stages.push("schema");
                None
            }
        },
    };
    let empty = json!({});
    let pset = api_pset(call.get("policies").unwrap_or(&empty));
    let mut out = api_authorize(call, schema.as_ref(), pset, stages);
    out["warnings"] = json!(warnings);
    out
}

// ------------------------------------------------------------------ one call

fn bad_call(e: impl std::fmt::Display) -> J {
    json!({"bad_call": format!("{e}")})
}

fn one(c: &J) -> Result<J, String> {
    let op = c.get("op").and_then(|o| o.as_str()).ok_or("no op")?;
    let arg = |k: &str| c.get(k).cloned().unwrap_or(J::Null);
    match op {
        // ---------------- stateless authorization: three entry points + the API
        "auth" => {
            let call = arg("call");
            let via_value = match ffi::is_authorized_json(call.clone()) {
                Ok(a) => render_auth_answer(&a),
                Err(e) => bad_call(e),
            };
            let via_str = match ffi::is_authorized_json_str(&call.to_string()) {
                Ok(s) => match serde_json::from_str::<J>(&s) {
                    Ok(a) => render_auth_answer(&a),
                    Err(e) => json!({"unparsable_answer": format!("{e}")}),
                },
                Err(e) => bad_call(e),
            };
            let via_typed = match serde_json::from_value::<ffi::AuthorizationCall>(call.clone()) {
                Ok(tc) => match serde_json::to_value(ffi::is_authorized(tc)) {
                    Ok(a) => render_auth_answer(&a),
                    Err(e) => json!({"unserialisable_answer": format!("{e}")}),
                },
                Err(e) => bad_call(e),
            };
            let api = if via_value.get("bad_call").is_some() { J::Null } else { api_auth_stateless(&call) };
            Ok(json!({"ffi": via_value, "ffi_str": via_str, "ffi_typed": via_typed, "api": api}))
        }
        // ---------------- the cache
        "preparse_pset" => {
            let name = c.get("name").and_then(|n| n.as_str()).ok_or("no name")?.to_string();
            let src = arg("policies");
            let ffi_ans = match serde_json::from_value::<ffi::PolicySet>(src.clone()) {
                Ok(ps) => render_checkparse(&serde_json::to_value(ffi::preparse_policy_set(name, ps)).map_err(rep)?),
                Err(e) => bad_call(e),
            };
            let api = match api_pset(&src) {
                Ok(ps) => json!({"ok": true, "ids": pset_ids(&ps)}),
                Err(es) => json!({"fail": es.len()}),
            };
            Ok(json!({"ffi": ffi_ans, "api": api}))
        }
        "preparse_schema" => {
            let name = c.get("name").and_then(|n| n.as_str()).ok_or("no name")?.to_string();
            let src = arg("schema");
            let ffi_ans = match serde_json::from_value::<ffi::Schema>(src.clone()) {
                Ok(s) => render_checkparse(&serde_json::to_value(ffi::preparse_schema(name, s)).map_err(rep)?),
                Err(e) => bad_call(e),
            };
            let api = match api_schema(&src) {
                Ok(_) => json!({"ok": true}),
                Err(_) => json!({"fail": 1}),
            };
            Ok(json!({"ffi": ffi_ans, "api": api}))
        }
        "stateful_auth" => {
            let call = arg("call");
            let ffi_ans = match serde_json::from_value::<ffi::StatefulAuthorizationCall>(call.clone()) {
                Ok(tc) => render_auth_answer(&serde_json::to_value(ffi::stateful_is_authorized(tc)).map_err(rep)?),
                Err(e) => bad_call(e),
            };
            Ok(json!({"ffi": ffi_ans, "api": J::Null}))
        }
        // ---------------- validation
        "validate" => {
            let call = arg("call");
            let render = |a: &J| -> J {
                match a.get("type").and_then(|t| t.as_str()) {
                    Some("success") => {
                        let lst = |k: &str| -> Vec<(String, String)> {
                            let mut v: Vec<(String, String)> = a[k]
                                .as_array()
                                .map(|x| {
                                    x.iter()
                                        .map(|e| {
                                            (
                                                e["policyId"].as_str().unwrap_or("?").to_string(),
                                                e["error"]["message"].as_str().unwrap_or("?").to_string(),
                                            )
                                        })
                                        .collect()
                                })
                                .unwrap_or_default();
                            v.sort();
                            v
                        };
                        json!({"ok": {"errors": lst("validationErrors"), "warnings": lst("validationWarnings")},
                               "other_warnings": msgs(a.get("otherWarnings")).len()})
                    }
                    Some("failure") => json!({"fail": msgs(a.get("errors"))}),
                    _ => json!({"unexpected": a}),
                }
            };
            let via_value = match ffi::validate_json(call.clone()) {
                Ok(a) => render(&a),
                Err(e) => bad_call(e),
            };
            let via_str = match ffi::validate_json_str(&call.to_string()) {
                Ok(s) => serde_json::from_str::<J>(&s).map(|a| render(&a)).unwrap_or(json!({"unparsable_answer": s})),
                Err(e) => bad_call(e),
            };
            let api = if via_value.get("bad_call").is_some() {
                J::Null
            } else {
                let empty = json!({});
                let pset = api_pset(call.get("policies").unwrap_or(&empty));
                let schema = api_schema(call.get("schema").unwrap_or(&J::Null));
                let mode = match call.get("validationSettings").and_then(|s| s.get("mode")).and_then(|m| m.as_str()) {
                    Some("permissive") => cp::ValidationMode::Permissive,
                    Some("partial") => cp::ValidationMode::Partial,
                    _ => cp::ValidationMode::Strict,
                };
                match (pset, schema) {
                    (Ok(pset), Ok((schema, w))) => {
                        let res = cp::Validator::new(schema).validate(&pset, mode);
                        let mut es: Vec<(String, String)> =
                            res.validation_errors().map(|e| (e.policy_id().to_string(), format!("{e}"))).collect();
                        es.sort();
                        let mut ws: Vec<(String, String)> =
                            res.validation_warnings().map(|e| (e.policy_id().to_string(), format!("{e}"))).collect();
                        ws.sort();
                        json!({"ok": {"errors": es, "warnings": ws}, "other_warnings": w,
                               "passed": res.validation_passed()})
                    }
                    (p, s) => {
                        let mut st = Vec::new();
                        let mut n = 0;
                        if let Err(es) = &p {
                            st.push("policies");
                            n += es.len();
                        }
                        if s.is_err() {
                            st.push("schema");
                            n += 1;
                        }
                        json!({"fail": st, "nerrors": n})
                    }
                }
            };
            Ok(json!({"ffi": via_value, "ffi_str": via_str, "api": api}))
        }
        // ---------------- formatting
        "format" => {
            let call = arg("call");
            let render = |a: &J| -> J {
                match a.get("type").and_then(|t| t.as_str()) {
                    Some("success") => json!({"ok": a["formatted_policy"]}),
                    Some("failure") => json!({"fail": msgs(a.get("errors"))}),
                    _ => json!({"unexpected": a}),
                }
            };
            let ffi_ans = match ffi::format_json(call.clone()) {
                Ok(a) => render(&a),
                Err(e) => bad_call(e),
            };
            let api = if ffi_ans.get("bad_call").is_some() {
                J::Null
            } else {
                let text = call.get("policyText").and_then(|t| t.as_str()).unwrap_or("");
                let cfg = cedar_policy_formatter::Config {
                    line_width: call.get("lineWidth").and_then(|x| x.as_u64()).unwrap_or(80) as usize,
                    indent_width: call.get("indentWidth").and_then(|x| x.as_i64()).unwrap_or(2) as isize,
                };
                match cedar_policy_formatter::policies_str_to_pretty(text, &cfg) {
                    Ok(s) => json!({"ok": s}),
                    Err(_) => json!({"fail": 1}),
                }
            };
            Ok(json!({"ffi": ffi_ans, "api": api}))
        }
        // ---------------- check-parse
        "check_parse_policy_set" => {
            let src = arg("policies");
            let ffi_ans = match ffi::check_parse_policy_set_json(src.clone()) {
                Ok(a) => render_checkparse(&a),
                Err(e) => bad_call(e),
            };
            let api = match api_pset(&src) {
                Ok(ps) => json!({"ok": true, "ids": pset_ids(&ps)}),
                Err(es) => json!({"fail": es.len()}),
            };
            Ok(json!({"ffi": ffi_ans, "api": api}))
        }
        "check_parse_schema" => {
            let src = arg("schema");
            let ffi_ans = match ffi::check_parse_schema_json(src.clone()) {
                Ok(a) => render_checkparse(&a),
                Err(e) => bad_call(e),
            };
            let api = match api_schema(&src) {
                Ok(_) => json!({"ok": true}),
                Err(_) => json!({"fail": 1}),
            };
            Ok(json!({"ffi": ffi_ans, "api": api}))
        }
        "check_parse_entities" => {
            let call = arg("call");
            let ffi_ans = match ffi::check_parse_entities_json(call.clone()) {
                Ok(a) => render_checkparse(&a),
                Err(e) => bad_call(e),
            };
            let api = if ffi_ans.get("bad_call").is_some() {
                J::Null
            } else {
                let schema = match call.get("schema") {
                    None | Some(J::Null) => Ok(None),
                    Some(s) => api_schema(s).map(|(s, _)| Some(s)),
                };
                match schema {
                    Err(_) => json!({"fail": 1, "stage": "schema"}),
                    Ok(schema) => match cp::Entities::from_json_value(arg_of(&call, "entities"), schema.as_ref()) {
                        Ok(_) => json!({"ok": true}),
                        Err(_) => json!({"fail": 1, "stage": "entities"}),
                    },
                }
            };
            Ok(json!({"ffi": ffi_ans, "api": api}))
        }
        "check_parse_context" => {
            let call = arg("call");
            let ffi_ans = match ffi::check_parse_context_json(call.clone()) {
                Ok(a) => render_checkparse(&a),
                Err(e) => bad_call(e),
            };
            let api = if ffi_ans.get("bad_call").is_some() {
                J::Null
            } else {
                (|| -> J {
                    let action = match call.get("action") {
                        None | Some(J::Null) => None,
                        Some(a) => match cp::EntityUid::from_json(a.clone()) {
                            Ok(a) => Some(a),
                            Err(_) => return json!({"fail": 1, "stage": "action"}),
                        },
                    };
                    let schema = match call.get("schema") {
                        None | Some(J::Null) => None,
                        Some(s) => match api_schema(s) {
                            Ok((s, _)) => Some(s),
                            Err(_) => return json!({"fail": 1, "stage": "schema"}),
                        },
                    };
                    let both = match (&schema, &action) {
                        (Some(s), Some(a)) => Some((s, a)),
                        _ => None,
                    };
                    match cp::Context::from_json_value(arg_of(&call, "context"), both) {
                        Err(_) => json!({"fail": 1, "stage": "context"}),
                        Ok(ctx) => {
                            if let Some((s, a)) = both {
                                if ctx.validate(s, a).is_err() {
                                    return json!({"fail": 1, "stage": "validate"});
                                }
                            }
                            json!({"ok": true})
                        }
                    }
                })()
            };
            Ok(json!({"ffi": ffi_ans, "api": api}))
        }
        // ---------------- conversions
        "policy_to_json" | "template_to_json" => {
            let src = arg("policy");
            let render = |a: J| -> J {
                match a.get("type").and_then(|t| t.as_str()) {
                    Some("success") => json!({"ok": a["json"]}),
                    Some("failure") => json!({"fail": msgs(a.get("errors"))}),
                    _ => json!({"unexpected": a}),
                }
            };
            let (ffi_ans, api) = if op == "policy_to_json" {
                (
                    match serde_json::from_value::<ffi::Policy>(src.clone()) {
                        Ok(p) => render(serde_json::to_value(ffi::policy_to_json(p)).map_err(rep)?),
                        Err(e) => bad_call(e),
                    },
                    match api_policy(None, &src).and_then(|p| p.to_json().map_err(rep)) {
                        Ok(j) => json!({"ok": j}),
                        Err(_) => json!({"fail": 1}),
                    },
                )
            } else {
                (
                    match serde_json::from_value::<ffi::Template>(src.clone()) {
                        Ok(p) => render(serde_json::to_value(ffi::template_to_json(p)).map_err(rep)?),
                        Err(e) => bad_call(e),
                    },
                    match api_template(None, &src).and_then(|p| p.to_json().map_err(rep)) {
                        Ok(j) => json!({"ok": j}),
                        Err(_) => json!({"fail": 1}),
                    },
                )
            };
            Ok(json!({"ffi": ffi_ans, "api": api}))
        }
        "policy_to_text" | "template_to_text" => {
            let src = arg("policy");
            let render = |a: J| -> J {
                match a.get("type").and_then(|t| t.as_str()) {
                    Some("success") => json!({"ok": a["text"]}),
                    Some("failure") => json!({"fail": msgs(a.get("errors"))}),
                    _ => json!({"unexpected": a}),
                }
            };
            let (ffi_ans, api) = if op == "policy_to_text" {
                (
                    match serde_json::from_value::<ffi::Policy>(src.clone()) {
                        Ok(p) => render(serde_json::to_value(ffi::policy_to_text(p)).map_err(rep)?),
                        Err(e) => bad_call(e),
                    },
                    match api_policy(None, &src) {
                        Ok(p) => json!({"ok": p.to_string()}),
                        Err(_) => json!({"fail": 1}),
                    },
                )
            } else {
                (
                    match serde_json::from_value::<ffi::Template>(src.clone()) {
                        Ok(p) => render(serde_json::to_value(ffi::template_to_text(p)).map_err(rep)?),
                        Err(e) => bad_call(e),
                    },
                    match api_template(None, &src) {
                        Ok(p) => json!({"ok": p.to_string()}),
                        Err(_) => json!({"fail": 1}),
                    },
                )
            };
            Ok(json!({"ffi": ffi_ans, "api": api}))
        }
        "schema_to_text" | "schema_to_json" => {
            let src = arg("schema");
            let key = if op == "schema_to_text" { "text" } else { "json" };
            let render = |a: J| -> J {
                match a.get("type").and_then(|t| t.as_str()) {
                    Some("success") => json!({"ok": a[key], "warnings": msgs(a.get("warnings")).len()}),
                    Some("failure") => json!({"fail": msgs(a.get("errors"))}),
                    _ => json!({"unexpected": a}),
                }
            };
            let ffi_ans = match serde_json::from_value::<ffi::Schema>(src.clone()) {
                Ok(s) => render(if op == "schema_to_text" {
                    serde_json::to_value(ffi::schema_to_text(s)).map_err(rep)?
                } else {
                    serde_json::to_value(ffi::schema_to_json(s)).map_err(rep)?
                }),
                Err(e) => bad_call(e),
            };
            let api = match api_fragment(&src) {
                Err(_) => json!({"fail": 1, "stage": "parse"}),
                Ok((frag, w)) => {
                    // the document is produced from the fragment; it is only handed out if the
                    // fragment also is a complete, valid schema
                    let valid = api_schema(&src).is_ok();
                    if op == "schema_to_text" {
                        match frag.to_cedarschema() {
                            Err(_) => json!({"fail": 1, "stage": "convert"}),
                            Ok(_) if !valid => json!({"fail": 1, "stage": "invalid"}),
                            Ok(t) => json!({"ok": t, "warnings": w}),
                        }
                    } else {
                        match frag.to_json_value() {
                            Err(_) => json!({"fail": 1, "stage": "convert"}),
                            Ok(_) if !valid => json!({"fail": 1, "stage": "invalid"}),
                            Ok(j) => json!({"ok": j, "warnings": w}),
                        }
                    }
                }
            };
            Ok(json!({"ffi": ffi_ans, "api": api}))
        }
        "policy_set_text_to_parts" => {
            let text = c.get("text").and_then(|t| t.as_str()).ok_or("no text")?;
            let a = serde_json::to_value(ffi::policy_set_text_to_parts(text)).map_err(rep)?;
            let ffi_ans = match a.get("type").and_then(|t| t.as_str()) {
                Some("success") => json!({"ok": {"policies": a["policies"], "templates": a["policy_templates"]}}),
                Some("failure") => json!({"fail": msgs(a.get("errors"))}),
                _ => json!({"unexpected": a}),
            };
            let api = match cp::PolicySet::from_str(text) {
                Err(_) => json!({"fail": 1}),
                Ok(ps) => {
                    let mut p: Vec<(String, Option<String>)> = ps.policies().map(|p| (p.id().to_string(), p.to_cedar())).collect();
                    p.sort();
                    let mut t: Vec<(String, String)> = ps.templates().map(|t| (t.id().to_string(), t.to_cedar())).collect();
                    t.sort();
                    json!({"ok": {"policies": p.into_iter().map(|x| x.1).collect::<Vec<_>>(),
                                  "templates": t.into_iter().map(|x| x.1).collect::<Vec<_>>()}})
                }
            };
            Ok(json!({"ffi": ffi_ans, "api": api}))
        }
        // ---------------- the library's own conversion API PolicySet -> ffi::StaticPolicySet, fed back
        "static_from_api" => {
            let text = c.get("text").and_then(|t| t.as_str()).ok_or("no text")?;
            match cp::PolicySet::from_str(text) {
                Err(_) => Ok(json!({"ffi": {"fail": ["text does not parse"]}, "api": {"fail": 1}})),
                Ok(ps) => {
                    let st = ffi::StaticPolicySet::from(&ps);
                    let doc = serde_json::to_value(&st).map_err(rep)?;
                    let n = ps.policies().count();
                    let back = match ffi::check_parse_policy_set_json(json!({"staticPolicies": doc.clone()})) {
                        Ok(a) => render_checkparse(&a),
                        Err(e) => bad_call(e),
                    };
                    Ok(json!({"ffi": back, "api": {"ok": true, "n": n}, "document": doc}))
                }
            }
        }
        _ => Err(format!("unknown ffi op {op}")),
    }
}

fn arg_of(call: &J, k: &str) -> J {
    call.get(k).cloned().unwrap_or(J::Null)
}
