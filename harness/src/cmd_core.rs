//! eval / authorize
use crate::{render, util};
use cedar_policy_core::ast;
use cedar_policy_core::authorizer::Authorizer;
use cedar_policy_core::evaluator::Evaluator;
use cedar_policy_core::extensions::Extensions;
use serde_json::{json, Value as J};
use std::str::FromStr;

pub fn dispatch(cmd: &str, v: &J) -> Option<Result<J, String>> {
    match cmd {
        "eval" => Some(eval(v)),
        "authorize" => Some(authorize(v)),
        _ => None,
    }
}

fn expr_of(v: &J) -> Result<Result<ast::Expr, String>, String> {
    let route = util::s(v, "route")?;
    match route {
        "text" => {
            let t = util::s(v, "expr")?;
            Ok(ast::Expr::from_str(t).map_err(|e| format!("{e}")))
        }
        "est" => {
            let j = v.get("expr").ok_or("no expr")?.clone();
            let e: Result<cedar_policy_core::est::Expr, _> = serde_json::from_value(j);
            match e {
                Err(e) => Ok(Err(format!("{e}"))),
                Ok(e) => Ok(e.try_into_ast(&ast::PolicyID::from_string("p")).map_err(|e| format!("{e}"))),
            }
        }
        // the expression is the `when` body of a policy; evaluate through the policy condition
        _ => Err(format!("bad route {route}")),
    }
}

pub fn eval(v: &J) -> Result<J, String> {
    let q = util::request(v.get("request").ok_or("no request")?)?;
    let es = util::entities(v.get("entities").ok_or("no entities")?)?;
    let slots = util::slots(v.get("slots"))?;
    let e = match expr_of(v)? {
        Ok(e) => e,
        Err(msg) => return Ok(json!({"parse_error": msg})),
    };
    let ev = Evaluator::new(q, &es, Extensions::all_available());
    Ok(match ev.interpret(&e, &slots) {
        Ok(val) => json!({"ok": render::value(&val)}),
        Err(err) => json!({"err": render::eval_err(&err)}),
    })
}

thread_local! {
    static API_AUTHORIZER: cedar_policy::Authorizer = cedar_policy::Authorizer::new();
}

pub fn authorize(v: &J) -> Result<J, String> {
    use cedar_policy::{Policy, PolicyId, PolicySet, SlotId, Template};
    let mut pset = PolicySet::new();
    let empty = vec![];
    for t in v.get("templates").and_then(|x| x.as_array()).unwrap_or(&empty) {
        let id = util::s(t, "id")?;
        let tpl = Template::parse(Some(PolicyId::new(id)), util::s(t, "text")?).map_err(|e| format!("template {id}: {e}"))?;
        pset.add_template(tpl).map_err(|e| format!("add_template {id}: {e}"))?;
    }
    for p in v.get("policies").and_then(|x| x.as_array()).ok_or("no policies")? {
        if let Some(tid) = p.get("template").and_then(|x| x.as_str()) {
            let id = util::s(p, "id")?;
            let mut vals = std::collections::HashMap::new();
            if let Some(J::Object(m)) = p.get("slots") {
                for (k, u) in m {
                    let sid = match k.as_str() {
                        "?principal" => SlotId::principal(),
                        "?resource" => SlotId::resource(),
                        _ => return Err(format!("bad slot {k}")),
                    };
                    let cu: ast::EntityUID = util::uid(u)?;
                    vals.insert(sid, cedar_policy::EntityUid::from(cu));
                }
            }
            pset.link(PolicyId::new(tid), PolicyId::new(id), vals).map_err(|e| format!("link {id}: {e}"))?;
        } else {
            let id = util::s(p, "id")?;
            let pol = Policy::parse(Some(PolicyId::new(id)), util::s(p, "text")?).map_err(|e| format!("policy {id}: {e}"))?;
            pset.add(pol).map_err(|e| format!("add {id}: {e}"))?;
        }
    }
    let q = util::request(v.get("request").ok_or("no request")?)?;
    let es = util::entities(v.get("entities").ok_or("no entities")?)?;

    // core-level call (error classes are visible here)
    let core_auth = Authorizer::new();
    let core_pset: &ast::PolicySet = pset.as_ref();
    let resp = core_auth.is_authorized(q.clone(), core_pset, &es);
    let mut reasons: Vec<String> = resp.diagnostics.reason.iter().map(|i| { let s: &str = i.as_ref(); s.to_string() }).collect();
    reasons.sort();
    let mut errors: Vec<(String, &'static str)> = resp
        .diagnostics
        .errors
        .iter()
        .map(|e| match e {
            cedar_policy_core::authorizer::AuthorizationError::PolicyEvaluationError { id, error } => {
                ({ let s: &str = id.as_ref(); s.to_string() }, render::eval_err(error))
            }
        })
        .collect();
    errors.sort();

    // API-level call on a long-lived Authorizer (observes "calls made earlier")
    let api_q = cedar_policy::Request::from(q);
    let api_es = cedar_policy::Entities::from(es);
    let api = API_AUTHORIZER.with(|a| a.is_authorized(&api_q, &pset, &api_es));
    let mut api_reasons: Vec<String> = api.diagnostics().reason().map(|i| { let s: &str = i.as_ref(); s.to_string() }).collect();
    api_reasons.sort();
    let mut api_errors: Vec<String> = api
        .diagnostics()
        .errors()
        .map(|e| match e {
            cedar_policy::AuthorizationError::PolicyEvaluationError(pe) => { let s: &str = pe.policy_id().as_ref(); s.to_string() }
        })
        .collect();
    api_errors.sort();

    Ok(json!({
        "decision": format!("{:?}", resp.decision),
        "reasons": reasons,
        "errors": errors.iter().map(|(i, c)| json!([i, c])).collect::<Vec<_>>(),
        "api_decision": format!("{:?}", api.decision()),
        "api_reasons": api_reasons,
        "api_errors": api_errors,
    }))
}
