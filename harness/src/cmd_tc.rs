//! store_history: a sequence of from / add / upsert / remove operations on an entity store,
//! with a full dump (direct parents, ancestor listing, is_ancestor_of and `e in a` for all pairs
//! over the universe) after every operation.  No expectations here.
use crate::util;
use cedar_policy_core::ast;
use cedar_policy_core::entities::{Entities as CoreEntities, NoEntitiesSchema, TCComputation};
use cedar_policy_core::evaluator::Evaluator;
use cedar_policy_core::extensions::Extensions;
use serde_json::{json, Value as J};
use std::collections::HashSet;
use std::str::FromStr;
use std::sync::Arc;

pub fn dispatch(cmd: &str, v: &J) -> Option<Result<J, String>> {
    match cmd {
        "store_history" => Some(store_history(v)),
        _ => None,
    }
}

fn mk_uid(id: &str) -> ast::EntityUID {
    // "Ty:id" or plain "id" (type N)
    let (ty, id) = match id.split_once(':') {
        Some((t, i)) => (t, i),
        None => ("N", id),
    };
    #[allow(clippy::unwrap_used)]
    let ty = ast::EntityType::from_str(ty).unwrap();
    ast::EntityUID::from_components(ty, ast::Eid::new(id), None)
}

fn strs(v: Option<&J>) -> Result<Vec<String>, String> {
    v.and_then(|x| x.as_array())
        .ok_or("expected array of strings")?
        .iter()
        .map(|x| x.as_str().map(|s| s.to_string()).ok_or_else(|| "expected string".to_string()))
        .collect()
}

/// entities of an op, built fresh, the public way (direct parents only, no indirect ancestors)
fn api_entities(v: &J) -> Result<Vec<cedar_policy::Entity>, String> {
    let mut out = vec![];
    for e in v.get("entities").and_then(|x| x.as_array()).ok_or("no entities")? {
        let uid = mk_uid(util::s(e, "uid")?);
        let parents: HashSet<cedar_policy::EntityUid> =
            strs(e.get("parents"))?.iter().map(|p| cedar_policy::EntityUid::from(mk_uid(p))).collect();
        out.push(cedar_policy::Entity::new_no_attrs(cedar_policy::EntityUid::from(uid), parents));
    }
    Ok(out)
}

fn core_entities(v: &J) -> Result<Vec<ast::Entity>, String> {
    let mut out = vec![];
    for e in v.get("entities").and_then(|x| x.as_array()).ok_or("no entities")? {
        let uid = mk_uid(util::s(e, "uid")?);
        let parents: HashSet<ast::EntityUID> = strs(e.get("parents"))?.iter().map(|p| mk_uid(p)).collect();
        out.push(
            ast::Entity::new(uid, [], HashSet::new(), parents, [], Extensions::all_available())
                .map_err(|e| format!("Entity::new: {e}"))?,
        );
    }
    Ok(out)
}

fn classify(e: &cedar_policy_core::entities::err::EntitiesError) -> String {
    use cedar_policy_core::entities::err::EntitiesError as E;
    match e {
        E::Duplicate(_) => "duplicate".to_string(),
        E::TransitiveClosureError(_) => {
            let msg = util::chain(e);
            if msg.contains("has a cycle") {
                "cycle".to_string()
            } else if msg.contains("expected all transitive edges") {
                "missing_edge".to_string()
            } else {
                format!("other: {msg}")
            }
        }
        _ => format!("other: {}", util::chain(e)),
    }
}

fn render_uid(u: &ast::EntityUID) -> String {
    let ty = u.entity_type().to_string();
    let id: &str = u.eid().as_ref();
    if ty == "N" {
        id.to_string()
    } else {
        format!("{ty}:{id}")
    }
}

fn dump(state: &cedar_policy::Entities, universe: &[ast::EntityUID]) -> Result<J, String> {
    let core: &CoreEntities = state.as_ref();
    let mut ents: Vec<(String, Vec<String>, Vec<String>)> = core
        .iter()
        .map(|e| {
            let mut ps: Vec<String> = e.parents().map(render_uid).collect();
            ps.sort();
            // duplicates are kept on purpose (parents and indirect ancestors must be disjoint)
            let mut an: Vec<String> = e.ancestors().map(render_uid).collect();
            an.sort();
            (render_uid(e.uid()), ps, an)
        })
        .collect();
    ents.sort();
    // public listing
    let listing: Vec<J> = universe
        .iter()
        .map(|u| match state.ancestors(&cedar_policy::EntityUid::from(u.clone())) {
            None => J::Null,
            Some(it) => {
                let mut an: Vec<String> = it.map(|x| render_uid(x.as_ref())).collect();
                an.sort();
                json!(an)
            }
        })
        .collect();
    // is_ancestor_of(a, e) and `e in a` for all pairs
    let q = ast::Request::new::<ast::RequestSchemaAllPass>(
        (mk_uid("q:p"), None),
        (mk_uid("Action:act"), None),
        (mk_uid("q:r"), None),
        ast::Context::empty(),
        None,
        Extensions::all_available(),
    )
    .map_err(|e| format!("request: {e}"))?;
    let ev = Evaluator::new(q, core, Extensions::all_available());
    let slots = ast::SlotEnv::new();
    let api_uids: Vec<cedar_policy::EntityUid> = universe.iter().map(|u| cedar_policy::EntityUid::from(u.clone())).collect();
    let mut anc_rows = vec![];
    let mut in_rows = vec![];
    for (ai, a) in universe.iter().enumerate() {
        let mut anc_row = String::new();
        let mut in_row = String::new();
        for (ei, e) in universe.iter().enumerate() {
            anc_row.push(if state.is_ancestor_of(&api_uids[ai], &api_uids[ei]) { '1' } else { '0' });
            let ex = ast::Expr::is_in(ast::Expr::val(e.clone()), ast::Expr::val(a.clone()));
            in_row.push(match ev.interpret(&ex, &slots) {
                Ok(v) => {
                    if v == ast::Value::from(true) {
                        '1'
                    } else if v == ast::Value::from(false) {
                        '0'
                    } else {
                        'T'
                    }
                }
                Err(_) => 'E',
            });
        }
        anc_rows.push(anc_row);
        in_rows.push(in_row);
    }
    Ok(json!({
        "ents": ents.iter().map(|(u, p, a)| json!([u, p, a])).collect::<Vec<_>>(),
        "listing": listing,
        "is_ancestor_of": anc_rows,
        "in": in_rows,
    }))
}

pub fn store_history(v: &J) -> Result<J, String> {
    let universe: Vec<ast::EntityUID> = strs(v.get("universe"))?.iter().map(|s| mk_uid(s)).collect();
    let mut state = cedar_policy::Entities::empty();
    let mut steps = vec![];
    for op in v.get("ops").and_then(|x| x.as_array()).ok_or("no ops")? {
        let kind = util::s(op, "op")?;
        let mode = util::s(op, "mode")?;
        let prev = state.clone();
        // "compute": through the public API (always ComputeNow); "enforce": core API with
        // TCComputation::EnforceAlreadyComputed.  All store operations take the store by value.
        let res: Result<cedar_policy::Entities, String> = match (kind, mode) {
            ("from", "compute") => {
                cedar_policy::Entities::from_entities(api_entities(op)?, None).map_err(|e| classify(e.as_ref_core()))
            }
            ("add", "compute") => state.add_entities(api_entities(op)?, None).map_err(|e| classify(e.as_ref_core())),
            ("upsert", "compute") => state.upsert_entities(api_entities(op)?, None).map_err(|e| classify(e.as_ref_core())),
            ("remove", "compute") => {
                let uids: Vec<cedar_policy::EntityUid> =
                    strs(op.get("uids"))?.iter().map(|u| cedar_policy::EntityUid::from(mk_uid(u))).collect();
                state.remove_entities(uids).map_err(|e| classify(e.as_ref_core()))
            }
            ("from", "enforce") => CoreEntities::from_entities(
                core_entities(op)?,
                None::<&NoEntitiesSchema>,
                TCComputation::EnforceAlreadyComputed,
                Extensions::all_available(),
            )
            .map(cedar_policy::Entities::from)
            .map_err(|e| classify(&e)),
            ("add", "enforce") => {
                let core: CoreEntities = AsRef::<CoreEntities>::as_ref(&state).clone();
                core.add_entities(
                    core_entities(op)?.into_iter().map(Arc::new),
                    None::<&NoEntitiesSchema>,
                    TCComputation::EnforceAlreadyComputed,
                    Extensions::all_available(),
                )
                .map(cedar_policy::Entities::from)
                .map_err(|e| classify(&e))
            }
            ("upsert", "enforce") => {
                let core: CoreEntities = AsRef::<CoreEntities>::as_ref(&state).clone();
                core.upsert_entities(
                    core_entities(op)?.into_iter().map(Arc::new),
                    None::<&NoEntitiesSchema>,
                    TCComputation::EnforceAlreadyComputed,
                    Extensions::all_available(),
                )
                .map(cedar_policy::Entities::from)
                .map_err(|e| classify(&e))
            }
            ("remove", "enforce") => {
                let core: CoreEntities = AsRef::<CoreEntities>::as_ref(&state).clone();
                let uids: Vec<ast::EntityUID> = strs(op.get("uids"))?.iter().map(|u| mk_uid(u)).collect();
                core.remove_entities(uids, TCComputation::EnforceAlreadyComputed)
                    .map(cedar_policy::Entities::from)
                    .map_err(|e| classify(&e))
            }
            _ => return Err(format!("bad op {kind}/{mode}")),
        };
        let (tag, next) = match res {
            Ok(s) => ("ok".to_string(), s),
            // by-value API: the caller's store is consumed by a failed operation; the history
            // continues from a clone taken before the call
            Err(c) => (c, prev),
        };
        state = next;
        let mut d = dump(&state, &universe)?;
        d["res"] = json!(tag);
        steps.push(d);
    }
    Ok(json!({ "steps": steps }))
}

/// the public error type wraps the core one
trait AsCoreErr {
    fn as_ref_core(&self) -> &cedar_policy_core::entities::err::EntitiesError;
}
impl AsCoreErr for cedar_policy::entities_errors::EntitiesError {
    fn as_ref_core(&self) -> &cedar_policy_core::entities::err::EntitiesError {
        self
    }
}
