//! Canonical rendering of Cedar results into JSON (structural, one arm per constructor).
use cedar_policy_core::ast::{self, ExprKind, Literal, Value, ValueKind};
use cedar_policy_core::evaluator::EvaluationError;
use serde_json::{json, Value as J};
use std::str::FromStr;

pub fn str_cp(s: &str) -> J {
    J::Array(s.chars().map(|c| json!(c as u32)).collect())
}

pub fn name(n: &ast::Name) -> J {
    let mut v: Vec<J> = n.as_ref().namespace_components().map(|i| str_cp(i.as_ref())).collect();
    v.push(str_cp(n.as_ref().basename().as_ref()));
    J::Array(v)
}

pub fn etype(t: &ast::EntityType) -> J {
    name(t.name())
}

pub fn uid(u: &ast::EntityUID) -> J {
    json!({"type": etype(u.entity_type()), "id": str_cp(u.eid().as_ref())})
}

/// the literal string argument of a restricted call like decimal("1.5000")
fn str_arg(e: &ast::Expr) -> Option<String> {
    match e.expr_kind() {
        ExprKind::Lit(Literal::String(s)) => Some(s.to_string()),
        _ => None,
    }
}

fn ext(v: &Value, ev: &ast::RepresentableExtensionValue) -> J {
    let tn = ev.typename().to_string();
    let re: ast::RestrictedExpr = ast::RestrictedExpr::from(ev.clone());
    let e: &ast::Expr = re.as_ref();
    let call = match e.expr_kind() {
        ExprKind::ExtensionFunctionApp { fn_name, args } => Some((fn_name.to_string(), args.clone())),
        _ => None,
    };
    match (tn.as_str(), call) {
        ("decimal", Some((_, args))) => {
            // canonical form  [-]i.ffff
            let s = args.first().and_then(str_arg).unwrap_or_default();
            let neg = s.starts_with('-');
            let t = s.trim_start_matches('-');
            let (i, f) = t.split_once('.').unwrap_or((t, "0"));
            let mut f4 = f.to_string();
            while f4.len() < 4 {
                f4.push('0');
            }
            let val: i128 = i.parse::<i128>().unwrap_or(0) * 10000 + f4.parse::<i128>().unwrap_or(0);
            let val = if neg { -val } else { val };
            json!({"ext": ["decimal", val.to_string()]})
        }
        ("ipaddr", Some((_, args))) => {
            let s = args.first().and_then(str_arg).unwrap_or_default();
            let (a, p) = s.split_once('/').unwrap_or((&s, ""));
            match std::net::IpAddr::from_str(a) {
                Ok(std::net::IpAddr::V4(x)) => json!({"ext": ["ip", false, u32::from(x).to_string(), p]}),
                Ok(std::net::IpAddr::V6(x)) => json!({"ext": ["ip", true, u128::from(x).to_string(), p]}),
                Err(_) => json!({"ext": ["ip_unparsed", s]}),
            }
        }
        ("datetime", _) | ("duration", _) => {
            // read the millisecond count back through the public extension functions
            let exts = cedar_policy_core::extensions::Extensions::all_available();
            let call = |f: &str, args: &[Value]| -> Option<Value> {
                let n = ast::Name::from_str(f).ok()?;
                match exts.func(&n).ok()?.call(args).ok()? {
                    ast::PartialValue::Value(v) => Some(v),
                    _ => None,
                }
            };
            let ms = if tn == "duration" {
                call("toMilliseconds", &[v.clone()])
            } else {
                let epoch = call("datetime", &[Value::from("1970-01-01")]);
                epoch
                    .and_then(|ep| call("durationSince", &[v.clone(), ep]))
                    .and_then(|d| call("toMilliseconds", &[d]))
            };
            match ms.as_ref().map(|m| m.value_kind()) {
                Some(ValueKind::Lit(Literal::Long(i))) => json!({"ext": [tn, i.to_string()]}),
                _ => json!({"ext": [format!("{tn}_unreadable"), e.to_string()]}),
            }
        }
        _ => json!({"ext": ["other", e.to_string()]}),
    }
}

pub fn value(v: &Value) -> J {
    match v.value_kind() {
        ValueKind::Lit(Literal::Bool(b)) => json!({"bool": b}),
        ValueKind::Lit(Literal::Long(i)) => json!({"long": i.to_string()}),
        ValueKind::Lit(Literal::String(s)) => json!({"string": str_cp(s)}),
        ValueKind::Lit(Literal::EntityUID(u)) => json!({"entity": uid(u)}),
        ValueKind::Set(s) => json!({"set": s.iter().map(value).collect::<Vec<_>>()}),
        ValueKind::Record(r) => {
            json!({"record": r.iter().map(|(k, x)| json!([str_cp(k), value(x)])).collect::<Vec<_>>()})
        }
        ValueKind::ExtensionValue(ev) => ext(v, ev),
    }
}

pub fn eval_err(e: &EvaluationError) -> &'static str {
    match e {
        EvaluationError::EntityDoesNotExist(_) => "EntityDoesNotExist",
        EvaluationError::EntityAttrDoesNotExist(_) => "EntityAttrDoesNotExist",
        EvaluationError::RecordAttrDoesNotExist(_) => "RecordAttrDoesNotExist",
        EvaluationError::FailedExtensionFunctionLookup(_) => "FailedExtensionFunctionLookup",
        EvaluationError::TypeError(_) => "TypeError",
        EvaluationError::WrongNumArguments(_) => "WrongNumArguments",
        EvaluationError::IntegerOverflow(_) => "IntegerOverflow",
        EvaluationError::UnlinkedSlot(_) => "UnlinkedSlot",
        EvaluationError::FailedExtensionFunctionExecution(_) => "FailedExtensionFunctionExecution",
        EvaluationError::NonValue(_) => "NonValue",
        EvaluationError::RecursionLimit(_) => "RecursionLimit",
        #[allow(unreachable_patterns)]
        _ => "Other",
    }
}
