//! C20 (proof part): the implementation side of the checked transcriptions of coq/model/NoPanic.v.
//!   np_fuzzy        {key, words: [..], max: null|n}  -> {"ok": word|null}   fuzzy_match::fuzzy_search_limited
//!   np_lev          {a, b}                            -> {"ok": n|null}      distance recovered through thresholds
//!   np_like         {pattern: [cp|"star"...], text}   -> {"ok": bool}        Pattern::wildcard_match
//!   np_inrange      {a, b}                            -> {"ok": bool} | {"noparse": true}   ip(a).isInRange(ip(b))
//!   np_display_extn {fn, args: [long...]}             -> {"ok": text}        Display of a JSON policy whose
//!                    `when` body is {"Value": {"__extn": {"fn": fn, "args": [..]}}}
//! Strings travel as arrays of Unicode scalar values.  A panic is reported by main.rs as {"panic": ..}.
use cedar_policy_core::ast;
use cedar_policy_core::fuzzy_match::fuzzy_search_limited;
use serde_json::{json, Value as J};

pub fn dispatch(cmd: &str, v: &J) -> Option<Result<J, String>> {
    match cmd {
        "np_fuzzy" => Some(np_fuzzy(v)),
        "np_lev" => Some(np_lev(v)),
        "np_like" => Some(np_like(v)),
        "np_inrange" => Some(np_inrange(v)),
        "np_display_extn" => Some(np_display_extn(v)),
        _ => None,
    }
}

fn cps(v: &J) -> Result<String, String> {
    v.as_array()
        .ok_or("string must be an array of scalar values")?
        .iter()
        .map(|c| {
            c.as_u64()
                .and_then(|n| char::from_u32(n as u32))
                .ok_or_else(|| format!("bad scalar value {c}"))
        })
        .collect()
}

fn to_cps(s: &str) -> J {
    J::Array(s.chars().map(|c| json!(c as u32)).collect())
}

fn np_fuzzy(v: &J) -> Result<J, String> {
    let key = cps(&v["key"])?;
    let words: Vec<String> = v["words"].as_array().ok_or("words")?.iter().map(cps).collect::<Result<_, _>>()?;
    let max = v["max"].as_u64().map(|n| n as usize);
    Ok(match fuzzy_search_limited(&key, &words, max) {
        Some(w) => json!({"ok": to_cps(&w)}),
        None => json!({"ok": null}),
    })
}

fn np_lev(v: &J) -> Result<J, String> {
    let a = cps(&v["a"])?;
    let b = cps(&v["b"])?;
    if a.is_empty() {
        return Ok(json!({"ok": null}));
    }
    let bound = a.chars().count().max(b.chars().count());
    for d in 0..=bound {
        if fuzzy_search_limited(&a, &[b.as_str()], Some(d)).is_some() {
            return Ok(json!({"ok": d}));
        }
    }
    Ok(json!({"ok": "above-max-length"}))
}

fn np_like(v: &J) -> Result<J, String> {
    let pat: ast::Pattern = v["pattern"]
        .as_array()
        .ok_or("pattern")?
        .iter()
        .map(|e| {
            if e.as_str() == Some("star") {
                Ok(ast::PatternElem::Wildcard)
            } else {
                e.as_u64()
                    .and_then(|n| char::from_u32(n as u32))
                    .map(ast::PatternElem::Char)
                    .ok_or_else(|| format!("bad pattern element {e}"))
            }
        })
        .collect::<Result<Vec<_>, String>>()?
        .into_iter()
        .collect();
    let text = cps(&v["text"])?;
    Ok(json!({"ok": pat.wildcard_match(&text)}))
}

fn np_inrange(v: &J) -> Result<J, String> {
    use cedar_policy_core::entities::Entities;
    use cedar_policy_core::evaluator::Evaluator;
    use cedar_policy_core::extensions::Extensions;
    use std::str::FromStr;
    let a = cps(&v["a"])?;
    let b = cps(&v["b"])?;
    let ip = ast::Name::from_str("ip").map_err(|e| e.to_string())?;
    let isin = ast::Name::from_str("isInRange").map_err(|e| e.to_string())?;
    let ea = ast::Expr::call_extension_fn(ip.clone(), vec![ast::Expr::val(a.as_str())]);
    let eb = ast::Expr::call_extension_fn(ip, vec![ast::Expr::val(b.as_str())]);
    let q = crate::util::request(&json!({
        "principal": {"type": "U", "id": "p"}, "action": {"type": "Action", "id": "a"},
        "resource": {"type": "R", "id": "r"}, "context": {}}))?;
    let es = Entities::new();
    let ev = Evaluator::new(q, &es, Extensions::all_available());
    let slots = ast::SlotEnv::new();
    if ev.interpret(&ea, &slots).is_err() || ev.interpret(&eb, &slots).is_err() {
        return Ok(json!({"noparse": true}));
    }
    let e = ast::Expr::call_extension_fn(isin, vec![ea, eb]);
    match ev.interpret(&e, &slots) {
        Ok(val) => match val.value_kind() {
            ast::ValueKind::Lit(ast::Literal::Bool(b)) => Ok(json!({"ok": b})),
            _ => Err("isInRange returned a non-boolean".into()),
        },
        Err(e) => Ok(json!({"err": e.to_string()})),
    }
}

fn np_display_extn(v: &J) -> Result<J, String> {
    let f = cps(&v["fn"])?;
    let args = v["args"].clone();
    let pj = json!({
        "effect": "permit",
        "principal": {"op": "All"}, "action": {"op": "All"}, "resource": {"op": "All"},
        "conditions": [{"kind": "when", "body": {"Value": {"__extn": {"fn": f, "args": args}}}}]
    });
    let est: cedar_policy_core::est::Policy = serde_json::from_value(pj).map_err(|e| format!("est: {e}"))?;
    let text = format!("{est}");
    // the condition body sits between "when {" and the closing "};"
    let body = text
        .split_once("when {")
        .and_then(|(_, r)| r.rsplit_once("}"))
        .map(|(b, _)| b.trim().to_string())
        .ok_or_else(|| format!("unexpected display: {text}"))?;
    Ok(json!({"ok": to_cps(&body), "full": text}))
}
