//! C17 — entity manifests and slicing.
//!   manifest        {schema_json, templates?, policies}                    -> manifest (serde form) + per policy and
//!                                                                             request environment the typed expression
//!                                                                             the analysis ran on | {"error": class}
//!   manifest_slice  {schema_json, templates?, policies, request, entities} -> the same manifest, the store sliced by
//!                                                                             EntityManifest::slice_entities (per entity:
//!                                                                             attrs, ancestors, tags), and the core
//!                                                                             authorization response on the full and
//!                                                                             on the sliced store
//!   manifest_slice_given {schema_json, manifest, request, entities}        -> slice by a manifest given in serde form
//!                                                                             (EntityManifest::from_json_value)
//! No expectations here: construction, call, canonical rendering.
use crate::{cmd_typecheck, render, util};
use cedar_policy_core::ast;
use cedar_policy_core::authorizer::Authorizer;
use cedar_policy_core::entities::Entities;
use cedar_policy_core::validator::entity_manifest::EntityManifest;
use cedar_policy_core::validator::typecheck::{PolicyCheck, Typechecker};
use cedar_policy_core::validator::{ValidationMode, ValidatorSchema};
use serde_json::{json, Value as J};

pub fn dispatch(cmd: &str, v: &J) -> Option<Result<J, String>> {
    match cmd {
        "manifest" => Some(manifest(v)),
        "manifest_slice" => Some(manifest_slice(v)),
        "manifest_slice_many" => Some(manifest_slice_many(v)),
        "manifest_slice_given" => Some(manifest_slice_given(v)),
        _ => None,
    }
}

/// the policy set of the command (same shape as `authorize`)
fn pset_of(v: &J) -> Result<cedar_policy::PolicySet, String> {
    use cedar_policy::{Policy, PolicyId, PolicySet, SlotId, Template};
    let mut pset = PolicySet::new();
    let empty = vec![];
    for t in v.get("templates").and_then(|x| x.as_array()).unwrap_or(&empty) {
        let id = util::s(t, "id")?;
        let tpl = Template::parse(Some(PolicyId::new(id)), util::s(t, "text")?).map_err(|e| format!("template {id}: {e}"))?;
        pset.add_template(tpl).map_err(|e| format!("add_template {id}: {e}"))?;
    }
    for p in v.get("policies").and_then(|x| x.as_array()).ok_or("no policies")? {
        let id = util::s(p, "id")?;
        if let Some(tid) = p.get("template").and_then(|x| x.as_str()) {
            let mut vals = std::collections::HashMap::new();
            if let Some(J::Object(m)) = p.get("slots") {
                for (k, u) in m {
                    let sid = match k.as_str() {
                        "?principal" => SlotId::principal(),
                        "?resource" => SlotId::resource(),
                        _ => return Err(format!("bad slot {k}")),
                    };
                    let cu: ast::EntityUID = util::uid(u)?;
                    vals.insert(sid, cedar_policy::EntityUid::from(cu));
                }
            }
            pset.link(PolicyId::new(tid), PolicyId::new(id), vals).map_err(|e| format!("link {id}: {e}"))?;
        } else {
            let pol = Policy::parse(Some(PolicyId::new(id)), util::s(p, "text")?).map_err(|e| format!("policy {id}: {e}"))?;
            pset.add(pol).map_err(|e| format!("add {id}: {e}"))?;
        }
    }
    Ok(pset)
}

struct Computed {
    core_schema: ValidatorSchema,
    pset: cedar_policy::PolicySet,
    manifest: Result<EntityManifest, J>,
}

fn error_class(e: &cedar_policy::EntityManifestError) -> J {
    use cedar_policy::EntityManifestError as E;
    match e {
        E::Validation(r) => {
            let mut kinds: Vec<String> = r
                .validation_errors()
                .map(|e| {
                    let d = format!("{e:?}");
                    d.split(|c: char| !c.is_alphanumeric() && c != '_').next().unwrap_or("").to_string()
                })
                .collect();
            kinds.sort();
            json!({"error": "Validation", "kinds": kinds})
        }
        E::Entities(_) => json!({"error": "Entities"}),
        E::PartialRequest(_) => json!({"error": "PartialRequest"}),
        E::PartialExpression(_) => json!({"error": "PartialExpression"}),
        E::UnsupportedCedarFeature(f) => json!({"error": "UnsupportedCedarFeature", "feature": f.to_string()}),
        #[allow(unreachable_patterns)]
        _ => json!({"error": "Other"}),
    }
}

fn compute(v: &J) -> Result<Result<Computed, J>, String> {
    let core_schema = match cmd_typecheck::schema_of(v)? {
        Ok(s) => s,
        Err(m) => return Ok(Err(json!({"schema_error": m}))),
    };
    let pset = match pset_of(v) {
        Ok(p) => p,
        Err(m) => return Ok(Err(json!({"parse_error": m}))),
    };
    // the API-level entry point (cedar_policy::compute_entity_manifest) over the API-level schema
    let api_schema = cedar_policy::Schema::from_json_value(v.get("schema_json").ok_or("no schema_json")?.clone())
        .map_err(|e| format!("api schema: {e}"))?;
    let validator = cedar_policy::Validator::new(api_schema);
    #[allow(deprecated)]
    let manifest = cedar_policy::compute_entity_manifest(&validator, &pset).map_err(|e| error_class(&e));
    Ok(Ok(Computed { core_schema, pset, manifest }))
}

/// per policy (links included) and request environment: what the typechecker handed to the analysis
fn typed_dump(c: &Computed) -> J {
    let tc = Typechecker::new(&c.core_schema, ValidationMode::Strict);
    let core_pset: &ast::PolicySet = c.pset.as_ref();
    let mut out: Vec<(String, J)> = vec![];
    for policy in core_pset.policies() {
        let id: &str = policy.id().as_ref();
        let mut envs = vec![];
        for (env, check) in tc.typecheck_by_request_env(policy.template()) {
            let (res, typed) = match check {
                PolicyCheck::Success(e) => ("success", Some(cmd_typecheck::typed_expr(&e))),
                PolicyCheck::Irrelevant(_, _) => ("irrelevant", None),
                PolicyCheck::Fail(_) => ("fail", None),
            };
            envs.push(json!({"env": cmd_typecheck::request_env(&env), "result": res, "typed": typed}));
        }
        let mut slots: Vec<(String, J)> = policy.env().iter().map(|(k, u)| (k.to_string(), render::uid(u))).collect();
        slots.sort_by(|a, b| a.0.cmp(&b.0));
        out.push((id.to_string(), json!({"id": id, "envs": envs,
            "slots": slots.into_iter().map(|(k, u)| json!([k, u])).collect::<Vec<_>>()})));
    }
    out.sort_by(|a, b| a.0.cmp(&b.0));
    J::Array(out.into_iter().map(|x| x.1).collect())
}

pub fn manifest(v: &J) -> Result<J, String> {
    let c = match compute(v)? {
        Ok(c) => c,
        Err(j) => return Ok(j),
    };
    match &c.manifest {
        Err(j) => Ok(j.clone()),
        Ok(m) => Ok(json!({"manifest": serde_json::to_value(m).map_err(|e| format!("{e}"))?, "typed": typed_dump(&c)})),
    }
}

fn store_dump(es: &Entities) -> J {
    let mut out: Vec<(String, J)> = vec![];
    for e in es.iter() {
        let mut attrs: Vec<(String, J)> = e
            .attrs()
            .map(|(k, pv)| {
                (k.to_string(), match pv {
                    ast::PartialValue::Value(val) => json!([render::str_cp(k), render::value(val)]),
                    ast::PartialValue::Residual(_) => json!([render::str_cp(k), "residual"]),
                })
            })
            .collect();
        attrs.sort_by(|a, b| a.0.cmp(&b.0));
        let mut tags: Vec<String> = e.tags().map(|(k, _)| k.to_string()).collect();
        tags.sort();
        let mut anc: Vec<(String, J)> = e.ancestors().map(|u| (u.to_string(), render::uid(u))).collect();
        anc.sort_by(|a, b| a.0.cmp(&b.0));
        anc.dedup_by(|a, b| a.0 == b.0);
        out.push((e.uid().to_string(), json!({"uid": render::uid(e.uid()),
            "attrs": attrs.into_iter().map(|x| x.1).collect::<Vec<_>>(),
            "tags": tags.iter().map(|k| render::str_cp(k)).collect::<Vec<_>>(),
            "ancestors": anc.into_iter().map(|x| x.1).collect::<Vec<_>>()})));
    }
    out.sort_by(|a, b| a.0.cmp(&b.0));
    J::Array(out.into_iter().map(|x| x.1).collect())
}

fn respond(pset: &ast::PolicySet, q: &ast::Request, es: &Entities) -> J {
    let resp = Authorizer::new().is_authorized(q.clone(), pset, es);
    let mut reasons: Vec<String> = resp.diagnostics.reason.iter().map(|i| { let s: &str = i.as_ref(); s.to_string() }).collect();
    reasons.sort();
    let mut errors: Vec<(String, &'static str)> = resp
        .diagnostics
        .errors
        .iter()
        .map(|e| match e {
            cedar_policy_core::authorizer::AuthorizationError::PolicyEvaluationError { id, error } => {
                ({ let s: &str = id.as_ref(); s.to_string() }, render::eval_err(error))
            }
        })
        .collect();
    errors.sort();
    json!({"decision": format!("{:?}", resp.decision), "reasons": reasons,
           "errors": errors.iter().map(|(i, c)| json!([i, c])).collect::<Vec<_>>()})
}

fn slice_error_class(e: &cedar_policy_core::validator::entity_manifest::slicing::EntitySliceError) -> &'static str {
    use cedar_policy_core::validator::entity_manifest::slicing::EntitySliceError as E;
    match e {
        E::Entities(_) => "Entities",
        E::PartialRequest(_) => "PartialRequest",
        E::PartialExpression(_) => "PartialExpression",
        E::IncompatibleEntityManifest(_) => "IncompatibleEntityManifest",
        E::PartialEntity(_) => "PartialEntity",
        E::PartialContext(_) => "PartialContext",
        E::WrongNumberOfEntities(_) => "WrongNumberOfEntities",
    }
}

fn slice_one(c: &Computed, m: &EntityManifest, case: &J, with_manifest: bool) -> Result<J, String> {
    let q = util::request(case.get("request").ok_or("no request")?)?;
    let es = util::entities(case.get("entities").ok_or("no entities")?)?;
    let core_pset: &ast::PolicySet = c.pset.as_ref();
    let full = respond(core_pset, &q, &es);
    let mj = if with_manifest { serde_json::to_value(m).map_err(|e| format!("{e}"))? } else { J::Null };
    match m.slice_entities(&es, &q) {
        Err(e) => Ok(json!({"manifest": mj, "slice_error": slice_error_class(&e), "full": full})),
        Ok(sliced) => Ok(json!({"manifest": mj, "store": store_dump(&es), "slice": store_dump(&sliced), "full": full,
                                "sliced": respond(core_pset, &q, &sliced)})),
    }
}

pub fn manifest_slice(v: &J) -> Result<J, String> {
    let c = match compute(v)? {
        Ok(c) => c,
        Err(j) => return Ok(j),
    };
    let m = match &c.manifest {
        Err(j) => return Ok(j.clone()),
        Ok(m) => m,
    };
    slice_one(&c, m, v, true)
}

/// {schema_json, templates?, policies, cases: [{request, entities}]}: the manifest is computed once; every case
/// is sliced and authorized under its own catch_unwind -> {"manifest", "typed", "results": [...]}
pub fn manifest_slice_many(v: &J) -> Result<J, String> {
    let c = match compute(v)? {
        Ok(c) => c,
        Err(j) => return Ok(j),
    };
    let m = match &c.manifest {
        Err(j) => return Ok(j.clone()),
        Ok(m) => m,
    };
    let empty = vec![];
    let mut results = vec![];
    for case in v.get("cases").and_then(|x| x.as_array()).unwrap_or(&empty) {
        let r = std::panic::catch_unwind(std::panic::AssertUnwindSafe(|| slice_one(&c, m, case, false)));
        results.push(match r {
            Ok(Ok(j)) => j,
            Ok(Err(e)) => json!({"harness_error": e}),
            Err(p) => {
                let msg = if let Some(s) = p.downcast_ref::<&str>() { s.to_string() }
                          else if let Some(s) = p.downcast_ref::<String>() { s.clone() } else { "panic".to_string() };
                json!({"panic": msg})
            }
        });
    }
    Ok(json!({"manifest": serde_json::to_value(m).map_err(|e| format!("{e}"))?, "typed": typed_dump(&c), "results": results}))
}

pub fn manifest_slice_given(v: &J) -> Result<J, String> {
    let core_schema = match cmd_typecheck::schema_of(v)? {
        Ok(s) => s,
        Err(m) => return Ok(json!({"schema_error": m})),
    };
    let m = match EntityManifest::from_json_value(v.get("manifest").ok_or("no manifest")?.clone(), &core_schema) {
        Ok(m) => m,
        Err(e) => return Ok(json!({"manifest_error": format!("{e}")})),
    };
    let q = util::request(v.get("request").ok_or("no request")?)?;
    let es = util::entities(v.get("entities").ok_or("no entities")?)?;
    match m.slice_entities(&es, &q) {
        Err(e) => Ok(json!({"slice_error": slice_error_class(&e)})),
        Ok(sliced) => Ok(json!({"slice": store_dump(&sliced)})),
    }
}
