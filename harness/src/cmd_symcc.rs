//! C18 — symbolic compilation against a LITERAL symbolic environment vs. concrete evaluation.
//!
//!   symcc_lit {schema, policies:[{id,text}], psets:[[id..]..], pset_pairs:[[i,j]..],
//!              policy_pairs:[[id,id]..], request, entities}
//!
//! Builds `SymEnv::from_concrete_env(req_env, schema, Env{request, entities})`, compiles every policy /
//! policy set with `compile_with_custom_symenv` (the optimised `symccopt` pipeline: well-typing, compile,
//! footprint, acyclicity) and renders the assertion lists produced by the public `*_asserts` builders
//! (no solver).  Each assertion is rendered "true" / "false" / "nl:<term size>" (not a literal).
//! The same questions are also put to the deprecated un-optimised pipeline (`symcc::compiler`,
//! `symcc::verifier`) through `CedarSymCompiler::check_*` with a `WriterSolver` over a `Vec<u8>`: that
//! pipeline answers without the solver exactly when all assertions are constants; when they are not the
//! `WriterSolver` answers Unknown and the result is rendered "not_literal".
//! Finally the concrete authorizer is run on the same request / entities.  No expectations here.
#![allow(deprecated)]
use crate::{render, util};
use cedar_policy::{Context, Entities, EntityUid, Policy, PolicyId, PolicySet, Request, RequestEnv, Schema};
use cedar_policy_core::ast;
use cedar_policy_core::authorizer::Authorizer;
use cedar_policy_symcc as sc;
use cedar_policy_symcc::solver::WriterSolver;
use cedar_policy_symcc::term::{Term, TermPrim};
use serde_json::{json, Value as J};
use std::collections::BTreeMap;

pub fn dispatch(cmd: &str, v: &J) -> Option<Result<J, String>> {
    match cmd {
        "symcc_lit" => Some(symcc_lit(v)),
        _ => None,
    }
}

thread_local! {
    static LAST_SCHEMA: std::cell::RefCell<Option<(String, Result<Schema, String>)>> = std::cell::RefCell::new(None);
}

fn schema_of(v: &J) -> Result<Result<Schema, String>, String> {
    let j = v.get("schema").ok_or("no schema")?.clone();
    let key = j.to_string();
    let hit = LAST_SCHEMA.with(|c| match &*c.borrow() {
        Some((k, s)) if *k == key => Some(s.clone()),
        _ => None,
    });
    if let Some(s) = hit {
        return Ok(s);
    }
    let s = Schema::from_json_value(j).map_err(|e| util::chain(&e));
    LAST_SCHEMA.with(|c| *c.borrow_mut() = Some((key, s.clone())));
    Ok(s)
}

/// poll a future that never really suspends (all I/O goes to a Vec<u8>)
fn block_on<F: std::future::Future>(f: F) -> F::Output {
    use std::task::{Context, Poll, RawWaker, RawWakerVTable, Waker};
    fn raw() -> RawWaker {
        fn no(_: *const ()) {}
        fn cl(_: *const ()) -> RawWaker {
            raw()
        }
        static VT: RawWakerVTable = RawWakerVTable::new(cl, no, no, no);
        RawWaker::new(std::ptr::null(), &VT)
    }
    let waker = unsafe { Waker::from_raw(raw()) };
    let mut cx = Context::from_waker(&waker);
    let mut f = std::pin::pin!(f);
    let mut spins = 0u32;
    loop {
        if let Poll::Ready(v) = f.as_mut().poll(&mut cx) {
            return v;
        }
        spins += 1;
        if spins > 1_000_000 {
            panic!("block_on: future does not complete");
        }
    }
}

fn term_size(t: &Term) -> usize {
    match t {
        Term::App { args, .. } => 1 + args.iter().map(term_size).sum::<usize>(),
        Term::None(_) | Term::Prim(_) | Term::Var(_) => 1,
        Term::Record(m) => 1 + m.values().map(term_size).sum::<usize>(),
        Term::Set { elts, .. } => 1 + elts.iter().map(term_size).sum::<usize>(),
        Term::Some(t) => 1 + term_size(t),
    }
}

fn render_assert(t: &Term) -> String {
    match t {
        Term::Prim(TermPrim::Bool(true)) => "true".into(),
        Term::Prim(TermPrim::Bool(false)) => "false".into(),
        t => format!("nl:{}", term_size(t)),
    }
}

fn render_asserts(a: &sc::WellFormedAsserts<'_>) -> J {
    J::Array(a.asserts().iter().map(|t| J::String(render_assert(t))).collect())
}

fn variant_name<T: std::fmt::Debug>(e: &T) -> String {
    let s = format!("{e:?}");
    s.chars().take_while(|c| c.is_alphanumeric() || *c == '_').collect()
}

fn err_class(e: &sc::err::Error) -> String {
    use sc::err::Error as E;
    match e {
        E::CompileError(c) => format!("CompileError:{}", variant_name(c)),
        E::SolverUnknown => "not_literal".to_string(),
        E::EncodeError(_) => "not_literal:encode".to_string(),
        other => variant_name(other),
    }
}

fn old_result(r: Result<bool, sc::err::Error>) -> J {
    match r {
        Ok(b) => J::Bool(b),
        Err(e) => J::String(err_class(&e)),
    }
}

fn api_uid(v: &J) -> Result<EntityUid, String> {
    Ok(EntityUid::from(util::uid(v)?))
}

fn symcc_lit(v: &J) -> Result<J, String> {
    let schema = match schema_of(v)? {
        Ok(s) => s,
        Err(m) => return Ok(json!({"schema_error": m})),
    };
    let rq = v.get("request").ok_or("no request")?;
    let ents_json = v.get("entities").ok_or("no entities")?;
    // concrete data, built WITHOUT the schema (explicit escapes), as the evaluator sees them
    let core_q = util::request(rq)?;
    let core_es = util::entities(ents_json)?;
    let api_q = Request::from(core_q.clone());
    let api_es = Entities::from(core_es.clone());

    // conformance of the data, as Cedar itself judges it
    let p = api_uid(rq.get("principal").ok_or("no principal")?)?;
    let a = api_uid(rq.get("action").ok_or("no action")?)?;
    let r = api_uid(rq.get("resource").ok_or("no resource")?)?;
    let request_valid = match Context::from_json_value(rq.get("context").ok_or("no context")?.clone(), Some((&schema, &a))) {
        Err(e) => J::String(format!("context: {}", variant_name(&e))),
        Ok(c) => match Request::new(p.clone(), a.clone(), r.clone(), c, Some(&schema)) {
            Ok(_) => J::Bool(true),
            Err(e) => J::String(variant_name(&e)),
        },
    };
    let entities_valid = match Entities::from_json_value(ents_json.clone(), Some(&schema)) {
        Ok(_) => J::Bool(true),
        Err(e) => J::String(variant_name(&e)),
    };

    let req_env = RequestEnv::new(p.type_name().clone(), a.clone(), r.type_name().clone());

    // policies
    let mut pols: BTreeMap<String, Policy> = BTreeMap::new();
    let mut order: Vec<String> = vec![];
    for pj in v.get("policies").and_then(|x| x.as_array()).ok_or("no policies")? {
        let id = util::s(pj, "id")?.to_string();
        let pol = Policy::parse(Some(PolicyId::new(&id)), util::s(pj, "text")?).map_err(|e| format!("policy {id}: {e}"))?;
        order.push(id.clone());
        pols.insert(id, pol);
    }

    let mk_env = || {
        sc::SymEnv::from_concrete_env(
            &req_env,
            &schema,
            &sc::Env { request: api_q.clone(), entities: api_es.clone() },
        )
    };
    let symenv = match mk_env() {
        Ok(e) => e,
        Err(e) => {
            return Ok(json!({
                "request_valid": request_valid, "entities_valid": entities_valid,
                "symenv": {"err": variant_name(&e), "msg": format!("{e:?}").chars().take(300).collect::<String>()},
            }))
        }
    };
    let env_literal = symenv.is_literal();

    let auth = Authorizer::new();
    let concrete = |ids: &[String]| -> Result<(String, Vec<String>, Vec<(String, &'static str)>), String> {
        let mut ps = ast::PolicySet::new();
        for id in ids {
            let pol: &ast::Policy = pols.get(id).ok_or(format!("unknown policy {id}"))?.as_ref();
            ps.add(pol.clone()).map_err(|e| format!("add {id}: {e}"))?;
        }
        let resp = auth.is_authorized(core_q.clone(), &ps, &core_es);
        let mut reasons: Vec<String> = resp.diagnostics.reason.iter().map(|i| { let s: &str = i.as_ref(); s.to_string() }).collect();
        reasons.sort();
        let mut errors: Vec<(String, &'static str)> = resp
            .diagnostics
            .errors
            .iter()
            .map(|e| match e {
                cedar_policy_core::authorizer::AuthorizationError::PolicyEvaluationError { id, error } => {
                    ({ let s: &str = id.as_ref(); s.to_string() }, render::eval_err(error))
                }
            })
            .collect();
        errors.sort();
        Ok((format!("{:?}", resp.decision), reasons, errors))
    };

    let mut solver = sc::CedarSymCompiler::new(WriterSolver { w: Vec::<u8>::new() }).map_err(|e| format!("{e}"))?;

    // ---- single policies
    let mut compiled: BTreeMap<String, sc::CompiledPolicy> = BTreeMap::new();
    let mut welltyped: BTreeMap<String, sc::WellTypedPolicy> = BTreeMap::new();
    let mut pol_out = serde_json::Map::new();
    for id in &order {
        let pol = &pols[id];
        let mut o = serde_json::Map::new();
        let (_, reasons, errors) = concrete(&[id.clone()])?;
        o.insert("eval".into(), json!({
            "sat": reasons.contains(id),
            "err": errors.first().map(|(_, k)| J::String(k.to_string())).unwrap_or(J::Null),
        }));
        o.insert("effect".into(), J::String(format!("{:?}", pol.effect())));
        match sc::CompiledPolicy::compile_with_custom_symenv(pol, &req_env, &schema, symenv.clone()) {
            Err(e) => {
                o.insert("compile".into(), J::String(err_class(&e)));
            }
            Ok(cp) => {
                o.insert("compile".into(), J::String("ok".into()));
                o.insert("ne".into(), render_asserts(&sc::never_errors_asserts(&cp)));
                o.insert("am".into(), render_asserts(&sc::always_matches_asserts(&cp)));
                o.insert("nm".into(), render_asserts(&sc::never_matches_asserts(&cp)));
                compiled.insert(id.clone(), cp);
            }
        }
        match sc::WellTypedPolicy::from_policy(pol, &req_env, &schema) {
            Err(e) => {
                o.insert("welltyped".into(), J::String(err_class(&e)));
            }
            Ok(wp) => {
                o.insert("welltyped".into(), J::String("ok".into()));
                o.insert("old".into(), json!({
                    "ne": old_result(block_on(solver.check_never_errors(&wp, &symenv))),
                    "am": old_result(block_on(solver.check_always_matches(&wp, &symenv))),
                    "nm": old_result(block_on(solver.check_never_matches(&wp, &symenv))),
                }));
                welltyped.insert(id.clone(), wp);
            }
        }
        pol_out.insert(id.clone(), J::Object(o));
    }

    // ---- pairs of policies (matches_*)
    let mut ppairs_out = vec![];
    for pr in v.get("policy_pairs").and_then(|x| x.as_array()).unwrap_or(&vec![]) {
        let i = pr.get(0).and_then(|x| x.as_str()).ok_or("bad policy pair")?.to_string();
        let j = pr.get(1).and_then(|x| x.as_str()).ok_or("bad policy pair")?.to_string();
        let mut o = serde_json::Map::new();
        if let (Some(c1), Some(c2)) = (compiled.get(&i), compiled.get(&j)) {
            o.insert("m_equivalent".into(), render_asserts(&sc::matches_equivalent_asserts(c1, c2)));
            o.insert("m_implies".into(), render_asserts(&sc::matches_implies_asserts(c1, c2)));
            o.insert("m_disjoint".into(), render_asserts(&sc::matches_disjoint_asserts(c1, c2)));
        }
        if let (Some(w1), Some(w2)) = (welltyped.get(&i), welltyped.get(&j)) {
            o.insert("old".into(), json!({
                "m_equivalent": old_result(block_on(solver.check_matches_equivalent(w1, w2, &symenv))),
                "m_implies": old_result(block_on(solver.check_matches_implies(w1, w2, &symenv))),
                "m_disjoint": old_result(block_on(solver.check_matches_disjoint(w1, w2, &symenv))),
            }));
        }
        ppairs_out.push(J::Object(o));
    }

    // ---- policy sets
    let mut cpsets: Vec<Option<sc::CompiledPolicySet>> = vec![];
    let mut wpsets: Vec<Option<sc::WellTypedPolicies>> = vec![];
    let mut psets_out = vec![];
    for ps in v.get("psets").and_then(|x| x.as_array()).unwrap_or(&vec![]) {
        let ids: Vec<String> = ps.as_array().ok_or("bad pset")?.iter().filter_map(|x| x.as_str().map(|s| s.to_string())).collect();
        let mut pset = PolicySet::new();
        for id in &ids {
            pset.add(pols.get(id).ok_or(format!("unknown policy {id}"))?.clone()).map_err(|e| format!("add {id}: {e}"))?;
        }
        let mut o = serde_json::Map::new();
        let (decision, reasons, errors) = concrete(&ids)?;
        o.insert("decision".into(), J::String(decision));
        o.insert("reasons".into(), json!(reasons));
        o.insert("errors".into(), J::Array(errors.iter().map(|(i, k)| json!([i, k])).collect()));
        match sc::CompiledPolicySet::compile_with_custom_symenv(&pset, &req_env, &schema, symenv.clone()) {
            Err(e) => {
                o.insert("compile".into(), J::String(err_class(&e)));
                cpsets.push(None);
            }
            Ok(cps) => {
                o.insert("compile".into(), J::String("ok".into()));
                o.insert("aa".into(), render_asserts(&sc::always_allows_asserts(&cps)));
                o.insert("ad".into(), render_asserts(&sc::always_denies_asserts(&cps)));
                cpsets.push(Some(cps));
            }
        }
        match sc::WellTypedPolicies::from_policies(&pset, &req_env, &schema) {
            Err(e) => {
                o.insert("welltyped".into(), J::String(err_class(&e)));
                wpsets.push(None);
            }
            Ok(wps) => {
                o.insert("welltyped".into(), J::String("ok".into()));
                o.insert("old".into(), json!({
                    "aa": old_result(block_on(solver.check_always_allows(&wps, &symenv))),
                    "ad": old_result(block_on(solver.check_always_denies(&wps, &symenv))),
                }));
                wpsets.push(Some(wps));
            }
        }
        psets_out.push(J::Object(o));
    }

    // ---- pairs of policy sets
    let mut pairs_out = vec![];
    for pr in v.get("pset_pairs").and_then(|x| x.as_array()).unwrap_or(&vec![]) {
        let i = pr.get(0).and_then(|x| x.as_u64()).ok_or("bad pair")? as usize;
        let j = pr.get(1).and_then(|x| x.as_u64()).ok_or("bad pair")? as usize;
        let mut o = serde_json::Map::new();
        if let (Some(Some(c1)), Some(Some(c2))) = (cpsets.get(i), cpsets.get(j)) {
            o.insert("implies".into(), render_asserts(&sc::implies_asserts(c1, c2)));
            o.insert("equivalent".into(), render_asserts(&sc::equivalent_asserts(c1, c2)));
            o.insert("disjoint".into(), render_asserts(&sc::disjoint_asserts(c1, c2)));
        }
        if let (Some(Some(w1)), Some(Some(w2))) = (wpsets.get(i), wpsets.get(j)) {
            o.insert("old".into(), json!({
                "implies": old_result(block_on(solver.check_implies(w1, w2, &symenv))),
                "equivalent": old_result(block_on(solver.check_equivalent(w1, w2, &symenv))),
                "disjoint": old_result(block_on(solver.check_disjoint(w1, w2, &symenv))),
            }));
        }
        pairs_out.push(J::Object(o));
    }

    Ok(json!({
        "request_valid": request_valid,
        "entities_valid": entities_valid,
        "symenv": "ok",
        "env_literal": env_literal,
        "policies": J::Object(pol_out),
        "policy_pairs": ppairs_out,
        "psets": psets_out,
        "pset_pairs": pairs_out,
    }))
}
