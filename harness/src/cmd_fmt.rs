//! C12 — formatter.  `format {text,width,indent}` calls policies_str_to_pretty;
//! `fmt_facts {text}` parses a policy-set text with the core parser and dumps every
//! policy/template structurally (id, annotations, effect, scope, condition AST) so that the
//! Python side can compare input and output WITHOUT the formatter's own soundness_check.
use crate::{cmd_typecheck, render};
use cedar_policy_core::ast;
use cedar_policy_formatter::{policies_str_to_pretty, Config};
use serde_json::{json, Value as J};

pub fn dispatch(cmd: &str, v: &J) -> Option<Result<J, String>> {
    match cmd {
        "format" => Some(format(v)),
        "fmt_facts" => Some(facts(v)),
        "fmt_tokens" => Some(tokens(v)),
        _ => None,
    }
}

fn format(v: &J) -> Result<J, String> {
    let text = crate::util::s(v, "text")?;
    let width = v.get("width").and_then(|x| x.as_u64()).ok_or("no width")? as usize;
    let indent = v.get("indent").and_then(|x| x.as_i64()).ok_or("no indent")? as isize;
    let cfg = Config { line_width: width, indent_width: indent };
    Ok(match policies_str_to_pretty(text, &cfg) {
        Ok(out) => json!({"ok": out}),
        Err(e) => {
            let msg = format!("{e:?}");
            let top = e.to_string();
            let class = if top.starts_with("cannot parse input policies") {
                "parse"
            } else if top.starts_with("cannot get token stream") {
                "lex"
            } else if top.starts_with("internal error") {
                "soundness"
            } else if top.starts_with("failed to produce doc") {
                "doc"
            } else {
                "other"
            };
            let short: String = msg.chars().take(600).collect();
            json!({"err": class, "msg": short})
        }
    })
}

fn eref(r: &ast::EntityReference) -> J {
    match r {
        ast::EntityReference::EUID(u) => json!({"uid": render::uid(u)}),
        ast::EntityReference::Slot(_) => json!("slot"),
    }
}

fn porc(c: &ast::PrincipalOrResourceConstraint) -> J {
    use ast::PrincipalOrResourceConstraint as C;
    match c {
        C::Any => json!(["any"]),
        C::In(r) => json!(["in", eref(r)]),
        C::Eq(r) => json!(["eq", eref(r)]),
        C::Is(t) => json!(["is", render::etype(t)]),
        C::IsIn(t, r) => json!(["isin", render::etype(t), eref(r)]),
    }
}

fn acons(c: &ast::ActionConstraint) -> J {
    match c {
        ast::ActionConstraint::Any => json!(["any"]),
        ast::ActionConstraint::In(us) => json!(["in", us.iter().map(|u| render::uid(u)).collect::<Vec<_>>()]),
        ast::ActionConstraint::Eq(u) => json!(["eq", render::uid(u)]),
        #[allow(unreachable_patterns)]
        _ => json!(["unsupported"]),
    }
}

/// strip the (null) annotations of the generic dumper: {"t":null,"n":x} -> x
fn strip(j: &J) -> J {
    match j {
        J::Object(m) if m.len() == 2 && m.contains_key("t") && m.contains_key("n") => strip(&m["n"]),
        J::Object(m) => J::Object(m.iter().map(|(k, x)| (k.clone(), strip(x))).collect()),
        J::Array(a) => J::Array(a.iter().map(strip).collect()),
        _ => j.clone(),
    }
}

fn numeric_suffix(id: &str) -> (u64, String) {
    let digits: String = id.chars().rev().take_while(|c| c.is_ascii_digit()).collect::<Vec<_>>().into_iter().rev().collect();
    (digits.parse::<u64>().unwrap_or(u64::MAX), id.to_string())
}

fn facts(v: &J) -> Result<J, String> {
    let text = crate::util::s(v, "text")?;
    let ps = match cedar_policy_core::parser::parse_policyset(text) {
        Ok(ps) => ps,
        Err(e) => {
            let short: String = e.to_string().chars().take(300).collect();
            return Ok(json!({"parse_error": short}));
        }
    };
    // every static policy is a template without slots: all_templates covers both kinds
    let mut ts: Vec<&ast::Template> = ps.all_templates().collect();
    ts.sort_by_key(|t| { let s: &str = t.id().as_ref(); numeric_suffix(s) });
    let n_links = ps.policies().filter(|p| !p.is_static()).count();
    let policies: Vec<J> = ts
        .iter()
        .map(|t| {
            let id: &str = t.id().as_ref();
            let anns: Vec<J> = t
                .annotations()
                .map(|(k, a)| json!([render::str_cp(k.as_ref()), render::str_cp(a.val.as_str())]))
                .collect();
            json!({
                "id": id,
                "annotations": anns,
                "effect": format!("{:?}", t.effect()),
                "principal": porc(t.principal_constraint().as_inner()),
                "action": acons(t.action_constraint()),
                "resource": porc(t.resource_constraint().as_inner()),
                "slots": t.slots().map(|s| s.id.to_string()).collect::<Vec<_>>(),
                "cond": t.non_scope_constraints().map(|e| strip(&cmd_typecheck::untyped_expr(e))),
            })
        })
        .collect();
    Ok(json!({"policies": policies, "links": n_links}))
}

/// the formatter's own token stream (logos lexer + comment attachment), flattened to the
/// sequence  leading comments, token, trailing comment  per token, then end-of-file comments
fn tokens(v: &J) -> Result<J, String> {
    use cedar_policy_formatter::token::Token as T;
    let text = crate::util::s(v, "text")?;
    let Some((toks, eof)) = cedar_policy_formatter::lexer::get_token_stream(text) else {
        return Ok(json!({"lex_error": true}));
    };
    let mut items: Vec<J> = Vec::new();
    for t in &toks {
        for c in t.comment.leading_comment() {
            items.push(json!(["comment", render::str_cp(c)]));
        }
        let kind = match &t.token {
            T::Identifier(_) | T::True | T::False | T::If | T::Permit | T::Forbid | T::When | T::Unless | T::In
            | T::Has | T::Like | T::Is | T::Then | T::Else | T::Principal | T::Action | T::Resource | T::Context => "word",
            T::Number(_) => "num",
            T::Str(_) => "str",
            T::PrincipalSlot | T::ResourceSlot => "slot",
            T::Whitespace | T::Comment => "skipped",
            _ => "sym",
        };
        items.push(json!(["tok", kind, render::str_cp(&t.token.to_string())]));
        if !t.comment.trailing_comment().is_empty() {
            items.push(json!(["trailing", render::str_cp(t.comment.trailing_comment())]));
        }
    }
    for c in eof {
        items.push(json!(["comment", render::str_cp(c)]));
    }
    Ok(json!({"items": items}))
}
