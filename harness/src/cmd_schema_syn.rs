//! C09 — the JSON and the Cedar schema syntaxes denote the same schema.
//!   schema_load      {syntax: "json"|"cedar", text}  -> {"ok": <canonical dump of the resolved ValidatorSchema>}
//!                                                     | {"error": <class>, "stage": "parse"|"schema", "msg": ..}
//!   schema_translate {from: "json"|"cedar", text}    -> {"ok": <text in the other syntax>}
//!                                                     | {"load_error": <class>, ..} | {"translate_error": <class>, ..}
//!   schema_verdicts  {a: {syntax,text}, b: {syntax,text}, policies: [text], requests: [..], entities: [..]}
//!                    -> {"a": <verdicts>, "b": <verdicts>, "equal": ValidatorSchema == ValidatorSchema}
//! The harness holds no expectations: it builds the objects through the public API
//! (SchemaFragment::{from_json_str, from_cedarschema_str, to_json_string, to_cedarschema},
//! Schema::from_schema_fragments, Validator, Request::new, Context/Entities::from_json_value) and renders.
use crate::{render, util};
use cedar_policy::{
    CedarSchemaError, Context, Entities, EntityUid, PolicySet, Request, Schema, SchemaError, SchemaFragment,
    ToCedarSchemaError, ValidationMode, Validator,
};
use cedar_policy_core::validator::types::{BoolType, EntityKind, OpenTag, Type};
use cedar_policy_core::validator::{ValidatorEntityTypeKind, ValidatorSchema};
use serde_json::{json, Value as J};

pub fn dispatch(cmd: &str, v: &J) -> Option<Result<J, String>> {
    match cmd {
        "schema_load" => Some(schema_load(v)),
        "schema_translate" => Some(schema_translate(v)),
        "schema_verdicts" => Some(schema_verdicts(v)),
        _ => None,
    }
}

/// the variant name of an error enum: Debug output up to the first non-identifier character
fn variant<T: std::fmt::Debug>(e: &T) -> String {
    let s = format!("{e:?}");
    s.chars().take_while(|c| c.is_alphanumeric() || *c == '_').collect()
}

fn schema_error_class(e: &SchemaError) -> String {
    variant(e)
}

enum LoadErr {
    Parse(String, String),
    Schema(String, String),
}

impl LoadErr {
    fn render(&self, key: &str) -> J {
        match self {
            LoadErr::Parse(c, m) => json!({key: c, "stage": "parse", "msg": m}),
            LoadErr::Schema(c, m) => json!({key: c, "stage": "schema", "msg": m}),
        }
    }
}

/// text -> SchemaFragment.  JSON goes through from_json_str (so that duplicate keys are seen by serde).
fn fragment(syntax: &str, text: &str) -> Result<Result<SchemaFragment, LoadErr>, String> {
    match syntax {
        "json" => Ok(SchemaFragment::from_json_str(text).map_err(|e| match &e {
            SchemaError::JsonDeserialization(_) => LoadErr::Parse("JsonDeserialization".into(), util::chain(&e)),
            _ => LoadErr::Schema(schema_error_class(&e), util::chain(&e)),
        })),
        "cedar" => Ok(match SchemaFragment::from_cedarschema_str(text) {
            Ok((f, _warnings)) => Ok(f),
            Err(CedarSchemaError::Parse(p)) => Err(LoadErr::Parse("CedarParse".into(), format!("{p:?}").chars().take(600).collect())),
            Err(CedarSchemaError::Schema(s)) => Err(LoadErr::Schema(schema_error_class(&s), util::chain(&s))),
            Err(e) => Err(LoadErr::Parse("Other".into(), util::chain(&e))),
        }),
        _ => Err(format!("bad syntax {syntax}")),
    }
}

fn load(syntax: &str, text: &str) -> Result<Result<Schema, LoadErr>, String> {
    Ok(match fragment(syntax, text)? {
        Err(e) => Err(e),
        Ok(f) => Schema::from_schema_fragments([f]).map_err(|e| LoadErr::Schema(schema_error_class(&e), util::chain(&e))),
    })
}

fn src(v: &J) -> Result<(&str, &str), String> {
    Ok((util::s(v, "syntax")?, util::s(v, "text")?))
}

// ------------------------------------------------------------------ canonical dump
fn ty(t: &Type) -> J {
    match t {
        Type::Never => json!("never"),
        Type::Bool(BoolType::AnyBool) => json!({"bool": "any"}),
        Type::Bool(BoolType::True) => json!({"bool": "true"}),
        Type::Bool(BoolType::False) => json!({"bool": "false"}),
        Type::Long => json!("long"),
        Type::String => json!("string"),
        Type::Set { element_type: None } => json!({"set": null}),
        Type::Set { element_type: Some(e) } => json!({"set": ty(e)}),
        Type::Entity(EntityKind::AnyEntity) => json!({"entity": "any"}),
        Type::Entity(EntityKind::Entity(lub)) => match lub.get_single_entity() {
            Some(n) => json!({"entity": [render::etype(n)]}),
            None => json!({"entity_lub_debug": format!("{lub:?}")}),
        },
        Type::Record { attrs, open_attributes } => {
            let mut a: Vec<(String, J)> = attrs
                .iter()
                .map(|(k, at)| (k.to_string(), json!([render::str_cp(k), ty(&at.attr_type), at.is_required])))
                .collect();
            a.sort_by(|x, y| x.0.cmp(&y.0));
            json!({"record": a.into_iter().map(|x| x.1).collect::<Vec<_>>(),
                   "open": matches!(open_attributes, OpenTag::OpenAttributes)})
        }
        Type::ExtensionType { name } => json!({"ext": render::name(name)}),
    }
}

fn dump(schema: &Schema) -> J {
    let vs: &ValidatorSchema = schema.as_ref();
    let mut ets: Vec<(String, J)> = vs
        .entity_types()
        .map(|et| {
            let mut attrs: Vec<(String, J)> = et
                .attributes()
                .iter()
                .map(|(k, at)| (k.to_string(), json!([render::str_cp(k), ty(&at.attr_type), at.is_required])))
                .collect();
            attrs.sort_by(|x, y| x.0.cmp(&y.0));
            let mut desc: Vec<(String, J)> = et.descendants.iter().map(|d| (d.to_string(), render::etype(d))).collect();
            desc.sort_by(|x, y| x.0.cmp(&y.0));
            let en = match &et.kind {
                ValidatorEntityTypeKind::Enum(ch) => J::Array(ch.iter().map(|e| render::str_cp(e.as_ref())).collect()),
                ValidatorEntityTypeKind::Standard(_) => J::Null,
            };
            (
                et.name().to_string(),
                json!({"name": render::etype(et.name()),
                       "attrs": attrs.into_iter().map(|x| x.1).collect::<Vec<_>>(),
                       "open": matches!(et.open_attributes(), OpenTag::OpenAttributes),
                       "tags": et.tag_type().map(ty),
                       "descendants": desc.into_iter().map(|x| x.1).collect::<Vec<_>>(),
                       "enum": en}),
            )
        })
        .collect();
    ets.sort_by(|x, y| x.0.cmp(&y.0));
    let mut acts: Vec<(String, J)> = vs
        .action_ids()
        .map(|a| {
            let mut ps: Vec<(String, J)> = a.applies_to_principals().map(|t| (t.to_string(), render::etype(t))).collect();
            ps.sort_by(|x, y| x.0.cmp(&y.0));
            let mut rs: Vec<(String, J)> = a.applies_to_resources().map(|t| (t.to_string(), render::etype(t))).collect();
            rs.sort_by(|x, y| x.0.cmp(&y.0));
            let mut ds: Vec<J> = a.descendants().map(render::uid).collect();
            ds.sort_by_key(|x| x.to_string());
            (
                a.name().to_string(),
                json!({"uid": render::uid(a.name()),
                       "principals": ps.into_iter().map(|x| x.1).collect::<Vec<_>>(),
                       "resources": rs.into_iter().map(|x| x.1).collect::<Vec<_>>(),
                       "context": ty(a.context()), "descendants": ds}),
            )
        })
        .collect();
    acts.sort_by(|x, y| x.0.cmp(&y.0));
    // the action entities the schema contributes (ancestors = action groups, transitively)
    let aes: J = match schema.action_entities() {
        Err(e) => json!({"action_entities_error": util::chain(&e)}),
        Ok(es) => {
            let mut v: Vec<(String, J)> = es
                .iter()
                .map(|e| {
                    let core: &cedar_policy_core::ast::Entity = e.as_ref();
                    let mut anc: Vec<J> = core.ancestors().map(render::uid).collect();
                    anc.sort_by_key(|x| x.to_string());
                    (
                        core.uid().to_string(),
                        json!({"uid": render::uid(core.uid()), "ancestors": anc,
                               "nattrs": core.attrs().count(), "ntags": core.tags().count()}),
                    )
                })
                .collect();
            v.sort_by(|x, y| x.0.cmp(&y.0));
            J::Array(v.into_iter().map(|x| x.1).collect())
        }
    };
    json!({
        "entity_types": ets.into_iter().map(|x| x.1).collect::<Vec<_>>(),
        "actions": acts.into_iter().map(|x| x.1).collect::<Vec<_>>(),
        "action_entities": aes,
    })
}

pub fn schema_load(v: &J) -> Result<J, String> {
    let (syntax, text) = src(v)?;
    Ok(match load(syntax, text)? {
        Ok(s) => json!({"ok": dump(&s)}),
        Err(e) => e.render("error"),
    })
}

pub fn schema_translate(v: &J) -> Result<J, String> {
    let from = util::s(v, "from")?;
    let text = util::s(v, "text")?;
    let frag = match fragment(from, text)? {
        Ok(f) => f,
        Err(e) => return Ok(e.render("load_error")),
    };
    Ok(match from {
        "json" => match frag.to_cedarschema() {
            Ok(t) => json!({"ok": t}),
            Err(e) => {
                let class = match &e {
                    ToCedarSchemaError::NameCollisions(_) => "NameCollisions",
                    ToCedarSchemaError::UnconvertibleEntityTypeShape(_) => "UnconvertibleEntityTypeShape",
                    #[allow(unreachable_patterns)]
                    _ => "Other",
                };
                json!({"translate_error": class, "msg": e.to_string()})
            }
        },
        _ => match frag.to_json_string() {
            Ok(t) => json!({"ok": t}),
            Err(e) => json!({"translate_error": schema_error_class(&e), "msg": util::chain(&e)}),
        },
    })
}

// ------------------------------------------------------------------ verdicts
fn api_uid(v: &J) -> Result<EntityUid, String> {
    Ok(EntityUid::from(util::uid(v)?))
}

fn verdicts(schema: &Schema, v: &J) -> Result<J, String> {
    let empty = vec![];
    // policies: each validated on its own, strict mode; verdict = pass/fail + sorted error variants
    let validator = Validator::new(schema.clone());
    let mut pol = vec![];
    for p in v.get("policies").and_then(|x| x.as_array()).unwrap_or(&empty) {
        let text = p.as_str().ok_or("policy must be text")?;
        let pset: PolicySet = match text.parse() {
            Ok(s) => s,
            Err(e) => {
                pol.push(json!({"parse_error": format!("{e}")}));
                continue;
            }
        };
        let r = validator.validate(&pset, ValidationMode::Strict);
        let mut errs: Vec<String> = r.validation_errors().map(|e| variant(e)).collect();
        errs.sort();
        let mut warns: Vec<String> = r.validation_warnings().map(|e| variant(e)).collect();
        warns.sort();
        pol.push(json!({"pass": r.validation_passed(), "errors": errs, "warnings": warns}));
    }
    // requests: Request::new with the schema (context built without schema) and schema-directed context parsing
    let mut reqs = vec![];
    for q in v.get("requests").and_then(|x| x.as_array()).unwrap_or(&empty) {
        let p = api_uid(q.get("principal").ok_or("no principal")?)?;
        let a = api_uid(q.get("action").ok_or("no action")?)?;
        let r = api_uid(q.get("resource").ok_or("no resource")?)?;
        let cj = q.get("context").ok_or("no context")?.clone();
        let c = Context::from_json_value(cj.clone(), None).map_err(|e| format!("raw context: {}", util::chain(&e)))?;
        let new = match Request::new(p, a.clone(), r, c, Some(schema)) {
            Ok(_) => "ok".to_string(),
            Err(e) => variant(&e),
        };
        let directed = match Context::from_json_value(cj, Some((schema, &a))) {
            Ok(_) => "ok".to_string(),
            Err(e) => variant(&e),
        };
        reqs.push(json!({"request_new": new, "context_from_json": directed}));
    }
    // entity sets: Entities::from_json_value with the schema
    let mut ents = vec![];
    for e in v.get("entities").and_then(|x| x.as_array()).unwrap_or(&empty) {
        ents.push(match Entities::from_json_value(e.clone(), Some(schema)) {
            Ok(es) => json!({"ok": es.iter().count()}),
            // (class only: with several faults in one set the reported one depends on hash-map order)
            Err(err) => json!({"error": variant(&err)}),
        });
    }
    Ok(json!({"policies": pol, "requests": reqs, "entities": ents}))
}

pub fn schema_verdicts(v: &J) -> Result<J, String> {
    let a = v.get("a").ok_or("no a")?;
    let b = v.get("b").ok_or("no b")?;
    let (sa, ta) = src(a)?;
    let (sb, tb) = src(b)?;
    let la = load(sa, ta)?;
    let lb = load(sb, tb)?;
    match (la, lb) {
        (Ok(x), Ok(y)) => {
            let equal = {
                let vx: &ValidatorSchema = x.as_ref();
                let vy: &ValidatorSchema = y.as_ref();
                vx == vy
            };
            Ok(json!({"a": verdicts(&x, v)?, "b": verdicts(&y, v)?, "equal": equal}))
        }
        (x, y) => Ok(json!({
            "a_error": x.err().map(|e| e.render("error")),
            "b_error": y.err().map(|e| e.render("error")),
        })),
    }
}
