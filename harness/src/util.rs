//! Construction of Cedar objects from the JSON command.
use cedar_policy_core::ast;
use cedar_policy_core::entities::{Entities, EntityJsonParser, NoEntitiesSchema, TCComputation};
use cedar_policy_core::extensions::Extensions;
use serde_json::Value as J;
use std::str::FromStr;

pub fn chain(e: &dyn std::error::Error) -> String {
    let mut out = e.to_string();
    let mut cur = e.source();
    while let Some(c) = cur {
        out.push_str(": ");
        out.push_str(&c.to_string());
        cur = c.source();
    }
    out
}

pub fn s<'a>(v: &'a J, k: &str) -> Result<&'a str, String> {
    v.get(k).and_then(|x| x.as_str()).ok_or_else(|| format!("missing string field {k}"))
}

pub fn uid(v: &J) -> Result<ast::EntityUID, String> {
    let ty = s(v, "type")?;
    let id = s(v, "id")?;
    let ty = ast::EntityType::from_str(ty).map_err(|e| format!("bad entity type {ty}: {e}"))?;
    Ok(ast::EntityUID::from_components(ty, ast::Eid::new(id), None))
}

pub fn entities(v: &J) -> Result<Entities, String> {
    let parser: EntityJsonParser<'_, '_, NoEntitiesSchema> =
        EntityJsonParser::new(None, Extensions::all_available(), TCComputation::ComputeNow);
    parser.from_json_value(v.clone()).map_err(|e| format!("entities: {}", chain(&e)))
}

pub fn context(v: &J) -> Result<ast::Context, String> {
    use cedar_policy_core::entities::json::{ContextJsonParser, NullContextSchema};
    let p = ContextJsonParser::new(None::<&NullContextSchema>, Extensions::all_available());
    p.from_json_value(v.clone()).map_err(|e| format!("context: {}", chain(&e)))
}

pub fn request(v: &J) -> Result<ast::Request, String> {
    let p = uid(v.get("principal").ok_or("no principal")?)?;
    let a = uid(v.get("action").ok_or("no action")?)?;
    let r = uid(v.get("resource").ok_or("no resource")?)?;
    let c = context(v.get("context").ok_or("no context")?)?;
    ast::Request::new::<ast::RequestSchemaAllPass>(
        (p, None),
        (a, None),
        (r, None),
        c,
        None,
        Extensions::all_available(),
    )
    .map_err(|e| format!("request: {e}"))
}

pub fn slots(v: Option<&J>) -> Result<ast::SlotEnv, String> {
    let mut env = ast::SlotEnv::new();
    if let Some(J::Object(m)) = v {
        for (k, u) in m {
            let id = match k.as_str() {
                "?principal" => ast::SlotId::principal(),
                "?resource" => ast::SlotId::resource(),
                _ => return Err(format!("bad slot {k}")),
            };
            env.insert(id, uid(u)?);
        }
    }
    Ok(env)
}
