//! C05 — policy text -> AST -> text.  Commands (no expectations here, only calls + dumps):
//!   c05_roundtrip {kind: expr|policy|set, text, worlds?: [{request, entities}]}
//!       parse `text`; dump the AST; print it (Display); parse the printout; dump again;
//!       optionally evaluate both versions on the given requests.
//!   c05_escape    {s}            str::escape_debug / char::escape_debug forms + unescape of the given raw text
//!   c05_escape_table {}          ranges of scalar values that `escape_debug` renders as \u{..}
//! ASTs are dumped as S-expression text in the syntax of vp/cedar.py::expr_sx / template_sx.
use crate::{render, util};
use cedar_policy_core::ast::{self, BinaryOp, ExprKind, Literal, UnaryOp};
use cedar_policy_core::evaluator::Evaluator;
use cedar_policy_core::extensions::Extensions;
use cedar_policy_core::parser;
use serde_json::{json, Value as J};
use std::str::FromStr;

pub fn dispatch(cmd: &str, v: &J) -> Option<Result<J, String>> {
    match cmd {
        "c05_roundtrip" => Some(roundtrip(v)),
        "c05_escape" => Some(escape(v)),
        "c05_escape_table" => Some(escape_table()),
        _ => None,
    }
}

// ------------------------------------------------------------------ dumps
fn sx_str(out: &mut String, s: &str) {
    out.push('[');
    let mut first = true;
    for c in s.chars() {
        if !first {
            out.push(' ');
        }
        first = false;
        out.push_str(&(c as u32).to_string());
    }
    out.push(']');
}

fn sx_name(out: &mut String, n: &ast::Name) {
    out.push('(');
    for i in n.as_ref().namespace_components() {
        sx_str(out, i.as_ref());
        out.push(' ');
    }
    sx_str(out, n.as_ref().basename().as_ref());
    out.push(')');
}

fn sx_uid(out: &mut String, u: &ast::EntityUID) {
    out.push_str("(uid ");
    sx_name(out, u.entity_type().name());
    out.push(' ');
    sx_str(out, u.eid().as_ref());
    out.push(')');
}

pub fn sx_expr(out: &mut String, e: &ast::Expr) {
    match e.expr_kind() {
        ExprKind::Lit(Literal::Bool(b)) => out.push_str(if *b { "(lit (bool true))" } else { "(lit (bool false))" }),
        ExprKind::Lit(Literal::Long(i)) => {
            out.push_str("(lit (long ");
            out.push_str(&i.to_string());
            out.push_str("))");
        }
        ExprKind::Lit(Literal::String(s)) => {
            out.push_str("(lit (string ");
            sx_str(out, s);
            out.push_str("))");
        }
        ExprKind::Lit(Literal::EntityUID(u)) => {
            out.push_str("(lit (entity ");
            sx_uid(out, u);
            out.push_str("))");
        }
        ExprKind::Var(v) => {
            out.push_str("(var ");
            out.push_str(&v.to_string());
            out.push(')');
        }
        ExprKind::Slot(s) => {
            out.push_str("(slot ");
            out.push_str(if s.is_principal() { "principal" } else { "resource" });
            out.push(')');
        }
        ExprKind::Unknown(u) => {
            out.push_str("(unknown ");
            sx_str(out, &u.name);
            out.push_str(if u.type_annotation.is_none() { " none)" } else { " typed)" });
        }
        ExprKind::If { test_expr, then_expr, else_expr } => {
            out.push_str("(if ");
            sx_expr(out, test_expr);
            out.push(' ');
            sx_expr(out, then_expr);
            out.push(' ');
            sx_expr(out, else_expr);
            out.push(')');
        }
        ExprKind::And { left, right } => {
            out.push_str("(and ");
            sx_expr(out, left);
            out.push(' ');
            sx_expr(out, right);
            out.push(')');
        }
        ExprKind::Or { left, right } => {
            out.push_str("(or ");
            sx_expr(out, left);
            out.push(' ');
            sx_expr(out, right);
            out.push(')');
        }
        ExprKind::UnaryApp { op, arg } => {
            out.push_str("(unop ");
            out.push_str(match op {
                UnaryOp::Not => "not",
                UnaryOp::Neg => "neg",
                UnaryOp::IsEmpty => "isEmpty",
            });
            out.push(' ');
            sx_expr(out, arg);
            out.push(')');
        }
        ExprKind::BinaryApp { op, arg1, arg2 } => {
            out.push_str("(binop ");
            out.push_str(match op {
                BinaryOp::Eq => "eq",
                BinaryOp::Less => "less",
                BinaryOp::LessEq => "lesseq",
                BinaryOp::Add => "add",
                BinaryOp::Sub => "sub",
                BinaryOp::Mul => "mul",
                BinaryOp::In => "in",
                BinaryOp::Contains => "contains",
                BinaryOp::ContainsAll => "containsAll",
                BinaryOp::ContainsAny => "containsAny",
                BinaryOp::GetTag => "getTag",
                BinaryOp::HasTag => "hasTag",
            });
            out.push(' ');
            sx_expr(out, arg1);
            out.push(' ');
            sx_expr(out, arg2);
            out.push(')');
        }
        ExprKind::ExtensionFunctionApp { fn_name, args } => {
            out.push_str("(ext ");
            sx_name(out, fn_name);
            out.push_str(" (");
            let mut first = true;
            for a in args.iter() {
                if !first {
                    out.push(' ');
                }
                first = false;
                sx_expr(out, a);
            }
            out.push_str("))");
        }
        ExprKind::GetAttr { expr, attr } => {
            out.push_str("(getattr ");
            sx_expr(out, expr);
            out.push(' ');
            sx_str(out, attr);
            out.push(')');
        }
        ExprKind::HasAttr { expr, attr } => {
            out.push_str("(hasattr ");
            sx_expr(out, expr);
            out.push(' ');
            sx_str(out, attr);
            out.push(')');
        }
        ExprKind::Like { expr, pattern } => {
            out.push_str("(like ");
            sx_expr(out, expr);
            out.push_str(" (");
            let mut first = true;
            for pe in pattern.iter() {
                if !first {
                    out.push(' ');
                }
                first = false;
                match pe {
                    ast::PatternElem::Char(c) => out.push_str(&(*c as u32).to_string()),
                    ast::PatternElem::Wildcard => out.push_str("star"),
                }
            }
            out.push_str("))");
        }
        ExprKind::Is { expr, entity_type } => {
            out.push_str("(is ");
            sx_expr(out, expr);
            out.push(' ');
            sx_name(out, entity_type.name());
            out.push(')');
        }
        ExprKind::Set(items) => {
            out.push_str("(set (");
            let mut first = true;
            for a in items.iter() {
                if !first {
                    out.push(' ');
                }
                first = false;
                sx_expr(out, a);
            }
            out.push_str("))");
        }
        ExprKind::Record(m) => {
            out.push_str("(record (");
            let mut first = true;
            for (k, a) in m.iter() {
                if !first {
                    out.push(' ');
                }
                first = false;
                out.push('(');
                sx_str(out, k);
                out.push(' ');
                sx_expr(out, a);
                out.push(')');
            }
            out.push_str("))");
        }
        #[allow(unreachable_patterns)]
        _ => out.push_str("(error_node)"),
    }
}

fn sx_eref(out: &mut String, r: &ast::EntityReference) {
    match r {
        ast::EntityReference::EUID(u) => sx_uid(out, u),
        ast::EntityReference::Slot(_) => out.push_str("slot"),
    }
}

fn sx_prc(out: &mut String, c: &ast::PrincipalOrResourceConstraint) {
    use ast::PrincipalOrResourceConstraint as C;
    match c {
        C::Any => out.push_str("any"),
        C::Eq(r) => {
            out.push_str("(eq ");
            sx_eref(out, r);
            out.push(')');
        }
        C::In(r) => {
            out.push_str("(in ");
            sx_eref(out, r);
            out.push(')');
        }
        C::Is(t) => {
            out.push_str("(is ");
            sx_name(out, t.name());
            out.push(')');
        }
        C::IsIn(t, r) => {
            out.push_str("(isin ");
            sx_name(out, t.name());
            out.push(' ');
            sx_eref(out, r);
            out.push(')');
        }
    }
}

fn sx_ac(out: &mut String, c: &ast::ActionConstraint) {
    match c {
        ast::ActionConstraint::Any => out.push_str("any"),
        ast::ActionConstraint::Eq(u) => {
            out.push_str("(eq ");
            sx_uid(out, u);
            out.push(')');
        }
        ast::ActionConstraint::In(us) => {
            out.push_str("(in (");
            let mut first = true;
            for u in us {
                if !first {
                    out.push(' ');
                }
                first = false;
                sx_uid(out, u);
            }
            out.push_str("))");
        }
        #[allow(unreachable_patterns)]
        _ => out.push_str("error_constraint"),
    }
}

/// (template [id] ((k v) ...) effect pc ac rc none|(some body) (slots...))   -- id printed only when with_id
fn sx_template(t: &ast::Template, with_id: bool) -> String {
    let mut out = String::new();
    out.push_str("(template ");
    if with_id {
        let id: &str = t.id().as_ref();
        sx_str(&mut out, id);
    } else {
        out.push_str("[]");
    }
    out.push_str(" (");
    let mut first = true;
    for (k, a) in t.annotations() {
        if !first {
            out.push(' ');
        }
        first = false;
        out.push('(');
        sx_str(&mut out, k.as_ref());
        out.push(' ');
        sx_str(&mut out, a.as_ref());
        out.push(')');
    }
    out.push_str(") ");
    out.push_str(match t.effect() {
        ast::Effect::Permit => "permit",
        ast::Effect::Forbid => "forbid",
    });
    out.push(' ');
    sx_prc(&mut out, t.principal_constraint().as_inner());
    out.push(' ');
    sx_ac(&mut out, t.action_constraint());
    out.push(' ');
    sx_prc(&mut out, t.resource_constraint().as_inner());
    out.push(' ');
    match t.non_scope_constraints() {
        None => out.push_str("none"),
        Some(e) => {
            out.push_str("(some ");
            sx_expr(&mut out, e);
            out.push(')');
        }
    }
    // the slot list the template records (order of appearance)
    out.push_str(" (");
    let mut first = true;
    for s in t.slots() {
        if !first {
            out.push(' ');
        }
        first = false;
        out.push_str(if s.id.is_principal() { "principal" } else { "resource" });
    }
    out.push_str("))");
    out
}

fn err_class(e: &parser::err::ParseErrors) -> J {
    // class of the first error: "syntax" (text -> CST) or the ToASTErrorKind variant name
    let first = e.iter().next();
    let class = match first {
        Some(parser::err::ParseError::ToCST(_)) => "ToCST".to_string(),
        Some(parser::err::ParseError::ToAST(t)) => {
            let d = format!("{:?}", t.kind());
            d.split(|c: char| !(c.is_alphanumeric() || c == '_')).next().unwrap_or("").to_string()
        }
        None => "none".to_string(),
    };
    json!({"class": class, "n": e.len(), "msg": format!("{e}")})
}

// ------------------------------------------------------------------ objects
enum Obj {
    Expr(ast::Expr),
    Policy(ast::Template),
    Set(Vec<ast::Template>),
}

fn policy_index(t: &ast::Template) -> u64 {
    let id: &str = t.id().as_ref();
    id.trim_start_matches("policy").parse::<u64>().unwrap_or(u64::MAX)
}

fn parse_obj(kind: &str, text: &str) -> Result<Result<Obj, parser::err::ParseErrors>, String> {
    Ok(match kind {
        "expr" => ast::Expr::from_str(text).map(Obj::Expr),
        "policy" => parser::parse_policy_or_template(None, text).map(Obj::Policy),
        "set" => parser::parse_policyset(text).map(|ps| {
            let mut ts: Vec<ast::Template> = ps.all_templates().cloned().collect();
            ts.sort_by_key(policy_index);
            Obj::Set(ts)
        }),
        _ => return Err(format!("bad kind {kind}")),
    })
}

fn dump_obj(o: &Obj) -> J {
    match o {
        Obj::Expr(e) => {
            let mut s = String::new();
            sx_expr(&mut s, e);
            json!(s)
        }
        Obj::Policy(t) => json!(sx_template(t, false)),
        Obj::Set(ts) => J::Array(ts.iter().map(|t| json!(sx_template(t, false))).collect()),
    }
}

fn print_obj(o: &Obj) -> String {
    match o {
        Obj::Expr(e) => e.to_string(),
        Obj::Policy(t) => t.to_string(),
        Obj::Set(ts) => ts.iter().map(|t| t.to_string()).collect::<Vec<_>>().join("\n\n"),
    }
}

fn eq_shape(a: &Obj, b: &Obj) -> bool {
    match (a, b) {
        (Obj::Expr(x), Obj::Expr(y)) => x.eq_shape(y),
        (Obj::Policy(x), Obj::Policy(y)) => x.condition().eq_shape(&y.condition()),
        (Obj::Set(x), Obj::Set(y)) => {
            // same multiset of conditions (order-insensitive greedy matching)
            if x.len() != y.len() {
                return false;
            }
            let mut used = vec![false; y.len()];
            for t in x {
                let c = t.condition();
                let mut found = false;
                for (i, u) in y.iter().enumerate() {
                    if !used[i] && c.eq_shape(&u.condition()) && t.effect() == u.effect() {
                        used[i] = true;
                        found = true;
                        break;
                    }
                }
                if !found {
                    return false;
                }
            }
            true
        }
        _ => false,
    }
}

fn conditions(o: &Obj) -> Vec<ast::Expr> {
    match o {
        Obj::Expr(e) => vec![e.clone()],
        Obj::Policy(t) => vec![t.condition()],
        Obj::Set(ts) => ts.iter().map(|t| t.condition()).collect(),
    }
}

fn eval_all(o: &Obj, worlds: &[(ast::Request, cedar_policy_core::entities::Entities, ast::SlotEnv)]) -> J {
    let mut out = vec![];
    for c in conditions(o) {
        let mut row = vec![];
        for (q, es, slots) in worlds {
            let ev = Evaluator::new(q.clone(), es, Extensions::all_available());
            row.push(match ev.interpret(&c, slots) {
                Ok(val) => json!({"ok": render::value(&val)}),
                Err(err) => json!({"err": render::eval_err(&err)}),
            });
        }
        out.push(J::Array(row));
    }
    J::Array(out)
}

fn roundtrip(v: &J) -> Result<J, String> {
    let kind = util::s(v, "kind")?;
    let text = util::s(v, "text")?;
    let mut worlds = vec![];
    if let Some(J::Array(ws)) = v.get("worlds") {
        for w in ws {
            let q = util::request(w.get("request").ok_or("no request")?)?;
            let es = util::entities(w.get("entities").ok_or("no entities")?)?;
            let slots = util::slots(w.get("slots"))?;
            worlds.push((q, es, slots));
        }
    }
    let o1 = match parse_obj(kind, text)? {
        Err(e) => return Ok(json!({"accepted": false, "error": err_class(&e)})),
        Ok(o) => o,
    };
    let printed = print_obj(&o1);
    let mut ans = json!({"accepted": true, "ast": dump_obj(&o1), "printed": printed});
    match parse_obj(kind, &printed)? {
        Err(e) => {
            ans["reparse"] = json!({"error": err_class(&e)});
        }
        Ok(o2) => {
            ans["reparse"] = json!({"ast": dump_obj(&o2), "printed": print_obj(&o2)});
            ans["eq_shape"] = json!(eq_shape(&o1, &o2));
            if !worlds.is_empty() {
                ans["eval1"] = eval_all(&o1, &worlds);
                ans["eval2"] = eval_all(&o2, &worlds);
            }
        }
    }
    Ok(ans)
}

// ------------------------------------------------------------------ escapes
fn cps(s: &str) -> J {
    J::Array(s.chars().map(|c| json!(c as u32)).collect())
}

/// {s: [code points]} -> escape_debug of the string, the per-char (pattern) form, and what the
/// unescape functions make of `s` taken as the raw inside of a literal
fn escape(v: &J) -> Result<J, String> {
    let arr = v.get("s").and_then(|x| x.as_array()).ok_or("no s")?;
    let mut s = String::new();
    for c in arr {
        let n = c.as_u64().ok_or("bad code point")? as u32;
        s.push(char::from_u32(n).ok_or("not a scalar value")?);
    }
    let esc: String = s.escape_debug().collect();
    let pat: String = {
        let p: ast::Pattern = s.chars().map(ast::PatternElem::Char).collect();
        p.to_string()
    };
    let eid: String = ast::Eid::new(s.as_str()).escaped().to_string();
    let un = match parser::unescape::to_unescaped_string(&s) {
        Ok(u) => json!({"ok": cps(&u)}),
        Err(e) => json!({"err": e.len()}),
    };
    // to_pattern is crate-private: reach it through `"" like "<s>"` when s lexes as one string literal
    let like_txt = format!("\"\" like \"{}\"", s);
    let pat_un = match ast::Expr::from_str(&like_txt) {
        Ok(e) => match e.expr_kind() {
            ExprKind::Like { pattern, .. } => json!({"ok": pattern.iter().map(|pe| match pe {
                ast::PatternElem::Char(c) => json!(*c as u32),
                ast::PatternElem::Wildcard => json!("star"),
            }).collect::<Vec<_>>()}),
            _ => json!({"other": e.to_string()}),
        },
        Err(e) => json!({"err": err_class(&e)}),
    };
    Ok(json!({"escape_debug": cps(&esc), "pattern_display": cps(&pat), "eid_escaped": cps(&eid),
              "unescape": un, "like_pattern": pat_un}))
}

/// ranges [lo, hi] (inclusive) of scalar values c such that
///   np: "a<c>".escape_debug() renders c as \u{..}   (not printable; the rule for non-initial chars)
///   ge: c.escape_debug() is \u{..} but c is printable (Grapheme_Extend; first char of a str and every char of a pattern)
fn escape_table() -> Result<J, String> {
    let mut np: Vec<(u32, u32)> = vec![];
    let mut ge: Vec<(u32, u32)> = vec![];
    fn push(v: &mut Vec<(u32, u32)>, c: u32) {
        if let Some(last) = v.last_mut() {
            if last.1 + 1 == c {
                last.1 = c;
                return;
            }
        }
        v.push((c, c));
    }
    for n in 0..0x110000u32 {
        if let Some(c) = char::from_u32(n) {
            let mut t = String::from("a");
            t.push(c);
            let cont: String = t.escape_debug().collect();
            let is_np = cont.starts_with("a\\u{");
            let alone: String = c.escape_debug().collect();
            let is_u = alone.starts_with("\\u{");
            if is_np {
                push(&mut np, n);
            } else if is_u {
                push(&mut ge, n);
            }
        }
    }
    Ok(json!({"np": np.iter().map(|(a, b)| json!([a, b])).collect::<Vec<_>>(),
              "ge": ge.iter().map(|(a, b)| json!([a, b])).collect::<Vec<_>>()}))
}
