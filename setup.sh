#!/bin/sh
# Build the whole framework from files on disk only (offline): all Coq proofs (full .vo build),
# the extracted model driver, and the Rust harness against /repo's current working tree.
set -e
cd "$(dirname "$0")"
export CARGO_NET_OFFLINE=true
python3 - <<'PY'
import sys, os
sys.path.insert(0, os.path.join(os.getcwd(), "vp"))
import framework as fw
print(fw.build_coq()[-400:])
print(fw.build_model_driver())
print(fw.build_harness())
import clibuild
print(clibuild.build_cli())   # C19: the cedar CLI from the current source, harness/target-cli
PY
