#!/bin/sh
# tools/mk_worktree.sh <name>   — a worktree of /verif at /wt/<name> on branch <name>-r4, pre-seeded with the
# build products of /verif (Coq .vo files, OCaml driver, cargo target) so that it rebuilds incrementally.
set -e
n="$1"
mkdir -p /wt
git -C /verif worktree add -q -b "$n-r4" "/wt/$n" HEAD
rsync -a --exclude .git /verif/coq/ "/wt/$n/coq/"
rsync -a /verif/build/ "/wt/$n/build/"
mkdir -p "/wt/$n/harness"
cp -a /verif/harness/target "/wt/$n/harness/target"
cp -a /verif/harness/Cargo.lock "/wt/$n/harness/Cargo.lock"
echo "/wt/$n ready"
