#!/usr/bin/env python3
"""Regenerate coq/props/pins.json: sha256 of the (comment-stripped, whitespace-normalised) statement of every
   theorem of every coq/props/Cxx_*.v.  Every check compares the statements of the theorems it claims with this
   file (framework.check_pins), so a statement cannot change without a visible, committed change of pins.json."""
import glob
import hashlib
import json
import os
import sys

HERE = os.path.dirname(os.path.dirname(os.path.abspath(__file__)))
sys.path.insert(0, os.path.join(HERE, "vp"))
import framework as fw  # noqa: E402

pins = {}
for f in sorted(glob.glob(os.path.join(fw.COQ, "props", "C*.v"))):
    name = os.path.splitext(os.path.basename(f))[0]
    pins[name] = {t: hashlib.sha256(s.encode()).hexdigest() for t, s in sorted(fw.theorem_statements(name).items())}
json.dump(pins, open(fw.PINS, "w"), indent=1, sort_keys=True)
print({k: len(v) for k, v in pins.items()})
