#!/usr/bin/env python3
"""Run the registered quick checks against every seeded change under /verif/seeded/<name>/.
   Each change is applied to a SCRATCH worktree of /repo (never to /repo itself while other work is
   running); the harness is built against that tree through VERIF_REPO.  The outcome (caught or
   missed, VIOLATION lines, wall time) is written to seeded/<name>/result.json.

   usage: tools/run_seeded.py [name ...]        (default: all)"""
import json
import os
import subprocess
import sys
import time

HERE = os.path.dirname(os.path.dirname(os.path.abspath(__file__)))
SCRATCH = os.environ.get("SEEDED_SCRATCH", "/tmp/seeded-repo")


def sh(cmd, **kw):
    return subprocess.run(cmd, shell=True, stdout=subprocess.PIPE, stderr=subprocess.STDOUT, text=True, **kw)


def main():
    names = sys.argv[1:] or sorted(os.listdir(os.path.join(HERE, "seeded")))
    if not os.path.isdir(SCRATCH):
        print(sh("git -C /repo worktree add --detach %s HEAD" % SCRATCH).stdout)
    for name in names:
        d = os.path.join(HERE, "seeded", name)
        patch = os.path.join(d, "patch.diff")
        if not os.path.exists(patch):
            continue
        meta = json.load(open(os.path.join(d, "meta.json")))
        props = meta.get("checks") or [meta["property"]]
        sh("git -C %s checkout -q --detach $(git -C /repo rev-parse HEAD) && git -C %s checkout -- . && git -C %s clean -fdq -e target" % (SCRATCH, SCRATCH, SCRATCH))
        r = sh("git -C %s apply %s" % (SCRATCH, patch))
        if r.returncode != 0:
            print(name, "PATCH DOES NOT APPLY", r.stdout)
            continue
        result = {"applied_to": "scratch worktree %s of /repo HEAD" % SCRATCH, "checks": {}}
        for p in props:
            t0 = time.time()
            r = sh("VERIF_REPO=%s ./check %s --tier quick" % (SCRATCH, p), cwd=HERE)
            viol = [l for l in r.stdout.splitlines() if l.startswith("VIOLATION")]
            result["checks"][p] = {"exit": r.returncode, "violations": len(viol), "first": viol[:3],
                                   "wall_s": round(time.time() - t0, 1),
                                   "tail": r.stdout[-600:] if r.returncode not in (0, 1) else ""}
            print(name, p, "exit", r.returncode, "violations", len(viol), flush=True)
        result["caught"] = any(c["exit"] == 1 and c["violations"] > 0 for c in result["checks"].values())
        json.dump(result, open(os.path.join(d, "result.json"), "w"), indent=1)
        sh("git -C %s checkout -- . && git -C %s clean -fdq -e target" % (SCRATCH, SCRATCH))


if __name__ == "__main__":
    main()
