#!/usr/bin/env python3
"""Regenerate /verif/MANIFEST.json from the MANIFEST dict of every vp/props/cNN.py module.
   A property without a module (or whose module sets CLAIMED = False) goes to not_applicable
   with the reason given in vp/not_applicable.json."""
import importlib
import json
import os
import sys

HERE = os.path.dirname(os.path.dirname(os.path.abspath(__file__)))
sys.path.insert(0, os.path.join(HERE, "vp"))

LEVEL_NOTE = ("Trusted: Coq 8.16.1 kernel; no axioms (Print Assumptions of every property theorem: closed under the "
              "global context); extraction with ExtrOcamlBasic only + hand-written driver.ml (cross-checked against "
              "vm_compute on a sample every run); the Rust harness renderers and Python generators/comparators. The "
              "theorems are about the model; their transfer to /repo is as strong as the generated correspondence cases. ")

props = [json.loads(l) for l in open(os.path.join(HERE, "properties.jsonl"))]
na_reasons = json.load(open(os.path.join(HERE, "vp", "not_applicable.json")))
checks, claimed, na = [], [], []
for p in props:
    pid = p["id"]
    try:
        mod = importlib.import_module("props." + pid.lower())
    except ModuleNotFoundError:
        mod = None
    if mod is None or not getattr(mod, "CLAIMED", True):
        na.append({"property_id": pid, "reason": na_reasons.get(pid, "not claimed yet: model and theorems for this property are not built (see DESIGN.md 7.2)")})
        continue
    m = mod.MANIFEST
    claimed.append(pid)
    checks.append({
        "property_id": pid,
        "quick_cmd": "./check %s --tier quick" % pid,
        "thorough_cmd": "./check %s --tier thorough" % pid,
        "evidence_file": "/verif/evidence/%s.json" % pid,
        "replay_cmd_template": "./check %s --replay {path}" % pid,
        "engine": "coq-model+correspondence",
        "level_claimed": {"category": m.get("category", "proof"), "text": m["text"], "design_ref": m.get("design_ref", "DESIGN.md section 6 " + pid)},
        "level_note": LEVEL_NOTE + m.get("note", ""),
        "technique": m.get("technique", "proof (Coq) + correspondence by differential execution"),
    })
manifest = {
    "version": 1,
    "setup_cmd": "./setup.sh",
    "hooks": {"guard": "cedar_verif",
              "enable": "RUSTFLAGS=--cfg cedar_verif (set by vp/framework.py for every harness build); no source hooks are needed so far",
              "baseline_off_cmd": "cd /repo && (cargo nextest run --workspace --no-fail-fast --tool-config-file pb:/w/lib/nextest.toml --profile pb --test-threads 8 --offline || cargo test --workspace --no-fail-fast --offline)",
              "source_commits": [], "add_only": True},
    "engines": [{"name": "coq-model+correspondence", "path": "/verif/coq, /verif/harness, /verif/vp",
                 "serves_properties": claimed,
                 "kind_free_text": "hand-written executable Gallina model with machine-checked theorems (Coq 8.16.1), extracted to OCaml and run against a Rust harness built from /repo's working tree on generated inputs"}],
    "checks": checks,
    "not_applicable": na,
    "notes": "See DESIGN.md. Exit 2 from ./check means the machinery itself failed (never a property verdict).",
}
json.dump(manifest, open(os.path.join(HERE, "MANIFEST.json"), "w"), indent=1)
print("claimed:", claimed)
