#!/usr/bin/env python3
"""Independent confirmation of candidate seeded changes (and of the repository's own suite at HEAD).

   usage: tools/confirm_seeded.py baseline                 run the pinned suite on a scratch worktree of /repo HEAD
          tools/confirm_seeded.py <candidate dir> ...       for each dir with patch.diff + demo.rs:
              apply patch.diff to the scratch worktree, run the pinned suite (every test of BASELINE.stable_pass
              must still pass), put the demo where its header says, run it (must FAIL), revert the patch,
              run the demo again (must PASS); write <dir>/confirm.json

   Everything happens in /tmp/confirm (scratch worktree) with CARGO_TARGET_DIR=/tmp/confirm-target; /repo itself is
   never touched."""
import json
import os
import re
import subprocess
import sys
import xml.etree.ElementTree as ET

WT = "/tmp/confirm"
TARGET = "/tmp/confirm-target"
ENV = dict(os.environ, CARGO_NET_OFFLINE="true", CARGO_TARGET_DIR=TARGET)
BASE = json.load(open("/root/.vp/BASELINE.json"))
STABLE = set(BASE["stable_pass"])


def sh(cmd, cwd=WT, timeout=7200):
    p = subprocess.run(cmd, shell=True, cwd=cwd, env=ENV, stdout=subprocess.PIPE, stderr=subprocess.STDOUT, text=True,
                       timeout=timeout)
    return p.returncode, p.stdout


def ensure_wt():
    if not os.path.isdir(WT):
        print(sh("git -C /repo worktree add --detach %s HEAD" % WT, cwd="/")[1])
    head = subprocess.check_output("git -C /repo rev-parse HEAD", shell=True, text=True).strip()
    sh("git checkout -q --detach %s && git checkout -- . && git clean -fdq" % head)
    return head


def suite():
    junit = os.path.join(TARGET, "nextest", "pb", "junit.xml")
    if os.path.exists(junit):
        os.remove(junit)
    rc, out = sh("cargo nextest run --workspace --no-fail-fast --tool-config-file pb:/w/lib/nextest.toml --profile pb "
                 "--test-threads 8 --offline 2>&1 | tail -n 40")
    passed, failed = set(), set()
    if os.path.exists(junit):
        for tc in ET.parse(junit).getroot().iter("testcase"):
            tid = (tc.get("classname") or "") + "::" + (tc.get("name") or "")
            if tc.find("failure") is not None or tc.find("error") is not None or tc.find("flakyFailure") is not None:
                failed.add(tid)
            elif tc.find("skipped") is None:
                passed.add(tid)
    passed -= failed
    missing = sorted(STABLE - passed)
    return {"passed": len(passed), "failed": len(failed), "stable_missing": missing[:40], "n_stable_missing": len(missing),
            "tail": out[-1500:] if not os.path.exists(junit) else ""}


def demo_place(demo_path):
    txt = open(demo_path).read()
    m = re.search(r"Place this file at:\s*(\S+)", txt)
    c = re.search(r"(cargo test[^\n]*)", txt)
    return (m.group(1) if m else None), (c.group(1).strip() if c else None)


def main():
    args = sys.argv[1:]
    head = ensure_wt()
    if args and args[0] == "baseline":
        r = suite()
        r["head"] = head
        json.dump(r, open("/tmp/confirm-baseline.json", "w"), indent=1)
        print(json.dumps({k: r[k] for k in ("head", "passed", "failed", "n_stable_missing", "stable_missing")}, indent=1))
        return
    for d in args:
        d = d.rstrip("/")
        res = {"head": head}
        ensure_wt()
        rc, out = sh("git apply %s" % os.path.join(d, "patch.diff"))
        res["applies"] = rc == 0
        if rc != 0:
            res["apply_output"] = out[-800:]
        else:
            res["suite_with_patch"] = suite()
            place, cmd = demo_place(os.path.join(d, "demo.rs"))
            res["demo_place"], res["demo_cmd"] = place, cmd
            if place and cmd:
                os.makedirs(os.path.dirname(os.path.join(WT, place)), exist_ok=True)
                sh("cp %s %s" % (os.path.join(d, "demo.rs"), os.path.join(WT, place)))
                rc1, o1 = sh(cmd + " 2>&1 | tail -n 25")
                res["demo_with_patch_fails"] = ("test result: FAILED" in o1) or ("panicked" in o1 and "test result: ok" not in o1)
                res["demo_with_patch_tail"] = o1[-1200:]
                sh("git apply -R %s" % os.path.join(d, "patch.diff"))
                rc2, o2 = sh(cmd + " 2>&1 | tail -n 12")
                res["demo_without_patch_passes"] = "test result: ok" in o2 and "FAILED" not in o2
                res["demo_without_patch_tail"] = o2[-600:]
        res["confirmed"] = bool(res.get("applies") and res.get("suite_with_patch", {}).get("n_stable_missing", 1) == 0
                                and res.get("demo_with_patch_fails") and res.get("demo_without_patch_passes"))
        json.dump(res, open(os.path.join(d, "confirm.json"), "w"), indent=1)
        print(d, "CONFIRMED" if res["confirmed"] else "NOT CONFIRMED",
              {k: res.get(k) for k in ("applies", "demo_with_patch_fails", "demo_without_patch_passes")},
              res.get("suite_with_patch", {}).get("n_stable_missing"), flush=True)
    ensure_wt()


if __name__ == "__main__":
    main()
