#!/usr/bin/env python3
"""Independent confirmation of candidate seeded changes (and of the repository's own suite at HEAD).

   usage: tools/confirm_seeded.py baseline            run the pinned suite on a scratch worktree of /repo HEAD
          tools/confirm_seeded.py demos <dir> ...     phase A: all demos placed on unchanged HEAD must PASS;
                                                      phase B: each patch applied ALONE -> its demo must FAIL
          tools/confirm_seeded.py suite <dir> ...     phase C: all patches applied together (conflicting ones are
                                                      applied in a second round) -> every test of BASELINE.stable_pass
                                                      must still pass
   Results are merged into <dir>/confirm.json.  Everything happens in /tmp/confirm (scratch worktree of /repo HEAD) with
   CARGO_TARGET_DIR=/tmp/confirm-target; /repo itself is never touched."""
import json
import os
import re
import subprocess
import sys
import xml.etree.ElementTree as ET

WT = "/tmp/confirm"
TARGET = "/tmp/confirm-target"
ENV = dict(os.environ, CARGO_NET_OFFLINE="true", CARGO_TARGET_DIR=TARGET)
BASE = json.load(open("/root/.vp/BASELINE.json"))
STABLE = set(BASE["stable_pass"])
FEATURES = "partial-eval,tpe,entity-manifest,protobufs,permissive-validate,partial-validate"


def sh(cmd, cwd=WT, timeout=10800):
    p = subprocess.run(cmd, shell=True, cwd=cwd, env=ENV, stdout=subprocess.PIPE, stderr=subprocess.STDOUT, text=True,
                       timeout=timeout)
    return p.returncode, p.stdout


def ensure_wt():
    if not os.path.isdir(WT):
        print(sh("git -C /repo worktree add --detach %s HEAD" % WT, cwd="/")[1])
    head = subprocess.check_output("git -C /repo rev-parse HEAD", shell=True, text=True).strip()
    sh("git checkout -q --detach %s && git checkout -- . && git clean -fdq" % head)
    return head


def suite():
    # nextest writes the junit report under the WORKSPACE's target directory, not under CARGO_TARGET_DIR
    junit = os.path.join(WT, "target", "nextest", "pb", "junit.xml")
    for j in (junit, os.path.join(TARGET, "nextest", "pb", "junit.xml")):
        if os.path.exists(j):
            os.remove(j)
    rc, out = sh("cargo nextest run --workspace --no-fail-fast --tool-config-file pb:/w/lib/nextest.toml --profile pb "
                 "--test-threads 8 --offline 2>&1 | tail -n 40")
    passed, failed = set(), set()
    if os.path.exists(junit):
        for tc in ET.parse(junit).getroot().iter("testcase"):
            tid = (tc.get("classname") or "") + "::" + (tc.get("name") or "")
            if tc.find("failure") is not None or tc.find("error") is not None or tc.find("flakyFailure") is not None:
                failed.add(tid)
            elif tc.find("skipped") is None:
                passed.add(tid)
    passed -= failed
    missing = sorted(STABLE - passed)
    return {"passed": len(passed), "failed": len(failed), "stable_missing": missing[:40], "n_stable_missing": len(missing),
            "tail": out[-1500:] if not os.path.exists(junit) else ""}


def demo_info(d):
    txt = open(os.path.join(d, "demo.rs")).read()
    m = re.search(r"Place this file at:\s*(\S+)", txt)
    place = m.group(1) if m else None
    name = os.path.splitext(os.path.basename(place))[0] if place else None
    pkg = place.split("/")[0] if place else None
    return place, pkg, name


def demo_cmd(pkg, name):
    feat = (" --features " + FEATURES) if pkg == "cedar-policy" else ""
    return "cargo test --offline -p %s%s --test %s 2>&1 | tail -n 30" % (pkg, feat, name)


def update(d, **kw):
    p = os.path.join(d, "confirm.json")
    r = json.load(open(p)) if os.path.exists(p) else {}
    r.update(kw)
    r["confirmed"] = bool(r.get("applies") and r.get("demo_without_patch_passes") and r.get("demo_with_patch_fails")
                          and r.get("suite_with_patch_stable_missing") == 0)
    json.dump(r, open(p, "w"), indent=1)
    return r


def place_demo(d):
    place, pkg, name = demo_info(d)
    os.makedirs(os.path.dirname(os.path.join(WT, place)), exist_ok=True)
    sh("cp %s %s" % (os.path.join(d, "demo.rs"), os.path.join(WT, place)))
    return pkg, name


def main():
    mode, dirs = sys.argv[1], [d.rstrip("/") for d in sys.argv[2:]]
    head = ensure_wt()
    if mode == "baseline":
        r = suite()
        r["head"] = head
        json.dump(r, open("/tmp/confirm-baseline.json", "w"), indent=1)
        print(json.dumps({k: r[k] for k in ("head", "passed", "failed", "n_stable_missing", "stable_missing")}, indent=1))
        return
    if mode == "demos":
        for d in dirs:                       # phase A: unchanged HEAD
            pkg, name = place_demo(d)
            rc, o = sh(demo_cmd(pkg, name))
            ok = "test result: ok" in o and "FAILED" not in o
            update(d, head=head, demo_without_patch_passes=ok, demo_without_patch_tail=o[-500:])
            print(d, "HEAD demo", "passes" if ok else "DOES NOT PASS", flush=True)
        for d in dirs:                       # phase B: each patch alone
            ensure_wt()
            rc, out = sh("git apply %s" % os.path.join(d, "patch.diff"))
            if rc != 0:
                update(d, applies=False, apply_output=out[-600:])
                print(d, "PATCH DOES NOT APPLY", flush=True)
                continue
            pkg, name = place_demo(d)
            rc, o = sh(demo_cmd(pkg, name))
            fails = ("test result: FAILED" in o) or ("panicked" in o and "test result: ok" not in o)
            compiled = "error: could not compile" not in o
            update(d, applies=True, demo_with_patch_fails=bool(fails and compiled), demo_with_patch_tail=o[-900:])
            print(d, "patched demo", "fails (as required)" if fails and compiled else "DOES NOT FAIL / does not compile", flush=True)
        ensure_wt()
        return
    if mode == "suite":
        remaining = list(dirs)
        while remaining:
            ensure_wt()
            batch, rest = [], []
            for d in remaining:
                rc, _ = sh("git apply %s" % os.path.join(d, "patch.diff"))
                (batch if rc == 0 else rest).append(d)
            if not batch:
                for d in rest:
                    update(d, suite_note="patch does not apply")
                break
            r = suite()
            for d in batch:
                update(d, suite_with_patch_stable_missing=r["n_stable_missing"], suite_batch=[os.path.basename(x) for x in batch],
                       suite_passed=r["passed"], suite_failed=r["failed"], suite_missing_names=r["stable_missing"][:10],
                       suite_tail=r.get("tail", "")[-800:])
            print("suite with", [os.path.basename(x) for x in batch], "->", r["passed"], "passed,", r["n_stable_missing"],
                  "stable tests missing", r["stable_missing"][:5], r.get("tail", "")[-600:], flush=True)
            remaining = rest
        ensure_wt()


if __name__ == "__main__":
    main()
