(* ExtParse.v — C07: the faithful layer for the four extension types.
   Every string PARSER (decimal / ip / datetime / duration) and every operation is a total
   Gallina function that follows the Rust control flow of
     cedar-policy-core/src/extensions/{decimal,ipaddr,datetime}.rs
   (regexes hand-coded as recognisers, `i64::from_str` / `u64::from_str` / `u8::from_str`
   semantics, checked arithmetic as explicit range tests, std::net's address parser, chrono's
   date/time validity), plus the argument-count wrappers of ast/extension.rs, the function
   table of extensions.rs and the `<` `<=` `==` cases of evaluator.rs::binary_relation that
   concern extension values.  Values are those of Value.v (`ext`): decimal as an integer in
   10^-4 units, datetime / duration in milliseconds, ip as (family, address, prefix).
   Parsers return `option` (None = the extension-function error); definitions only. *)
From Coq Require Import String.
From Cedar Require Export Ext Codec.
Open Scope Z_scope.

(* ---------- strings ---------- *)
Fixpoint span (p : N -> bool) (s : str) : str * str :=
  match s with
  | c :: s' => if p c then let '(a, b) := span p s' in (c :: a, b) else ([], s)
  | [] => ([], [])
  end.

(* `str::len()` is a BYTE count (UTF-8) *)
Definition utf8_len (c : N) : Z :=
  if (c <? 128)%N then 1 else if (c <? 2048)%N then 2 else if (c <? 65536)%N then 3 else 4.
Fixpoint byte_len (s : str) : Z :=
  match s with [] => 0 | c :: s' => utf8_len c + byte_len s' end.

Definition expect (c : N) (s : str) : option str :=
  match s with x :: r => if N.eqb x c then Some r else None | [] => None end.

Fixpoint strip_prefix (p s : str) : option str :=
  match p, s with
  | [], _ => Some s
  | a :: p', b :: s' => if N.eqb a b then strip_prefix p' s' else None
  | _ :: _, [] => None
  end.

Definition starts_with_minus (s : str) : bool :=
  match s with 45%N :: _ => true | _ => false end.

Definition obind {A B} (o : option A) (f : A -> option B) : option B :=
  match o with Some a => f a | None => None end.
Notation "'let?' x := o 'in' k" := (obind o (fun x => k))
  (at level 200, x pattern, o at level 100, k at level 200).

(* exactly n leading ASCII digits ([0-9]{n}) *)
Fixpoint take_n_digits (n : nat) (acc : Z) (s : str) : option (Z * str) :=
  match n with
  | O => Some (acc, s)
  | S k => match s with
           | c :: r => if is_ascii_digit c then take_n_digits k (acc * 10 + digit_val c) r else None
           | [] => None
           end
  end.

(* ====================================================================== decimal *)
(* Unicode general category Nd (what `\d` matches in the regex crate), Unicode 14 table.
   The decimal parser's result does not depend on this table beyond "it contains 0-9 and
   not '.'" (proved: ExtParseProofs.decimal_parse_nd_irrelevant). *)
Definition nd_table : list (N * N) :=
  [
   (48,57); (1632,1641); (1776,1785); (1984,1993); (2406,2415); (2534,2543); (2662,2671);
   (2790,2799); (2918,2927); (3046,3055); (3174,3183); (3302,3311); (3430,3439); (3558,3567);
   (3664,3673); (3792,3801); (3872,3881); (4160,4169); (4240,4249); (6112,6121); (6160,6169);
   (6470,6479); (6608,6617); (6784,6793); (6800,6809); (6992,7001); (7088,7097); (7232,7241);
   (7248,7257); (42528,42537); (43216,43225); (43264,43273); (43472,43481); (43504,43513);
   (43600,43609); (44016,44025); (65296,65305); (66720,66729); (68912,68921); (69734,69743);
   (69872,69881); (69942,69951); (70096,70105); (70384,70393); (70736,70745); (70864,70873);
   (71248,71257); (71360,71369); (71472,71481); (71904,71913); (72016,72025); (72784,72793);
   (73040,73049); (73120,73129); (92768,92777); (92864,92873); (93008,93017);
   (120782,120831); (123200,123209); (123632,123641); (125264,125273); (130032,130041)
  ]%N.
Definition is_nd (c : N) : bool :=
  existsb (fun r => N.leb (fst r) c && N.leb c (snd r)) nd_table.

(* DECIMAL_REGEX  ^(-?\d+)\.(\d+)$   -> the two capture groups *)
Definition decimal_regex (nd : N -> bool) (s : str) : option (str * str) :=
  let '(neg, r) := match s with 45%N :: r => (true, r) | _ => (false, s) end in
  let '(ds, r1) := span nd r in
  match ds, r1 with
  | _ :: _, 46%N :: r2 =>
      let '(fs, r3) := span nd r2 in
      match fs, r3 with
      | _ :: _, [] => Some (if neg then 45%N :: ds else ds, fs)
      | _, _ => None
      end
  | _, _ => None
  end.

(* Decimal::from_str *)
Definition decimal_parse_with (nd : N -> bool) (s : str) : option Z :=
  match decimal_regex nd s with
  | None => None                                            (* FailedParse *)
  | Some (l_str, r_str) =>
      let? l := parse_i64 l_str in                          (* Overflow *)
      let? l := checked_mul_pow l 4 in
      let len := byte_len r_str in
      if 4 <? len then None                                 (* TooManyDigits *)
      else
        let? r := parse_i64 r_str in
        let? r := checked_mul_pow r (Z.to_nat (4 - len)) in
        let v := if starts_with_minus l_str then l - r else l + r in
        if in_i64 v then Some v else None
  end.

Definition decimal_parse (s : str) : option Z := decimal_parse_with is_nd s.

(* ====================================================================== duration *)
Definition u64_max : Z := 18446744073709551615.

(* (([0-9]+)u)  at the front of s *)
Definition take_group (u : str) (s : str) : option (str * str) :=
  let '(ds, r) := span is_ascii_digit s in
  match ds with
  | [] => None
  | _ => match strip_prefix u r with Some r' => Some (ds, r') | None => None end
  end.

(* (g1)?(g2)?...$ with the regex crate's leftmost-first preference: take a group when the
   rest can still match, otherwise skip it *)
Fixpoint match_groups (us : list str) (s : str) : option (list (option str)) :=
  match us with
  | [] => match s with [] => Some [] | _ => None end
  | u :: us' =>
      let skip := match match_groups us' s with Some caps => Some (None :: caps) | None => None end in
      match take_group u s with
      | Some (ds, r) =>
          match match_groups us' r with
          | Some caps => Some (Some ds :: caps)
          | None => skip
          end
      | None => skip
      end
  end.

Definition duration_units : list str := [[100]; [104]; [109]; [115]; [109; 115]]%N.

(* DURATION_PATTERN ^-?(([0-9]+)d)?(([0-9]+)h)?(([0-9]+)m)?(([0-9]+)s)?(([0-9]+)ms)?$ *)
Definition duration_regex (s : str) : option (list (option str)) :=
  match_groups duration_units (match s with 45%N :: r => r | _ => s end).

(* captures.get(idx).map_or(Some(0), |m| m.as_str().parse::<u64>().ok()) *)
Definition get_number (c : option str) : option Z :=
  match c with
  | None => Some 0
  | Some ds => let v := digits_val ds in if v <=? u64_max then Some v else None
  end.

Definition dur_checked_op (neg : bool) (x y mul : Z) : option Z :=
  if i64_max <? y then None                    (* y.try_into::<i64>() *)
  else
    let p := y * mul in
    if negb (in_i64 p) then None               (* checked_mul *)
    else
      let r := if neg then x - p else x + p in
      if in_i64 r then Some r else None.       (* checked_sub / checked_add *)

Definition duration_parse (s : str) : option Z :=
  match s with
  | [] => None
  | [45%N] => None
  | _ =>
      match duration_regex s with
      | Some [cd; ch; cm; cs; cms] =>
          let? d := get_number cd in
          let? h := get_number ch in
          let? m := get_number cm in
          let? sec := get_number cs in
          let? ms := get_number cms in
          let neg := starts_with_minus s in
          let? ms0 := (let v := if neg then - ms else ms in if in_i64 v then Some v else None) in
          let? a := dur_checked_op neg ms0 sec 1000 in
          let? a := dur_checked_op neg a m 60000 in
          let? a := dur_checked_op neg a h 3600000 in
          dur_checked_op neg a d 86400000
      | _ => None
      end
  end.

(* ====================================================================== datetime *)
Definition is_leap (y : Z) : bool :=
  (y mod 4 =? 0) && (negb (y mod 100 =? 0) || (y mod 400 =? 0)).

Definition days_in_month (y m : Z) : Z :=
  if (m =? 2) then (if is_leap y then 29 else 28)
  else if (m =? 4) || (m =? 6) || (m =? 9) || (m =? 11) then 30 else 31.

(* chrono::NaiveDate::from_ymd_opt for years 0..9999 (all inside chrono's range) *)
Definition valid_ymd (y m d : Z) : bool :=
  (1 <=? m) && (m <=? 12) && (1 <=? d) && (d <=? days_in_month y m).

(* days from 0000-01-01 to y-01-01 in the proleptic Gregorian calendar, y >= 0 *)
Definition days_before_year (y : Z) : Z :=
  365 * y + (y + 3) / 4 - (y + 99) / 100 + (y + 399) / 400.

Definition days_before_month (y m : Z) : Z :=
  (if 1 <? m then 31 else 0) + (if 2 <? m then (if is_leap y then 29 else 28) else 0) +
  (if 3 <? m then 31 else 0) + (if 4 <? m then 30 else 0) + (if 5 <? m then 31 else 0) +
  (if 6 <? m then 30 else 0) + (if 7 <? m then 31 else 0) + (if 8 <? m then 31 else 0) +
  (if 9 <? m then 30 else 0) + (if 10 <? m then 31 else 0) + (if 11 <? m then 30 else 0).

(* days since 1970-01-01 *)
Definition days_from_civil (y m d : Z) : Z :=
  days_before_year y + days_before_month y m + (d - 1) - 719528.

(* DATE_PATTERN ^([0-9]{4})-([0-9]{2})-([0-9]{2})   (a prefix match) *)
Definition date_pattern (s : str) : option (Z * Z * Z * str) :=
  let? (y, r) := take_n_digits 4 0 s in
  let? r := expect 45 r in
  let? (m, r) := take_n_digits 2 0 r in
  let? r := expect 45 r in
  let? (d, r) := take_n_digits 2 0 r in
  Some (y, m, d, r).

(* HMS_PATTERN ^T([0-9]{2}):([0-9]{2}):([0-9]{2})   (a prefix match) *)
Definition hms_pattern (s : str) : option (Z * Z * Z * str) :=
  let? r := expect 84 s in
  let? (h, r) := take_n_digits 2 0 r in
  let? r := expect 58 r in
  let? (m, r) := take_n_digits 2 0 r in
  let? r := expect 58 r in
  let? (sec, r) := take_n_digits 2 0 r in
  Some (h, m, sec, r).

(* MS_AND_OFFSET_PATTERN ^(\.([0-9]{3}))?(Z|((\+|-)([0-9]{2})([0-9]{2})))$ *)
Definition ms_offset_pattern (s : str) : option (option Z * option (bool * Z * Z)) :=
  let '(ms, r) :=
    match s with
    | 46%N :: r' => match take_n_digits 3 0 r' with
                    | Some (v, r'') => (Some v, r'')
                    | None => (None, s)
                    end
    | _ => (None, s)
    end in
  match r with
  | [90%N] => Some (ms, None)
  | sg :: r1 =>
      if N.eqb sg 43 || N.eqb sg 45 then
        let? (hh, r2) := take_n_digits 2 0 r1 in
        let? (mm, r3) := take_n_digits 2 0 r2 in
        match r3 with [] => Some (ms, Some (N.eqb sg 43, hh, mm)) | _ => None end
      else None
  | [] => None
  end.

(* chrono::NaiveTime::from_hms_milli_opt *)
Definition valid_hms_milli (h m s ms : Z) : bool :=
  (h <? 24) && (m <? 60) && (s <? 60) && ((ms <? 1000) || ((s =? 59) && (ms <? 2000))).

(* parse_datetime followed by DateTime::from(NaiveDateTime): milliseconds since the epoch *)
Definition datetime_parse (s : str) : option Z :=
  match date_pattern s with
  | None => None                                              (* InvalidDatePattern *)
  | Some (y, mo, d, r) =>
      let date := if valid_ymd y mo d then Some (days_from_civil y mo d) else None in
      match r with
      | [] => let? dd := date in Some (dd * 86400000)         (* a complete match *)
      | _ =>
          let? (h, mi, sec, r2) := hms_pattern r in           (* InvalidHMSPattern *)
          let? (ms, off) := ms_offset_pattern r2 in           (* InvalidMSOffsetPattern *)
          let ms := match ms with Some v => v | None => 0 end in
          let? dd := date in                                  (* InvalidDate *)
          if valid_hms_milli h mi sec ms then
            let local := (dd * 86400 + h * 3600 + mi * 60 + sec) * 1000 + ms in
            match off with
            | None => Some local
            | Some (positive, hh, mm) =>
                if (hh <? 24) && (mm <? 60) then
                  let osec := hh * 3600 + mm * 60 in
                  let osec := if positive then osec else - osec in
                  Some (local - osec * 1000)
                else None                                     (* InvalidOffset *)
            end
          else None                                           (* InvalidHMS *)
      end
  end.

Definition day_ms : Z := 86400000.

(* DateTime::offset / duration_since (checked_add / checked_sub) *)
Definition dt_offset (epoch dur : Z) : option Z :=
  let r := epoch + dur in if in_i64 r then Some r else None.
Definition dt_duration_since (a b : Z) : option Z :=
  let r := a - b in if in_i64 r then Some r else None.
(* DateTime::to_date: epoch.checked_sub(epoch.checked_rem_euclid(DAY)?) *)
Definition dt_to_date (epoch : Z) : option Z :=
  let r := epoch - epoch mod day_ms in if in_i64 r then Some r else None.
(* DateTime::to_time, as coded with the truncating `%` *)
Definition dt_to_time (epoch : Z) : Z :=
  if epoch <? 0 then
    let rem := Z.rem epoch day_ms in
    if rem =? 0 then rem else rem + day_ms
  else Z.rem epoch day_ms.

(* Duration::to_* : i64 `/` truncates toward zero *)
Definition dur_to_seconds (ms : Z) : Z := Z.quot ms 1000.
Definition dur_to_minutes (ms : Z) : Z := Z.quot (dur_to_seconds ms) 60.
Definition dur_to_hours (ms : Z) : Z := Z.quot (dur_to_minutes ms) 60.
Definition dur_to_days (ms : Z) : Z := Z.quot (dur_to_hours ms) 24.

(* ====================================================================== ipaddr *)
Definition is_hex_digit (c : N) : bool :=
  (is_ascii_digit c || (N.leb 97 c && N.leb c 102) || (N.leb 65 c && N.leb c 70))%N.
Definition hex_val (c : N) : N :=
  (if is_ascii_digit c then c - 48 else if N.leb 97 c then c - 87 else c - 55)%N.
Definition digits_N (radix : N) (dv : N -> N) (s : str) : N :=
  fold_left (fun acc c => acc * radix + dv c)%N s 0%N.

(* Parser::read_number(radix, Some(max_digits), allow_zero_prefix) for a target type with
   maximum `maxv`: the maximal run of digits; None when empty, longer than max_digits, a
   leading zero that is not allowed, or a value that does not fit *)
Definition read_number (isd : N -> bool) (radix : N) (dv : N -> N) (max_digits : nat)
           (allow_zero_prefix : bool) (maxv : N) (s : str) : option (N * str) :=
  let '(ds, r) := span isd s in
  if Nat.ltb max_digits (length ds) then None
  else
    let v := digits_N radix dv ds in
    match ds with
    | [] => None
    | c :: _ =>
        if negb allow_zero_prefix && N.eqb c 48 && Nat.ltb 1 (length ds) then None
        else if (maxv <? v)%N then None else Some (v, r)
    end.

Definition read_dec_u8 : str -> option (N * str) :=
  read_number is_ascii_digit 10 (fun c => c - 48)%N 3 false 255.
Definition read_hex_u16 : str -> option (N * str) :=
  read_number is_hex_digit 16 hex_val 4 true 65535.

(* Parser::read_ipv4_addr: four octets separated by '.' *)
Definition read_ipv4 (s : str) : option (N * str) :=
  let? (a, r) := read_dec_u8 s in
  let? r := expect 46 r in
  let? (b, r) := read_dec_u8 r in
  let? r := expect 46 r in
  let? (c, r) := read_dec_u8 r in
  let? r := expect 46 r in
  let? (d, r) := read_dec_u8 r in
  Some (((a * 256 + b) * 256 + c) * 256 + d, r)%N.

(* read_groups(p, groups[..limit]): colon-separated 16-bit groups with an optional trailing
   embedded IPv4 address; `left` = limit - i.  Returns the groups read, the rest, and whether
   an embedded IPv4 address ended the chunk. *)
Fixpoint read_groups (left : nat) (first : bool) (s : str) : list N * str * bool :=
  match left with
  | O => ([], s, false)
  | S k =>
      let after_sep := if first then Some s else expect 58 s in
      let v4 := match k with
                | O => None                                  (* i < limit - 1 fails *)
                | S _ => let? r := after_sep in read_ipv4 r
                end in
      match v4 with
      | Some (a, r) => ([N.shiftr a 16; N.land a 65535], r, true)
      | None =>
          match (let? r := after_sep in read_hex_u16 r) with
          | None => ([], s, false)
          | Some (g, r) => let '(gs, r', v4) := read_groups k false r in (g :: gs, r', v4)
          end
      end
  end.

Definition groups_val (gs : list N) : N := fold_left (fun acc g => acc * 65536 + g)%N gs 0%N.

(* Parser::read_ipv6_addr *)
Definition read_ipv6 (s : str) : option (N * str) :=
  let '(head, r, head_v4) := read_groups 8 true s in
  if Nat.eqb (length head) 8 then Some (groups_val head, r)
  else if head_v4 then None
  else
    let? r := expect 58 r in
    let? r := expect 58 r in
    let limit := (8 - (length head + 1))%nat in
    let '(tail, r, _) := read_groups limit true r in
    let zeros := repeat 0%N (8 - length head - length tail) in
    Some (groups_val (head ++ zeros ++ tail), r).

(* IpAddr::from_str: read_ip_addr, then the whole input must have been consumed.
   Result (is_v6, address). *)
Definition std_ip_from_str (s : str) : option (bool * N) :=
  match read_ipv4 s with
  | Some (a, r) => match r with [] => Some (false, a) | _ => None end
  | None =>
      match read_ipv6 s with
      | Some (a, []) => Some (true, a)
      | _ => None
      end
  end.

Fixpoint find_char (c : N) (s : str) : option str :=      (* the text after the first c *)
  match s with
  | [] => None
  | x :: r => if N.eqb x c then Some r else find_char c r
  end.

Definition contains_at_least_two (s : str) (c : N) : bool :=
  match find_char c s with
  | Some r => match find_char c r with Some _ => true | None => false end
  | None => false
  end.

(* parse_prefix(s, max, max_len) *)
Definition parse_prefix (s : str) (max : N) (max_len : Z) : option N :=
  if max_len <? byte_len s then None
  else if negb (all_ascii_digits s) then None
  else if (match s with 48%N :: _ :: _ => true | _ => false end) then None   (* leading zero(s) *)
  else match s with
       | [] => None                                          (* u8::from_str("") *)
       | _ => let v := digits_N 10 (fun c => c - 48)%N s in
              if (255 <? v)%N then None                      (* u8::from_str range *)
              else if (max <? v)%N then None else Some v
       end.

(* <IPAddr as FromStr>::from_str *)
Definition ip_parse (s : str) : option ipaddr :=
  if 43 <? byte_len s then None
  else if contains_at_least_two s 58 && contains_at_least_two s 46 then None
  else
    match split_at_char 47%N s with
    | Some (addr_str, prefix_str) =>
        let? (v6, a) := std_ip_from_str addr_str in
        let? p := (if v6 then parse_prefix prefix_str 128 3 else parse_prefix prefix_str 32 2) in
        Some (mkIp v6 a p)
    | None =>
        let? (v6, a) := std_ip_from_str s in
        Some (mkIp v6 a (if v6 then 128 else 32)%N)
    end.

Definition ip_width (v6 : bool) : N := if v6 then 128%N else 32%N.
Definition ip_max (v6 : bool) : N := (2 ^ ip_width v6 - 1)%N.

(* uN::MAX.checked_shl(width - prefix).unwrap_or(0)  — the shift is truncated to the width *)
Definition netmask (v6 : bool) (prefix : N) : N :=
  let sh := (ip_width v6 - prefix)%N in
  if (ip_width v6 <=? sh)%N then 0%N else N.land (N.shiftl (ip_max v6) sh) (ip_max v6).
(* uN::MAX.checked_shr(prefix).unwrap_or(0) *)
Definition hostmask (v6 : bool) (prefix : N) : N :=
  if (ip_width v6 <=? prefix)%N then 0%N else N.shiftr (ip_max v6) prefix.

Definition ip_is_in_range (a b : ipaddr) : bool :=
  if Bool.eqb (ip_v6 a) (ip_v6 b) then
    let v6 := ip_v6 a in
    let a_net := N.land (ip_addr a) (netmask v6 (ip_prefix a)) in
    let b_net := N.land (ip_addr b) (netmask v6 (ip_prefix b)) in
    let a_bc := N.lor (ip_addr a) (hostmask v6 (ip_prefix a)) in
    let b_bc := N.lor (ip_addr b) (hostmask v6 (ip_prefix b)) in
    (b_net <=? a_net)%N && (a_bc <=? b_bc)%N
  else false.

(* std: Ipv4Addr::is_loopback = first octet 127; Ipv6Addr::is_loopback = ::1 *)
Definition ip_is_loopback (a : ipaddr) : bool :=
  if ip_v6 a then N.eqb (ip_addr a) 1 && (128 <=? ip_prefix a)%N
  else N.eqb (N.shiftr (ip_addr a) 24) 127 && (8 <=? ip_prefix a)%N.
(* std: Ipv4Addr::is_multicast = first octet 224..=239; Ipv6Addr::is_multicast = first byte ff *)
Definition ip_is_multicast (a : ipaddr) : bool :=
  if ip_v6 a then N.eqb (N.shiftr (ip_addr a) 120) 255 && (8 <=? ip_prefix a)%N
  else (let o := N.shiftr (ip_addr a) 24 in (224 <=? o)%N && (o <=? 239)%N) && (4 <=? ip_prefix a)%N.

(* ====================================================================== function table *)
Definition as_ip (v : value) : res ipaddr :=
  match v with VExt (EIp i) => Ok i | _ => Err ErrType end.
Definition as_datetime (v : value) : res Z :=
  match v with VExt (EDatetime z) => Ok z | _ => Err ErrType end.
Definition as_duration (v : value) : res Z :=
  match v with VExt (EDuration z) => Ok z | _ => Err ErrType end.

Definition ext_or {A} (o : option A) : res A :=
  match o with Some a => Ok a | None => Err ErrExt end.

Definition from_str {A} (parse : str -> option A) (mk : A -> ext) (v : value) : res value :=
  do s <- as_string v; do x <- ext_or (parse s); Ok (VExt (mk x)).

Definition ip_pred (f : ipaddr -> bool) (v : value) : res value :=
  do i <- as_ip v; Ok (VBool (f i)).
Definition dur_method (f : Z -> Z) (v : value) : res value :=
  do d <- as_duration v; Ok (VLong (f d)).

Inductive xfn :=
| XDecimal | XLessThan | XLessThanOrEqual | XGreaterThan | XGreaterThanOrEqual
| XIp | XIsIpv4 | XIsIpv6 | XIsLoopback | XIsMulticast | XIsInRange
| XDatetime | XDuration | XOffset | XDurationSince | XToDate | XToTime
| XToMilliseconds | XToSeconds | XToMinutes | XToHours | XToDays.

Definition xfn_name (f : xfn) : str :=
  s2str (match f with
         | XDecimal => "decimal" | XLessThan => "lessThan" | XLessThanOrEqual => "lessThanOrEqual"
         | XGreaterThan => "greaterThan" | XGreaterThanOrEqual => "greaterThanOrEqual"
         | XIp => "ip" | XIsIpv4 => "isIpv4" | XIsIpv6 => "isIpv6" | XIsLoopback => "isLoopback"
         | XIsMulticast => "isMulticast" | XIsInRange => "isInRange"
         | XDatetime => "datetime" | XDuration => "duration" | XOffset => "offset"
         | XDurationSince => "durationSince" | XToDate => "toDate" | XToTime => "toTime"
         | XToMilliseconds => "toMilliseconds" | XToSeconds => "toSeconds"
         | XToMinutes => "toMinutes" | XToHours => "toHours" | XToDays => "toDays"
         end)%string.

Definition all_xfns : list xfn :=
  [XDecimal; XLessThan; XLessThanOrEqual; XGreaterThan; XGreaterThanOrEqual;
   XIp; XIsIpv4; XIsIpv6; XIsLoopback; XIsMulticast; XIsInRange;
   XDatetime; XDuration; XOffset; XDurationSince; XToDate; XToTime;
   XToMilliseconds; XToSeconds; XToMinutes; XToHours; XToDays].

Definition lookup_xfn (n : str) : option xfn :=
  find (fun f => str_eqb (xfn_name f) n) all_xfns.

Definition apply_xfn (f : xfn) (args : list value) : res value :=
  match f with
  | XDecimal => unary (from_str decimal_parse EDecimal) args
  | XLessThan => binary (decimal_cmp Z.ltb) args
  | XLessThanOrEqual => binary (decimal_cmp Z.leb) args
  | XGreaterThan => binary (decimal_cmp Z.gtb) args
  | XGreaterThanOrEqual => binary (decimal_cmp Z.geb) args
  | XIp => unary (from_str ip_parse EIp) args
  | XIsIpv4 => unary (ip_pred (fun i => negb (ip_v6 i))) args
  | XIsIpv6 => unary (ip_pred ip_v6) args
  | XIsLoopback => unary (ip_pred ip_is_loopback) args
  | XIsMulticast => unary (ip_pred ip_is_multicast) args
  | XIsInRange =>     (* `variadic` without the variadic-is-in-range feature: exactly two *)
      binary (fun a b => do x <- as_ip a; do y <- as_ip b; Ok (VBool (ip_is_in_range x y))) args
  | XDatetime => unary (from_str datetime_parse EDatetime) args
  | XDuration => unary (from_str duration_parse EDuration) args
  | XOffset =>
      binary (fun a b => do t <- as_datetime a; do d <- as_duration b;
                         do r <- ext_or (dt_offset t d); Ok (VExt (EDatetime r))) args
  | XDurationSince =>
      binary (fun a b => do x <- as_datetime a; do y <- as_datetime b;
                         do r <- ext_or (dt_duration_since x y); Ok (VExt (EDuration r))) args
  | XToDate =>
      unary (fun a => do t <- as_datetime a; do r <- ext_or (dt_to_date t); Ok (VExt (EDatetime r))) args
  | XToTime => unary (fun a => do t <- as_datetime a; Ok (VExt (EDuration (dt_to_time t)))) args
  | XToMilliseconds => unary (dur_method (fun ms => ms)) args
  | XToSeconds => unary (dur_method dur_to_seconds) args
  | XToMinutes => unary (dur_method dur_to_minutes) args
  | XToHours => unary (dur_method dur_to_hours) args
  | XToDays => unary (dur_method dur_to_days) args
  end.

Definition call_xfn (n : str) (args : list value) : res value :=
  match lookup_xfn n with
  | None => Err ErrUnknownFn
  | Some f => apply_xfn f args
  end.

(* ====================================================================== expression trees *)
Inductive relop := RLess | RLessEq | REq.

Inductive xexpr :=
| XStr (s : str)
| XLong (z : Z)
| XBool (b : bool)
| XCall (fn : str) (args : list xexpr)
| XRel (op : relop) (a b : xexpr).

(* evaluator.rs::binary_relation *)
Definition rel_apply (op : relop) (a b : value) : res value :=
  match op with
  | REq => Ok (VBool (value_eqb a b))
  | _ =>
      let less := match op with RLess => true | _ => false end in
      match a, b with
      | VPrim (PLong x), VPrim (PLong y) => Ok (VBool (if less then Z.ltb x y else Z.leb x y))
      | VExt x, VExt y =>
          match ext_overload_cmp less x y with Some r => Ok (VBool r) | None => Err ErrType end
      | _, _ => Err ErrType
      end
  end.

(* arguments left to right, first error wins; then the function lookup; then the call *)
Fixpoint xeval (e : xexpr) : res value :=
  match e with
  | XStr s => Ok (VString s)
  | XLong z => Ok (VLong z)
  | XBool b => Ok (VBool b)
  | XCall fn args =>
      do vs <- (fix go (l : list xexpr) : res (list value) :=
                  match l with
                  | [] => Ok []
                  | x :: l' => do v <- xeval x; do vs <- go l'; Ok (v :: vs)
                  end) args;
      call_xfn fn vs
  | XRel op a b => do x <- xeval a; do y <- xeval b; rel_apply op x y
  end.

(* ====================================================================== run command *)
Fixpoint d_xexpr (s : sexp) : option xexpr :=
  match s with
  | SL [SY t; SS x] => if sym_eqb t "s" then Some (XStr x) else None
  | SL [SY t; SI z] => if sym_eqb t "i" then Some (XLong z) else None
  | SL [SY t; SY b] => if sym_eqb t "b" then option_map XBool (d_bool (SY b)) else None
  | SL [SY t; SS fn; SL args] =>
      if sym_eqb t "call" then
        option_map (XCall fn)
          ((fix dl (l : list sexp) : option (list xexpr) :=
              match l with
              | [] => Some []
              | x :: l' => match d_xexpr x, dl l' with
                           | Some e, Some es => Some (e :: es) | _, _ => None end
              end) args)
      else None
  | SL [SY t; SY op; a; b] =>
      if sym_eqb t "rel" then
        let o := if sym_eqb op "lt" then Some RLess else if sym_eqb op "le" then Some RLessEq
                 else if sym_eqb op "eq" then Some REq else None in
        match o, d_xexpr a, d_xexpr b with
        | Some o, Some a, Some b => Some (XRel o a b)
        | _, _, _ => None
        end
      else None
  | _ => None
  end.

(* (ext_call <tree>) -> (ok <value>) | (err <class>) *)
Definition run_ext (cmd : string) (args : list sexp) : option sexp :=
  if sym_eqb cmd "ext_call" then
    Some (match args with
          | [t] => match d_xexpr t with
                   | Some e => e_res e_value (xeval e)
                   | None => bad_input
                   end
          | _ => bad_input
          end)
  else None.
