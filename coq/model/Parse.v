(* Parse.v — C05 stage 3: recursive descent on tokens producing the AST with the lowering of
   parser/cst_to_ast.rs (grammar.lalrpop gives the token-level shape; LALRPOP's LR machinery and its
   error recovery are not modelled: a recovered error is still an error).
   Rust counterparts, level by level:
     Expr            Node<Option<cst::Expr>>::to_expr_or_special        parse_expr_body
     Or / And        cst::Or / cst::And  (or_nary / and_naryl folds through the literal-folding
                     builders ExprBuilder::or / ::and)                   parse_or / parse_and
     Relation        cst::Relation (Common: at most one operator; Has: to_has_rhs + extended_has_attr;
                     Like: into_pattern; IsIn: into_entity_type, is_in_entity_type)   parse_rel
     Add / Mult      add_nary / mul_nary; `/` and `%` rejected           parse_add / parse_mul
     Unary           at most four `!` or `-`; -N literal rule            parse_unary
     Member          build_expr_accessor, to_meth, into_func             parse_member / access_loop
     Primary         literals, Ref, Name (maybe_to_var), Slot, parens, sets, records   parse_primary
   `eos` is ExprOrSpecial: variables, names, string and boolean literals stay "special" until an
   operator or a context converts them (into_expr / into_valid_attr / into_pattern / ...).
   Every error of either stage is None: the model decides accept/reject and the AST. *)
From Coq Require Import String.
From Cedar Require Export Tokens Unescape Print.
Open Scope N_scope.

Inductive eos :=
| EExpr (e : expr) | EVar (v : var) | EName (n : name) | EStr (raw : str) | EBool (b : bool).

Definition kw (s : string) (x : str) : bool := str_eqb x (ascii s).

Definition u64_max : N := 18446744073709551615.
Definition i64_max_N : N := 9223372036854775807.

Definition unescape_opt (raw : str) : option str :=
  match to_unescaped_string raw with UOk s => Some s | _ => None end.

(* ExprOrSpecial::into_expr *)
Definition into_expr (r : eos) : option expr :=
  match r with
  | EExpr e => Some e
  | EVar v => Some (Var v)
  | EName _ => None
  | EStr raw => option_map (fun s => Lit (PString s)) (unescape_opt raw)
  | EBool b => Some (Lit (PBool b))
  end.

Definition var_of_ident (s : str) : option var :=
  if kw "principal" s then Some Principal else if kw "action" s then Some Action
  else if kw "resource" s then Some Resource else if kw "context" s then Some Context else None.

(* to_valid_ident: the reserved words *)
Definition reserved_word (s : str) : bool :=
  kw "true" s || kw "false" s || kw "if" s || kw "then" s || kw "else" s || kw "in" s || kw "is" s
  || kw "has" s || kw "like" s.
(* to_unreserved_ident / Name::try_from: additionally not __cedar *)
Definition unreserved (s : str) : bool := negb (reserved_word s) && negb (kw "__cedar" s).

Definition builtin_method (s : str) : bool :=
  kw "contains" s || kw "containsAll" s || kw "containsAny" s || kw "isEmpty" s || kw "getTag" s || kw "hasTag" s.
Definition is_method_id (s : str) : bool := existsb (str_eqb s) method_style_fns.
Definition function_style_fns : list str :=
  map ascii ["decimal"; "ip"; "datetime"; "duration"; "unknown"]%string.
Definition is_function_name (n : name) : bool :=
  match n with [b] => existsb (str_eqb b) function_style_fns | _ => false end.

(* UnreservedId::to_meth *)
Definition to_meth (id : str) (recv : expr) (args : list expr) : option expr :=
  let one := fun (op : binop) => match args with [a] => Some (BinApp op recv a) | _ => None end in
  if kw "contains" id then one BContains
  else if kw "containsAll" id then one BContainsAll
  else if kw "containsAny" id then one BContainsAny
  else if kw "isEmpty" id then match args with [] => Some (UnApp UIsEmpty recv) | _ => None end
  else if kw "getTag" id then one BGetTag
  else if kw "hasTag" id then one BHasTag
  else if is_method_id id then Some (ExtCall [id] (recv :: args))
  else None.

(* Name::into_func *)
Definition into_func (n : name) (args : list expr) : option expr :=
  match n with
  | [b] => if is_method_id b || builtin_method b then None
           else if is_function_name n then Some (ExtCall n args) else None
  | _ => if is_function_name n then Some (ExtCall n args) else None
  end.

(* the path of a Name / Ref after its first identifier:  (:: IDENT)*  [:: STR | :: { ]  *)
Inductive path_end := PEName | PEUid (raw : str) | PEBad.
Fixpoint parse_path (ts : list token) : list str * path_end * list token :=
  match ts with
  | TColon2 :: TIdent s :: ts' => let '(p, e, r) := parse_path ts' in (s :: p, e, r)
  | TColon2 :: TStr raw :: ts' => ([], PEUid raw, ts')
  | TColon2 :: ts' => ([], PEBad, ts')
  | _ => ([], PEName, ts)
  end.

(* `has` right-hand side after the first identifier:  (. IDENT)*  with unreserved identifiers *)
Fixpoint parse_has_path (ts : list token) : option (list str * list token) :=
  match ts with
  | TDot :: TIdent s :: ts' =>
      if unreserved s then match parse_has_path ts' with Some (p, r) => Some (s :: p, r) | None => None end
      else None
  | _ => Some ([], ts)
  end.

(* extended_has_attr: foldl over the attribute path *)
Fixpoint has_chain (acc_has : expr) (acc_get : expr) (attrs : list str) : expr :=
  match attrs with
  | [] => acc_has
  | a :: rest => has_chain (mk_and acc_has (HasAttr acc_get a)) (GetAttr acc_get a) rest
  end.
Definition extended_has (e : expr) (attrs : list str) : option expr :=
  match attrs with
  | [] => None
  | a :: rest => Some (has_chain (HasAttr e a) (GetAttr e a) rest)
  end.

Fixpoint iter_un (n : nat) (op : unop) (e : expr) : expr :=
  match n with O => e | S k => UnApp op (iter_un k op e) end.

Fixpoint count_tok (is_t : token -> bool) (ts : list token) : nat * list token :=
  match ts with
  | t :: ts' => if is_t t then let (n, r) := count_tok is_t ts' in (S n, r) else (O, ts)
  | [] => (O, [])
  end.
Definition is_bang (t : token) : bool := match t with TBang => true | _ => false end.
Definition is_minus (t : token) : bool := match t with TMinus => true | _ => false end.
Definition access_start (ts : list token) : bool :=
  match ts with TDot :: _ | TLParen :: _ | TLBrack :: _ => true | _ => false end.

Inductive relop := RLt | RLe | RGe | RGt | RNe | REq | RIn | RBadEq.
Definition relop_of (t : token) : option relop :=
  match t with
  | TLt => Some RLt | TLe => Some RLe | TGe => Some RGe | TGt => Some RGt | TNeq => Some RNe
  | TEqEq => Some REq | TEq => Some RBadEq
  | TIdent s => if kw "in" s then Some RIn else None
  | _ => None
  end.
(* construct_expr_rel with the ExprBuilder defaults for != > >= *)
Definition mk_rel (op : relop) (a b : expr) : option expr :=
  match op with
  | RLt => Some (BinApp BLess a b)
  | RLe => Some (BinApp BLessEq a b)
  | RGe => Some (UnApp UNot (BinApp BLess a b))
  | RGt => Some (UnApp UNot (BinApp BLessEq a b))
  | RNe => Some (UnApp UNot (BinApp BEq a b))
  | REq => Some (BinApp BEq a b)
  | RIn => Some (BinApp BIn a b)
  | RBadEq => None
  end.
Definition rel_continues (ts : list token) : bool :=
  match ts with
  | t :: _ => match relop_of t with
              | Some _ => true
              | None => match t with TIdent s => kw "has" s || kw "like" s || kw "is" s | _ => false end
              end
  | [] => false
  end.

Definition pres := option (eos * list token).

Section Levels.
  Variable rec : list token -> pres.        (* parse_expr with less fuel *)
  Variable fuel : nat.                       (* fuel of the chain / list loops *)

  (* Comma<Expr> up to the closing token; elements converted with into_expr *)
  Fixpoint args_loop (n : nat) (close : token -> bool) (ts : list token) : option (list expr * list token) :=
    match ts with
    | [] => None
    | t :: ts' =>
        if close t then Some ([], ts')
        else match n with
             | O => None
             | S k =>
                 match rec ts with
                 | Some (r, ts1) =>
                     match into_expr r with
                     | Some e =>
                         match ts1 with
                         | TComma :: ts2 =>
                             match args_loop k close ts2 with Some (es, r2) => Some (e :: es, r2) | None => None end
                         | t1 :: ts2 => if close t1 then Some ([e], ts2) else None
                         | [] => None
                         end
                     | None => None
                     end
                 | None => None
                 end
             end
    end.
  Definition is_rparen (t : token) := match t with TRParen => true | _ => false end.
  Definition is_rbrack (t : token) := match t with TRBrack => true | _ => false end.
  Definition is_rbrace (t : token) := match t with TRBrace => true | _ => false end.

  (* ExprOrSpecial::into_valid_attr *)
  Definition into_valid_attr (r : eos) : option str :=
    match r with
    | EVar v => Some (show_var v)
    | EName [b] => Some b
    | EName _ => None
    | EStr raw => unescape_opt raw
    | EExpr _ => None
    | EBool _ => None
    end.

  (* Comma<RecInit> up to `}` *)
  Definition starts_with_if (ts : list token) : bool :=
    match ts with TIdent s :: _ => kw "if" s | _ => false end.
  Fixpoint recinits_loop (n : nat) (ts : list token) : option (list (str * expr) * list token) :=
    match ts with
    | [] => None
    | TRBrace :: ts' => Some ([], ts')
    | _ =>
        (* IF ":" Expr: reserved identifier; an `if ..` expression as key: InvalidAttribute *)
        if starts_with_if ts then None
        else
          match n with
          | O => None
          | S k =>
              match rec ts with
              | Some (rk, TColon :: ts1) =>
                  match into_valid_attr rk, rec ts1 with
                  | Some key, Some (rv, ts2) =>
                      match into_expr rv with
                      | Some v =>
                          match ts2 with
                          | TComma :: ts3 =>
                              match recinits_loop k ts3 with Some (kvs, r) => Some ((key, v) :: kvs, r) | None => None end
                          | TRBrace :: ts3 => Some ([(key, v)], ts3)
                          | _ => None
                          end
                      | None => None
                      end
                  | _, _ => None
                  end
              | _ => None
              end
          end
    end.

  Definition parse_primary (ts : list token) : pres :=
    match ts with
    | TNum n :: ts' =>
        if n <=? i64_max_N then Some (EExpr (Lit (PLong (Z.of_N n))), ts') else None
    | TStr raw :: ts' => Some (EStr raw, ts')
    | TSlot s :: ts' =>
        if kw "principal" s then Some (EExpr (Slot SlotPrincipal), ts')
        else if kw "resource" s then Some (EExpr (Slot SlotResource), ts') else None
    | TLParen :: ts' =>
        match rec ts' with
        | Some (r, TRParen :: ts1) => option_map (fun e => (EExpr e, ts1)) (into_expr r)
        | _ => None
        end
    | TLBrack :: ts' =>
        match args_loop fuel is_rbrack ts' with
        | Some (es, ts1) => Some (EExpr (SetE es), ts1)
        | None => None
        end
    | TLBrace :: ts' =>
        match recinits_loop fuel ts' with
        | Some (kvs, ts1) => if keys_nodup kvs then Some (EExpr (RecordE (sort_assoc kvs)), ts1) else None
        | None => None
        end
    | TIdent s :: ts' =>
        let '(p, e, ts1) := parse_path ts' in
        let comps := s :: p in
        match e with
        | PEBad => None
        | PEUid raw =>
            if forallb unreserved comps
            then option_map (fun i => (EExpr (Lit (PEntity (mkUid comps i))), ts1)) (unescape_opt raw)
            else None
        | PEName =>
            match p with
            | [] =>
                if kw "true" s then Some (EBool true, ts1)
                else if kw "false" s then Some (EBool false, ts1)
                else match var_of_ident s with
                     | Some v => Some (EVar v, ts1)
                     | None => if unreserved s then Some (EName [s], ts1) else None
                     end
            | _ => if forallb unreserved comps then Some (EName comps, ts1) else None
            end
        end
    | _ => None
    end.

  (* the MemAccess* loop on an expression head (build_expr_accessor) *)
  Fixpoint access_loop (n : nat) (cur : expr) (ts : list token) : pres :=
    match ts with
    | TDot :: TIdent id :: TLParen :: ts' =>
        match n with
        | O => None
        | S k =>
            if unreserved id then
              match args_loop fuel is_rparen ts' with
              | Some (args, ts1) =>
                  match to_meth id cur args with Some e => access_loop k e ts1 | None => None end
              | None => None
              end
            else None
        end
    | TDot :: TIdent id :: ts' =>
        match n with
        | O => None
        | S k => if unreserved id then access_loop k (GetAttr cur id) ts' else None
        end
    | TDot :: _ => None
    | TLBrack :: ts' =>
        match n with
        | O => None
        | S k =>
            match rec ts' with
            | Some (EStr raw, TRBrack :: ts1) =>
                match unescape_opt raw with Some a => access_loop k (GetAttr cur a) ts1 | None => None end
            | _ => None
            end
        end
    | TLParen :: _ => None                    (* ExpressionCall / VariableCall *)
    | _ => Some (EExpr cur, ts)
    end.

  Definition parse_member (ts : list token) : pres :=
    match parse_primary ts with
    | None => None
    | Some (prim, ts1) =>
        if access_start ts1 then
          match prim with
          | EName n =>
              match ts1 with
              | TLParen :: ts2 =>
                  match args_loop fuel is_rparen ts2 with
                  | Some (args, ts3) =>
                      match into_func n args with Some e => access_loop fuel e ts3 | None => None end
                  | None => None
                  end
              | _ => None               (* NoMethods / InvalidAccess / InvalidIndex *)
              end
          | _ => match into_expr prim with Some e => access_loop fuel e ts1 | None => None end
          end
        else Some (prim, ts1)
    end.

  Definition parse_unary (ts : list token) : pres :=
    let (nb, ts1) := count_tok is_bang ts in
    match nb with
    | S _ =>
        if Nat.ltb 4 nb then None
        else match parse_member ts1 with
             | Some (r, ts2) => option_map (fun e => (EExpr (iter_un nb UNot e), ts2)) (into_expr r)
             | None => None
             end
    | O =>
        let (nd, ts2) := count_tok is_minus ts in
        match nd with
        | O => parse_member ts
        | S c' =>
            if Nat.ltb 4 nd then None
            else match ts2 with
                 | TNum n :: ts3 =>
                     if access_start ts3 then
                       match parse_member ts2 with
                       | Some (r, ts4) => option_map (fun e => (EExpr (iter_un nd UNeg e), ts4)) (into_expr r)
                       | None => None
                       end
                     else if n <=? i64_max_N + 1
                     then Some (EExpr (iter_un c' UNeg (Lit (PLong (- Z.of_N n)))), ts3)
                     else None
                 | _ =>
                     match parse_member ts2 with
                     | Some (r, ts4) => option_map (fun e => (EExpr (iter_un nd UNeg e), ts4)) (into_expr r)
                     | None => None
                     end
                 end
        end
    end.

  Fixpoint mul_loop (n : nat) (acc : expr) (ts : list token) : pres :=
    match ts with
    | TStar :: ts' =>
        match n with
        | O => None
        | S k => match parse_unary ts' with
                 | Some (r, ts1) => match into_expr r with Some b => mul_loop k (BinApp BMul acc b) ts1 | None => None end
                 | None => None
                 end
        end
    | TSlash :: _ | TPercent :: _ => None
    | _ => Some (EExpr acc, ts)
    end.
  Definition mul_start (ts : list token) : bool :=
    match ts with TStar :: _ | TSlash :: _ | TPercent :: _ => true | _ => false end.
  Definition parse_mul (ts : list token) : pres :=
    match parse_unary ts with
    | Some (r, ts1) =>
        if mul_start ts1 then match into_expr r with Some a => mul_loop fuel a ts1 | None => None end
        else Some (r, ts1)
    | None => None
    end.

  Fixpoint add_loop (n : nat) (acc : expr) (ts : list token) : pres :=
    let step := fun (op : binop) (ts' : list token) =>
      match n with
      | O => None
      | S k => match parse_mul ts' with
               | Some (r, ts1) => match into_expr r with Some b => add_loop k (BinApp op acc b) ts1 | None => None end
               | None => None
               end
      end in
    match ts with
    | TPlus :: ts' => step BAdd ts'
    | TMinus :: ts' => step BSub ts'
    | _ => Some (EExpr acc, ts)
    end.
  Definition add_start (ts : list token) : bool :=
    match ts with TPlus :: _ | TMinus :: _ => true | _ => false end.
  Definition parse_add (ts : list token) : pres :=
    match parse_mul ts with
    | Some (r, ts1) =>
        if add_start ts1 then match into_expr r with Some a => add_loop fuel a ts1 | None => None end
        else Some (r, ts1)
    | None => None
    end.

  (* to_has_rhs *)
  Definition parse_has_rhs (ts : list token) : option (list str * list token) :=
    match ts with
    | TStr raw :: ts' => option_map (fun a => ([a], ts')) (unescape_opt raw)
    | TIdent s :: ts' =>
        if unreserved s then
          match parse_has_path ts' with Some (p, r) => Some (s :: p, r) | None => None end
        else None
    | _ => None
    end.

  Definition parse_rel (ts : list token) : pres :=
    match parse_add ts with
    | None => None
    | Some (r, ts1) =>
        match ts1 with
        | t :: ts2 =>
            match relop_of t with
            | Some op =>
                match parse_add ts2 with
                | Some (r2, ts3) =>
                    if rel_continues ts3 then None
                    else match into_expr r, into_expr r2 with
                         | Some a, Some b => option_map (fun e => (EExpr e, ts3)) (mk_rel op a b)
                         | _, _ => None
                         end
                | None => None
                end
            | None =>
                match t with
                | TIdent s =>
                    if kw "has" s then
                      match into_expr r, parse_has_rhs ts2 with
                      | Some a, Some (attrs, ts3) => option_map (fun e => (EExpr e, ts3)) (extended_has a attrs)
                      | _, _ => None
                      end
                    else if kw "like" s then
                      match parse_add ts2 with
                      | Some (EStr raw, ts3) =>
                          match into_expr r, to_pattern raw with
                          | Some a, UOk p => Some (EExpr (Like a p), ts3)
                          | _, _ => None
                          end
                      | _ => None
                      end
                    else if kw "is" s then
                      match parse_add ts2 with
                      | Some (rt, ts3) =>
                          let ty := match rt with
                                    | EVar v => Some [show_var v]
                                    | EName n => Some n
                                    | _ => None
                                    end in
                          match into_expr r, ty with
                          | Some a, Some n =>
                              match ts3 with
                              | TIdent s3 :: ts4 =>
                                  if kw "in" s3 then
                                    match parse_add ts4 with
                                    | Some (r3, ts5) =>
                                        option_map (fun b => (EExpr (mk_and (Is a n) (BinApp BIn a b)), ts5)) (into_expr r3)
                                    | None => None
                                    end
                                  else Some (EExpr (Is a n), ts3)
                              | _ => Some (EExpr (Is a n), ts3)
                              end
                          | _, _ => None
                          end
                      | None => None
                      end
                    else Some (r, ts1)
                | _ => Some (r, ts1)
                end
            end
        | [] => Some (r, ts1)
        end
    end.

  Fixpoint and_loop (n : nat) (acc : expr) (ts : list token) : pres :=
    match ts with
    | TAndAnd :: ts' =>
        match n with
        | O => None
        | S k => match parse_rel ts' with
                 | Some (r, ts1) => match into_expr r with Some b => and_loop k (mk_and acc b) ts1 | None => None end
                 | None => None
                 end
        end
    | _ => Some (EExpr acc, ts)
    end.
  Definition parse_and (ts : list token) : pres :=
    match parse_rel ts with
    | Some (r, TAndAnd :: ts1) =>
        match into_expr r with Some a => and_loop fuel a (TAndAnd :: ts1) | None => None end
    | x => x
    end.

  Fixpoint or_loop (n : nat) (acc : expr) (ts : list token) : pres :=
    match ts with
    | TOrOr :: ts' =>
        match n with
        | O => None
        | S k => match parse_and ts' with
                 | Some (r, ts1) => match into_expr r with Some b => or_loop k (mk_or acc b) ts1 | None => None end
                 | None => None
                 end
        end
    | _ => Some (EExpr acc, ts)
    end.
  Definition parse_or (ts : list token) : pres :=
    match parse_and ts with
    | Some (r, TOrOr :: ts1) =>
        match into_expr r with Some a => or_loop fuel a (TOrOr :: ts1) | None => None end
    | x => x
    end.

  Definition starts_path (ts : list token) : bool := match ts with TColon2 :: _ => true | _ => false end.

  Definition parse_expr_body (ts : list token) : pres :=
    match ts with
    | TIdent s :: ts' =>
        if kw "if" s then
          if starts_path ts' then None
          else match rec ts' with
               | Some (rc, TIdent s1 :: ts1) =>
                   if kw "then" s1 then
                     match rec ts1 with
                     | Some (rt, TIdent s2 :: ts2) =>
                         if kw "else" s2 then
                           match rec ts2 with
                           | Some (re, ts3) =>
                               match into_expr rc, into_expr rt, into_expr re with
                               | Some c, Some t, Some e => Some (EExpr (If c t e), ts3)
                               | _, _, _ => None
                               end
                           | None => None
                           end
                         else None
                     | _ => None
                     end
                   else None
               | _ => None
               end
        else parse_or ts
    | _ => parse_or ts
    end.
End Levels.

Fixpoint parse_expr (fuel : nat) (ts : list token) : pres :=
  match fuel with
  | O => None
  | S f => parse_expr_body (parse_expr f) f ts
  end.

(* parser::parse_expr on a token list: the whole input must be consumed *)
Definition parse_expr_toks (ts : list token) : option expr :=
  match parse_expr (S (length ts)) ts with
  | Some (r, []) => into_expr r
  | _ => None
  end.
