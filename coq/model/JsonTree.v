(* JsonTree.v — JSON trees as serde_json::Value presents them to the entity/context JSON layer
   (C10).  Numbers are integers (`JInt`, any magnitude: the i64 test is made where the code makes
   it); non-integer numbers are outside this tree type (the generators keep them on the
   implementation-only streams).  Objects are association lists with unique keys (a
   serde_json::Map cannot hold a key twice); lookups are first-match.
   Kept separate from the JSON tree of the structured policy formats (C06); to be unified. *)
From Cedar Require Export Base.

Inductive json :=
| JNull
| JBool (b : bool)
| JInt (z : Z)
| JStr (s : str)
| JArr (l : list json)
| JObj (l : list (str * json)).

Definition jobj_keys (l : list (str * json)) : list str := map fst l.
