(* SchemaSyn.v — schema FRAGMENTS (what both concrete schema syntaxes denote) and their resolution
   into the validator schema of Schema.v.  Definitions only.

   Mirrors
     cedar-policy-core/src/validator/json_schema.rs   Fragment / NamespaceDefinition / EntityType / ActionType /
                                                       Type (Type | CommonTypeRef) / TypeVariant (.. Entity | EntityOrCommon ..)
     validator/schema/raw_name.rs                      RawName::conditionally_qualify_with, ConditionalName::resolve
     validator/schema/namespace_def.rs                 from_namespace_definition (check_action_restrictions),
                                                       fully_qualify_type_references, try_jsonschema_type_into_validator_type
     validator/schema.rs                               ValidatorSchema::from_schema_fragments, AllDefs (rfc_70_shadowing_checks,
                                                       add_action_entity_types), cedar_fragment, single_alias_in_empty_namespace,
                                                       CommonTypeResolver (cycle detection + inlining), check_for_undeclared
     validator/cedar_schema/to_json_schema.rs          cedar_type_to_json_type (every Path is EntityOrCommon, `context: Path`
                                                       is CommonTypeRef), fmt.rs (what the printer writes for each reference form)
   Text (lexing, LALRPOP parsing, serde, layout of fmt.rs) is NOT modelled: the two syntaxes are modelled at the
   level of declarations / JSON trees. *)
From Coq Require Import String.
From Cedar Require Export Schema.

(* ------------------------------------------------------------------------------------------
   Fragments *)
Inductive primk := PLong | PString | PBool.

(* json_schema::Type<RawName>.  XEntity / XCommon / XEoc are the three reference forms:
   TypeVariant::Entity{name}, Type::CommonTypeRef{type_name}, TypeVariant::EntityOrCommon{type_name}. *)
Inductive tyx :=
| XPrim (p : primk)
| XExt (n : str)
| XSet (e : tyx)
| XRecord (attrs : list (str * (tyx * bool))) (open : bool)
| XEntity (n : name)
| XCommon (n : name)
| XEoc (n : name).

Inductive entdecl :=
| EStd (parents : list name) (shape : tyx) (tags : option tyx)
| EEnum (choices : list str).

(* ActionType: member_of (None and Some [] mean the same), applies_to (None = applies to nothing,
   empty context); action attributes are unsupported (UnsupportedFeature) and not modelled. *)
Record actdecl := mkActDecl {
  ad_member_of : option (list (option name * str));
  ad_applies : option (list name * list name * tyx)
}.

Record nsdef := mkNs {
  ns_name : name;                           (* [] = the empty namespace *)
  ns_commons : list (str * tyx);
  ns_entities : list (str * entdecl);
  ns_actions : list (str * actdecl)
}.

Definition fragment := list nsdef.

(* ------------------------------------------------------------------------------------------
   Errors (SchemaError classes; the two text-level classes stand for parser rejections) *)
Inductive serr :=
| SDuplicate                 (* duplicate namespace / declaration: serde duplicate key, DuplicateDeclarations, Duplicate*Error *)
| SParseReject               (* reserved common-type basename (CommonTypeId::new / ReservedSchemaKeyword) *)
| SActionEntityTypeDeclared
| STypeShadowing
| SActionShadowing
| STypeNotDefined
| SActionNotDefined
| SCycleInCommonTypes
| SUnknownExtensionType
| SNotRecord                 (* ContextOrShapeNotRecord *)
| SCycleInActionHierarchy
| SUndeclaredEntityTypes
| SReservedName
| SInvariant                 (* CommonTypeInvariantViolation: unreachable *)
| SOutOfFuel.                (* unreachable after the cycle check *)

Inductive sres (A : Type) := SOk (a : A) | SErr (e : serr).
Arguments SOk {A} a.
Arguments SErr {A} e.

Definition sbind {A B} (r : sres A) (f : A -> sres B) : sres B :=
  match r with SOk a => f a | SErr e => SErr e end.
Notation "'sdo' x <- r ; k" := (sbind r (fun x => k)) (at level 200, x name, r at level 100, k at level 200).

Fixpoint smapM {A B} (f : A -> sres B) (l : list A) : sres (list B) :=
  match l with
  | [] => SOk []
  | x :: l' => sdo y <- f x; sdo ys <- smapM f l'; SOk (y :: ys)
  end.

(* ------------------------------------------------------------------------------------------
   Names *)
Definition cedar_id : str := s2str "__cedar".
Definition action_id : str := s2str "Action".
Definition mem_name (n : name) (l : list name) : bool := existsb (name_eqb n) l.
Definition mem_str (s : str) (l : list str) : bool := existsb (str_eqb s) l.
Definition mem_uid (u : uid) (l : list uid) : bool := existsb (uid_eqb u) l.
Definition is_unqualified (n : name) : bool := match n with [_] => true | _ => false end.
Definition is_reserved (n : name) : bool := mem_str cedar_id n.      (* InternalName::is_reserved *)
Definition qual (ns : name) (id : str) : name := ns ++ [id].         (* RawName::qualify_with on a declaration *)

Fixpoint nodup_by {A} (eqb : A -> A -> bool) (l : list A) : bool :=
  match l with
  | [] => true
  | x :: l' => negb (existsb (eqb x) l') && nodup_by eqb l'
  end.

Fixpoint dedup_by {A} (eqb : A -> A -> bool) (l : list A) : list A :=
  match l with
  | [] => []
  | x :: l' => if existsb (eqb x) l' then dedup_by eqb l' else x :: dedup_by eqb l'
  end.

Fixpoint assoc_name {V} (n : name) (l : list (name * V)) : option V :=
  match l with
  | [] => None
  | (k, v) :: l' => if name_eqb n k then Some v else assoc_name n l'
  end.

(* CommonTypeId::is_reserved_schema_keyword *)
Definition reserved_common_ids : list str :=
  map s2str ["Bool"; "Boolean"; "Entity"; "Extension"; "Long"; "Record"; "Set"; "String"]%string.

Definition prim_names : list (str * primk) :=
  [(s2str "Bool", PBool); (s2str "Long", PLong); (s2str "String", PString)].
(* Extensions::all_available().ext_types() *)
Definition ext_names : list str := map s2str ["ipaddr"; "decimal"; "datetime"; "duration"]%string.

(* ------------------------------------------------------------------------------------------
   AllDefs *)
Definition entity_defs (f : fragment) : list name :=
  flat_map (fun ns => map (fun e => qual (ns_name ns) (fst e)) (ns_entities ns)) f.
Definition common_defs (f : fragment) : list name :=
  flat_map (fun ns => map (fun c => qual (ns_name ns) (fst c)) (ns_commons ns)) f.
Definition action_type (ns : name) : name := qual ns action_id.
Definition action_defs (f : fragment) : list uid :=
  flat_map (fun ns => map (fun a => mkUid (action_type (ns_name ns)) (fst a)) (ns_actions ns)) f.

(* AllDefs::rfc_70_shadowing_checks: a definition in the empty namespace may not be shadowed by a
   definition with the same basename in a non-empty namespace (entity and common types together) *)
Definition rfc70_type_violation (names : list name) : bool :=
  existsb (fun u => is_unqualified u &&
                    existsb (fun q => negb (is_unqualified q) && negb (is_reserved q) &&
                                      str_eqb (basename q) (basename u)) names) names.
Definition rfc70_action_violation (acts : list uid) : bool :=
  existsb (fun u => is_unqualified (uty u) &&
                    existsb (fun q => negb (is_unqualified (uty q)) && str_eqb (ueid q) (ueid u)) acts) acts.

(* cedar_fragment: the definitions of the __cedar namespace; single_alias_in_empty_namespace: the
   unqualified aliases, added only when the user defines nothing (entity or common type) of that name
   in the empty namespace.  A common-type definition is (full name, (namespace it was written in, body)). *)
Definition cdef := (name * (name * tyx))%type.

Definition builtin_commons : list cdef :=
  map (fun p => ([cedar_id; fst p], ([cedar_id], XPrim (snd p)))) prim_names ++
  map (fun e => ([cedar_id; e], ([cedar_id], XExt e))) ext_names.

Definition alias_commons (edefs cdefs : list name) : list cdef :=
  flat_map (fun t => if mem_name [t] edefs || mem_name [t] cdefs then []
                     else [([t], ([], XEoc [cedar_id; t]))])
           (map fst prim_names ++ ext_names).

Definition user_commons (f : fragment) : list cdef :=
  flat_map (fun ns => map (fun c => (qual (ns_name ns) (fst c), (ns_name ns, snd c))) (ns_commons ns)) f.

(* AllDefs::add_action_entity_types *)
Definition action_types (f : fragment) : list name :=
  flat_map (fun ns => match ns_actions ns with [] => [] | _ => [action_type (ns_name ns)] end) f.

(* ------------------------------------------------------------------------------------------
   Conditional name resolution *)
Inductive refkind := RCommon | REntity | RBoth.

(* RawName::conditionally_qualify_with: the candidates in priority order *)
Definition possibilities (ns : name) (n : name) : list name :=
  if is_unqualified n then match ns with [] => [n] | _ => [ns ++ n; n] end else [n].

(* ConditionalName::resolve: the first candidate that is defined (as a common type if the reference may be
   one, as an entity type if it may be one) *)
Fixpoint resolve_in (k : refkind) (cdefs edefs : list name) (ps : list name) : option name :=
  match ps with
  | [] => None
  | p :: ps' =>
      if (match k with REntity => false | _ => mem_name p cdefs end) ||
         (match k with RCommon => false | _ => mem_name p edefs end)
      then Some p else resolve_in k cdefs edefs ps'
  end.

Definition resolve_name (k : refkind) (cdefs edefs : list name) (ns n : name) : option name :=
  resolve_in k cdefs edefs (possibilities ns n).

(* Type<ConditionalName>::fully_qualify_type_references (None = TypeNotDefinedError) *)
Fixpoint qual_ty (cdefs edefs : list name) (ns : name) (t : tyx) {struct t} : option tyx :=
  match t with
  | XPrim _ | XExt _ => Some t
  | XSet e => option_map XSet (qual_ty cdefs edefs ns e)
  | XRecord attrs o =>
      option_map (fun a => XRecord a o)
        ((fix go (l : list (str * (tyx * bool))) : option (list (str * (tyx * bool))) :=
            match l with
            | [] => Some []
            | (k, (a, r)) :: l' =>
                match qual_ty cdefs edefs ns a, go l' with
                | Some a', Some rest => Some ((k, (a', r)) :: rest)
                | _, _ => None
                end
            end) attrs)
  | XEntity n => option_map XEntity (resolve_name REntity cdefs edefs ns n)
  | XCommon n => option_map XCommon (resolve_name RCommon cdefs edefs ns n)
  | XEoc n => option_map XEoc (resolve_name RBoth cdefs edefs ns n)
  end.

(* ActionEntityUID<ConditionalName>::fully_qualify_type_references: the first candidate TYPE for which
   an action of that id is declared (candidates containing __cedar are not valid EntityUIDs) *)
Fixpoint resolve_action_in (adefs : list uid) (ps : list name) (id : str) : option uid :=
  match ps with
  | [] => None
  | p :: ps' =>
      if negb (is_reserved p) && mem_uid (mkUid p id) adefs then Some (mkUid p id)
      else resolve_action_in adefs ps' id
  end.
Definition resolve_action (adefs : list uid) (ns : name) (r : option name * str) : option uid :=
  resolve_action_in adefs (possibilities ns (match fst r with Some t => t | None => [action_id] end)) (snd r).

Fixpoint oall {A} (l : list (option A)) : option (list A) :=
  match l with
  | [] => Some []
  | Some x :: l' => option_map (cons x) (oall l')
  | None :: _ => None
  end.

(* ------------------------------------------------------------------------------------------
   Common types: cycle detection and inlining.
   `jumps_exceed fuel`: some chain of common-type references starting in t is longer than fuel. With
   fuel = number of definitions such a chain repeats a definition, i.e. there is a cycle
   (CommonTypeResolver::topo_sort reports a cycle iff one exists). *)
Fixpoint jumps_exceed (fuel : nat) (cd : list (name * tyx)) {struct fuel} : tyx -> bool :=
  fix go (t : tyx) {struct t} : bool :=
    match t with
    | XPrim _ | XExt _ | XEntity _ => false
    | XSet e => go e
    | XRecord attrs _ =>
        (fix goa (l : list (str * (tyx * bool))) : bool :=
           match l with [] => false | (_, (a, _)) :: l' => go a || goa l' end) attrs
    | XCommon n | XEoc n =>
        match assoc_name n cd with
        | Some b => match fuel with O => true | S f => jumps_exceed f cd b end
        | None => false
        end
    end.

(* try_jsonschema_type_into_validator_type with every common type inlined *)
Fixpoint conv (fuel : nat) (cd : list (name * tyx)) {struct fuel} : tyx -> sres ty :=
  fix go (t : tyx) {struct t} : sres ty :=
    match t with
    | XPrim PLong => SOk TLong
    | XPrim PString => SOk TString
    | XPrim PBool => SOk (TBool BAny)
    | XExt n => if mem_str n ext_names then SOk (TExt [n]) else SErr SUnknownExtensionType
    | XSet e => sdo x <- go e; SOk (ty_set x)
    | XRecord attrs o =>
        sdo a <- (fix goa (l : list (str * (tyx * bool))) : sres attrs_ty :=
                    match l with
                    | [] => SOk []
                    | (k, (a, r)) :: l' => sdo x <- go a; sdo rest <- goa l'; SOk ((k, (x, r)) :: rest)
                    end) attrs;
        SOk (TRecord (sort_assoc a) o)
    | XEntity n => if is_reserved n then SErr SReservedName else SOk (ty_entity n)
    | XCommon n =>
        match assoc_name n cd with
        | Some b => match fuel with O => SErr SOutOfFuel | S f => conv f cd b end
        | None => SErr SInvariant
        end
    | XEoc n =>
        match assoc_name n cd with
        | Some b => match fuel with O => SErr SOutOfFuel | S f => conv f cd b end
        | None => if is_reserved n then SErr SReservedName else SOk (ty_entity n)
        end
    end.

Definition as_record (t : ty) : sres (attrs_ty * bool) :=
  match t with TRecord a o => SOk (a, o) | _ => SErr SNotRecord end.

(* ------------------------------------------------------------------------------------------
   Hierarchies: invert `parents` into `children`, then close transitively (compute_tc). *)
Section Closure.
  Context {A : Type} (eqb : A -> A -> bool).
  Definition union (a b : list A) : list A := a ++ filter (fun x => negb (existsb (eqb x) a)) b.
  (* children of x = the declared nodes that list x among their parents *)
  Definition children_of (nodes : list (A * list A)) (x : A) : list A :=
    map fst (filter (fun np => existsb (eqb x) (snd np)) nodes).
  Fixpoint close (fuel : nat) (nodes : list (A * list A)) (s : list A) : list A :=
    match fuel with
    | O => s
    | S f => close f nodes (union s (dedup_by eqb (flat_map (children_of nodes) s)))
    end.
  Definition descendants_of (nodes : list (A * list A)) (x : A) : list A :=
    close (length nodes) nodes (dedup_by eqb (children_of nodes x)).
End Closure.

(* ------------------------------------------------------------------------------------------
   resolve *)
Definition empty_record : tyx := XRecord [] false.

Definition text_level_check (f : fragment) : sres unit :=
  if existsb (fun ns => existsb (fun c => mem_str (fst c) reserved_common_ids) (ns_commons ns)) f then SErr SParseReject
  else if negb (nodup_by name_eqb (map ns_name f)) then SErr SDuplicate
  else if negb (forallb (fun ns => nodup_by str_eqb (map fst (ns_commons ns)) &&
                                   nodup_by str_eqb (map fst (ns_entities ns)) &&
                                   nodup_by str_eqb (map fst (ns_actions ns))) f) then SErr SDuplicate
  else SOk tt.

(* qualified view of the declarations: everything a declaration refers to, resolved *)
Record qent := mkQEnt { qe_name : name; qe_parents : list name; qe_shape : tyx; qe_tags : option tyx;
                        qe_enum : option (list str) }.
Record qact := mkQAct { qa_uid : uid; qa_parents : list uid; qa_principals : list name; qa_resources : list name;
                        qa_context : tyx }.

Definition qualify_entity (cdefs edefs : list name) (ns : name) (e : str * entdecl) : option qent :=
  match snd e with
  | EEnum ch => Some (mkQEnt (qual ns (fst e)) [] empty_record None (Some ch))
  | EStd ps shape tags =>
      match oall (map (resolve_name REntity cdefs edefs ns) ps), qual_ty cdefs edefs ns shape,
            match tags with None => Some None | Some t => option_map Some (qual_ty cdefs edefs ns t) end with
      | Some ps', Some s', Some t' => Some (mkQEnt (qual ns (fst e)) (dedup_by name_eqb ps') s' t' None)
      | _, _, _ => None
      end
  end.

Definition applies_parts (a : actdecl) : list name * list name * tyx :=
  match ad_applies a with Some x => x | None => ([], [], empty_record) end.

(* the type references of an action (TypeNotDefined) ... *)
Definition qualify_action_types (cdefs edefs : list name) (ns : name) (a : str * actdecl)
  : option (list name * list name * tyx) :=
  let '(ps, rs, ctx) := applies_parts (snd a) in
  match oall (map (resolve_name REntity cdefs edefs ns) ps), oall (map (resolve_name REntity cdefs edefs ns) rs),
        qual_ty cdefs edefs ns ctx with
  | Some ps', Some rs', Some c' => Some (dedup_by name_eqb ps', dedup_by name_eqb rs', c')
  | _, _, _ => None
  end.
(* ... and its action references (ActionNotDefined) *)
Definition qualify_action_parents (adefs : list uid) (ns : name) (a : str * actdecl) : option (list uid) :=
  option_map (dedup_by uid_eqb)
    (oall (map (resolve_action adefs ns) (match ad_member_of (snd a) with Some l => l | None => [] end))).

Definition resolve (f : fragment) : sres schema :=
  sdo _ <- text_level_check f;
  (* from_namespace_definition: check_action_restrictions *)
  if existsb (fun ns => existsb (fun e => str_eqb (fst e) action_id) (ns_entities ns)) f then SErr SActionEntityTypeDeclared else
  let edefs0 := entity_defs f in
  let cdefs0 := common_defs f in
  let adefs := action_defs f in
  if rfc70_type_violation (edefs0 ++ cdefs0) then SErr STypeShadowing else
  if rfc70_action_violation adefs then SErr SActionShadowing else
  let commons : list cdef := user_commons f ++ builtin_commons ++ alias_commons edefs0 cdefs0 in
  let cdefs := map fst commons in
  let edefs := edefs0 ++ action_types f in
  (* fully_qualify_type_references: every TypeNotDefined is reported before any ActionNotDefined *)
  let qcommons := map (fun c => option_map (fun b => (fst c, b)) (qual_ty cdefs edefs (fst (snd c)) (snd (snd c)))) commons in
  let qents := flat_map (fun ns => map (qualify_entity cdefs edefs (ns_name ns)) (ns_entities ns)) f in
  let qacts_t := flat_map (fun ns => map (qualify_action_types cdefs edefs (ns_name ns)) (ns_actions ns)) f in
  match oall qcommons, oall qents, oall qacts_t with
  | Some cd, Some ents, Some acts_t =>
      let qacts_p := flat_map (fun ns => map (qualify_action_parents adefs (ns_name ns)) (ns_actions ns)) f in
      match oall qacts_p with
      | None => SErr SActionNotDefined
      | Some acts_p =>
          let fuel := length cd in
          (* CommonTypeResolver: cycles first, then every definition is converted (used or not) *)
          if existsb (fun c => jumps_exceed fuel cd (snd c)) cd then SErr SCycleInCommonTypes else
          sdo _ <- smapM (fun c => conv fuel cd (snd c)) cd;
          (* entity types *)
          let enodes := map (fun e => (qe_name e, qe_parents e)) ents in
          sdo etypes <- smapM (fun e =>
                          let desc := descendants_of name_eqb enodes (qe_name e) in
                          match qe_enum e with
                          | Some ch => SOk (qe_name e, mkEtypeInfo [] false None desc (Some ch))
                          | None =>
                              sdo st <- conv fuel cd (qe_shape e);
                              sdo ao <- as_record st;
                              sdo tg <- match qe_tags e with
                                        | None => SOk None
                                        | Some t => sdo x <- conv fuel cd t; SOk (Some x)
                                        end;
                              SOk (qe_name e, mkEtypeInfo (fst ao) (snd ao) tg desc None)
                          end) ents;
          (* actions *)
          let auids := action_defs f in
          let acts := combine auids (combine acts_t acts_p) in
          let anodes := map (fun a => (fst a, snd (snd a))) acts in
          sdo actions <- smapM (fun a =>
                           let '(u, ((ps, rs, ctx), _)) := a in
                           sdo ct <- conv fuel cd ctx;
                           sdo ao <- as_record ct;
                           SOk (u, mkActionInfo ps rs (TRecord (fst ao) (snd ao)) (descendants_of uid_eqb anodes u))) acts;
          (* compute_tc(action_ids, enforce_dag = true) *)
          if existsb (fun a => mem_uid (fst a) (ai_descendants (snd a))) actions then SErr SCycleInActionHierarchy else
          (* check_for_undeclared: memberOfTypes / appliesTo naming something that is not a declared entity type
             (only the implicit `Action` types can get this far) *)
          if existsb (fun e => existsb (fun p => negb (mem_name p edefs0)) (qe_parents e)) ents ||
             existsb (fun a => existsb (fun p => negb (mem_name p edefs0)) (ai_principals (snd a) ++ ai_resources (snd a))) actions
          then SErr SUndeclaredEntityTypes else
          SOk (mkSchema etypes actions)
      end
  | _, _, _ => SErr STypeNotDefined
  end.

(* ------------------------------------------------------------------------------------------
   The Cedar-syntax view.  What survives a trip through the Cedar text (fmt.rs writes, the parser and
   to_json_schema.rs read): every reference becomes EntityOrCommon — primitives and extension types are
   written `__cedar::T`, must-be-entity and must-be-common references are written as the bare name — except
   a context given by a name, which is read back as a CommonTypeRef. *)
Definition prim_name (p : primk) : str :=
  match p with PLong => s2str "Long" | PString => s2str "String" | PBool => s2str "Bool" end.

Fixpoint cedar_form (t : tyx) : tyx :=
  match t with
  | XPrim p => XEoc [cedar_id; prim_name p]
  | XExt n => XEoc [cedar_id; n]
  | XSet e => XSet (cedar_form e)
  | XRecord attrs o =>
      XRecord ((fix go (l : list (str * (tyx * bool))) : list (str * (tyx * bool)) :=
                  match l with [] => [] | (k, (a, r)) :: l' => (k, (cedar_form a, r)) :: go l' end) attrs) false
      (* the Cedar syntax has no additionalAttributes: fmt.rs does not print it, the parser always produces false *)
  | XEntity n => XEoc n
  | XCommon n => XEoc n
  | XEoc n => XEoc n
  end.

Definition cedar_form_context (t : tyx) : tyx :=
  match t with
  | XCommon n | XEoc n | XEntity n => XCommon n
  | _ => cedar_form t
  end.

(* fmt.rs: json_schema_to_cedar_schema_str refuses (a) a non-empty namespace that declares an entity type and a
   common type of the same name (NameCollisions) and (b) an entity shape that is not a record literal *)
Definition fmt_name_collision (f : fragment) : bool :=
  existsb (fun ns => match ns_name ns with
                     | [] => false
                     | _ => existsb (fun e => mem_str (fst e) (map fst (ns_commons ns))) (ns_entities ns)
                     end) f.
Definition fmt_unconvertible_shape (f : fragment) : bool :=
  existsb (fun ns => existsb (fun e => match snd e with
                                       | EStd _ (XRecord _ _) _ => false
                                       | EStd _ _ _ => true
                                       | EEnum _ => false
                                       end) (ns_entities ns)) f.

Definition cedar_entdecl (e : entdecl) : entdecl :=
  match e with
  | EStd ps shape tags => EStd ps (cedar_form shape) (option_map cedar_form tags)
  | EEnum ch => EEnum ch
  end.

(* ActionType Display + convert_action_decl: no `appliesTo` is printed unless both lists are non-empty; the
   parser always produces Some applies_to; an empty member_of is not printed and read back as None *)
Definition cedar_actdecl (a : actdecl) : actdecl :=
  mkActDecl (match ad_member_of a with Some [] => None | x => x end)
            (match ad_applies a with
             | Some (p :: ps, r :: rs, ctx) => Some (p :: ps, r :: rs, cedar_form_context ctx)
             | _ => Some ([], [], empty_record)
             end).

Definition cedar_roundtrip (f : fragment) : option fragment :=
  if fmt_name_collision f || fmt_unconvertible_shape f then None
  else Some (map (fun ns => mkNs (ns_name ns)
                                 (map (fun c => (fst c, cedar_form (snd c))) (ns_commons ns))
                                 (map (fun e => (fst e, cedar_entdecl (snd e))) (ns_entities ns))
                                 (map (fun a => (fst a, cedar_actdecl (snd a))) (ns_actions ns))) f).
