(* TPERun.v — run command of the TPE model:
   (tpe <prequest> <pentities> <policies> <completions>)  ->
   (tpe_ok <decision|none> ((id bucket residual) ...) ((outcome ...) ...))  |  tpe_none
   one outcome list per completion: the model residual of every policy evaluated on the completion,
   preceded by the consistency verdict of the completion. *)
From Coq Require Import String.
From Cedar Require Export TPE TExprRun.
Open Scope string_scope.

Definition d_str (s : sexp) : option str := match s with SS x => Some x | _ => None end.

Definition d_prequest (s : sexp) : option prequest :=
  match s with
  | SL [SY "prequest"; pt; pi; a; rt; ri; c] =>
      match d_name pt, d_opt d_str pi, d_uid a, d_name rt, d_opt d_str ri, d_opt d_attrs c with
      | Some pt, Some pi, Some a, Some rt, Some ri, Some c => Some (mkPRequest pt pi a rt ri c)
      | _, _, _, _, _, _ => None
      end
  | _ => None
  end.

Definition d_pentity (s : sexp) : option (uid * pentity) :=
  match s with
  | SL [SY "pentity"; u; a; n; t] =>
      match d_uid u, d_opt d_attrs a, d_opt (d_list d_uid) n, d_opt d_attrs t with
      | Some u, Some a, Some n, Some t => Some (u, mkPEntity a n t)
      | _, _, _, _ => None
      end
  | _ => None
  end.

Definition d_tpolicy (s : sexp) : option tpolicy :=
  match s with
  | SL [SY "tpolicy"; SS i; e; c] =>
      match d_effect e, d_texpr c with
      | Some e, Some c => Some (mkTPolicy i e [] c)
      | _, _ => None
      end
  | _ => None
  end.

Definition d_completion (s : sexp) : option (request * entities) :=
  match s with
  | SL [SY "completion"; q; es] =>
      match d_request q, d_entities es with Some q, Some es => Some (q, es) | _, _ => None end
  | _ => None
  end.

Fixpoint e_residual (r : residual) : sexp :=
  match r with
  | RVal v => SL [SY "c"; e_value v]
  | RErr => SL [SY "e"]
  | RVar v => SL [SY "var"; e_var v]
  | RIf c a b => SL [SY "if"; e_residual c; e_residual a; e_residual b]
  | RAnd a b => SL [SY "and"; e_residual a; e_residual b]
  | ROr a b => SL [SY "or"; e_residual a; e_residual b]
  | RUn o a => SL [SY "unop"; e_unop o; e_residual a]
  | RBin o a b => SL [SY "binop"; e_binop o; e_residual a; e_residual b]
  | RExt fn args => SL [SY "ext"; e_name fn; SL (map e_residual args)]
  | RGetAttr a k => SL [SY "getattr"; e_residual a; SS k]
  | RHasAttr a k => SL [SY "hasattr"; e_residual a; SS k]
  | RLike a p => SL [SY "like"; e_residual a; SL (map e_patelem p)]
  | RIs a t => SL [SY "is"; e_residual a; e_name t]
  | RSet items => SL [SY "set"; SL (map e_residual items)]
  | RRecord items => SL [SY "record"; SL (map (fun kv => SL [SS (fst kv); e_residual (snd kv)]) items)]
  end.

Definition e_rbucket (b : rbucket) : sexp :=
  SY (match b with KTrue => "true" | KFalse => "false" | KError => "error" | KResidual => "residual" end).

Definition e_outcome (r : res bool) : sexp :=
  match r with Ok true => SY "sat" | Ok false => SY "unsat" | Err e => SL [SY "error"; e_err e] end.

Definition run_tpe_cmd (args : list sexp) : sexp :=
  match args with
  | [pq; pes; ps; cs] =>
      match d_prequest pq, d_list d_pentity pes, d_list d_tpolicy ps, d_list d_completion cs with
      | Some pq, Some pes, Some ps, Some cs =>
          match tpe call_full pq pes ps with
          | None => SY "tpe_none"
          | Some rs =>
              SL [SY "tpe_ok";
                  match tpe_decision rs with Some d => e_decision d | None => SY "none" end;
                  match tpe_reason rs with Some l => SL [SY "some"; e_list SS l] | None => SY "none" end;
                  e_list (fun p => SL [SS (rp_id p); e_rbucket (bucket_of (rp_res p)); e_residual (rp_res p)]) rs;
                  e_list (fun qe => SL [e_bool (completes pq pes (fst qe) (snd qe));
                                        e_decision (rdecision (reauthorize call_full rs (fst qe) (snd qe)));
                                        e_list (fun p => e_outcome (reval_policy call_full (fst qe) (snd qe) (rp_res p))) rs]) cs]
          end
      | _, _, _, _ => bad_input
      end
  | _ => bad_input
  end.

Definition run_tpe (cmd : string) (args : list sexp) : option sexp :=
  if sym_eqb cmd "tpe" then Some (run_tpe_cmd args) else None.
