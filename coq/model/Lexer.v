(* Lexer.v — C05: maximal-munch lexer for the `match { ... }` block of grammar.lalrpop (LALRPOP's
   built-in lexer: longest match; a literal beats a regex of the same length).
     whitespace  \s*  (Unicode White_Space)          comments  //[^\n\r]*[\n\r]*
     IDENTIFIER  [_a-zA-Z][_a-zA-Z0-9]*   NUMBER [0-9]+   slots \?[_a-zA-Z][_a-zA-Z0-9]*
     STRINGLIT   a quote, (backslash + any char but \n | any char but quote and backslash)*, a quote
   A character that starts no token is a lexing error (None). *)
From Cedar Require Export Tokens.
Open Scope N_scope.

Definition is_ws (c : N) : bool :=
  ((9 <=? c) && (c <=? 13)) || (c =? 32) || (c =? 133) || (c =? 160) || (c =? 5760)
  || ((8192 <=? c) && (c <=? 8202)) || (c =? 8232) || (c =? 8233) || (c =? 8239) || (c =? 8287) || (c =? 12288).
Definition is_alpha_ (c : N) : bool := (c =? 95) || ((65 <=? c) && (c <=? 90)) || ((97 <=? c) && (c <=? 122)).
Definition is_digit (c : N) : bool := (48 <=? c) && (c <=? 57).
Definition is_alnum_ (c : N) : bool := is_alpha_ c || is_digit c.

Fixpoint span (p : N -> bool) (s : str) : str * str :=
  match s with
  | c :: s' => if p c then let (a, b) := span p s' in (c :: a, b) else ([], s)
  | [] => ([], [])
  end.

Definition digits_val (ds : str) : N := fold_left (fun acc d => acc * 10 + (d - 48)) ds 0.

(* the rest of a string literal after the opening quote: (raw inside, text after the closing quote) *)
Fixpoint lex_string (s : str) : option (str * str) :=
  match s with
  | [] => None
  | c :: s' =>
      if c =? 34 then Some ([], s')
      else if c =? 92 then
        match s' with
        | d :: s'' => if d =? 10 then None
                      else match lex_string s'' with Some (raw, r) => Some (c :: d :: raw, r) | None => None end
        | [] => None
        end
      else match lex_string s' with Some (raw, r) => Some (c :: raw, r) | None => None end
  end.

Definition is_eol (c : N) : bool := (c =? 10) || (c =? 13).

(* one token at the head of s (s does not start with whitespace or a comment) *)
Definition lex_one (s : str) : option (token * str) :=
  match s with
  | [] => None
  | c :: s' =>
      if is_alpha_ c then let (a, r) := span is_alnum_ s' in Some (TIdent (c :: a), r)
      else if is_digit c then let (a, r) := span is_digit s' in Some (TNum (digits_val (c :: a)), r)
      else if c =? 34 then match lex_string s' with Some (raw, r) => Some (TStr raw, r) | None => None end
      else if c =? 63 then
        match s' with
        | d :: s'' => if is_alpha_ d then let (a, r) := span is_alnum_ s'' in Some (TSlot (d :: a), r) else None
        | [] => None
        end
      else
        let two := fun (d : N) (t2 t1 : option token) =>
                     match s' with
                     | d' :: s'' => if d' =? d then option_map (fun t => (t, s'')) t2
                                    else option_map (fun t => (t, s')) t1
                     | [] => option_map (fun t => (t, s')) t1
                     end in
        if c =? 64 then Some (TAt, s') else if c =? 46 then Some (TDot, s')
        else if c =? 44 then Some (TComma, s') else if c =? 59 then Some (TSemi, s')
        else if c =? 58 then two 58 (Some TColon2) (Some TColon)
        else if c =? 40 then Some (TLParen, s') else if c =? 41 then Some (TRParen, s')
        else if c =? 123 then Some (TLBrace, s') else if c =? 125 then Some (TRBrace, s')
        else if c =? 91 then Some (TLBrack, s') else if c =? 93 then Some (TRBrack, s')
        else if c =? 61 then two 61 (Some TEqEq) (Some TEq)
        else if c =? 33 then two 61 (Some TNeq) (Some TBang)
        else if c =? 60 then two 61 (Some TLe) (Some TLt)
        else if c =? 62 then two 61 (Some TGe) (Some TGt)
        else if c =? 124 then two 124 (Some TOrOr) None
        else if c =? 38 then two 38 (Some TAndAnd) None
        else if c =? 43 then Some (TPlus, s') else if c =? 45 then Some (TMinus, s')
        else if c =? 42 then Some (TStar, s') else if c =? 47 then Some (TSlash, s')
        else if c =? 37 then Some (TPercent, s') else None
  end.

Definition starts_comment (s : str) : bool :=
  match s with a :: b :: _ => (a =? 47) && (b =? 47) | _ => false end.

(* fuel: one unit per token / whitespace run / comment *)
Fixpoint lex (fuel : nat) (s : str) : option (list token) :=
  match fuel with
  | O => None
  | S f =>
      match s with
      | [] => Some []
      | c :: s' =>
          if is_ws c then lex f (snd (span is_ws s'))
          else if starts_comment s then lex f (snd (span (fun x => negb (is_eol x)) s))
          else match lex_one s with
               | Some (t, r) => match lex f r with Some ts => Some (t :: ts) | None => None end
               | None => None
               end
      end
  end.

Definition lex_text (s : str) : option (list token) := lex (S (length s)) s.
