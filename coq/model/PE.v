(* PE.v — partial evaluation with unknowns (property C13).  Definitions only.
   Mirrors, arm by arm:
     evaluator.rs   Evaluator::partial_interpret_internal (residual arms), eval_if, get_attr,
                    unknown_to_partialvalue, short_circuit_{value_and_residual,residual_and_value,
                    two_typed_residuals}; RestrictedEvaluator::partial_interpret
     ast/expr.rs    Expr::is_projectable, Expr::substitute (untyped), From<Value> for Expr
     ast/request.rs EntityUIDEntry::evaluate, Context::{Value,RestrictedResidual}, Context::substitute
     authorizer.rs  is_authorized_core_internal (six buckets)
     authorizer/partial_response.rs  decision, may/must_be_determining, definitely_satisfied,
                    definitely_errored, reauthorize, concretize_request, EntityUIDEntry::concretize,
                    From<PartialResponse> for Response
   Outside the model (result POut / SOut, excluded by the theorems and skipped by the
   correspondence): converting an extension VALUE back to an expression (From<Value> for Expr
   prints the value), and partial entity stores (Entities::partial). *)
From Coq Require Import String.
From Cedar Require Export Authz.
Open Scope Z_scope.

(* ---- partial values ---- *)
Inductive pval := PVal (v : value) | PRes (e : expr).

(* result of partial_interpret: value | residual | error | outside the model *)
Inductive pres := PV (v : value) | PR (r : expr) | PErr (e : err) | POut.

Definition of_res (r : res value) : pres := match r with Ok v => PV v | Err e => PErr e end.

(* From<Value> for Expr (extension values are outside the model) *)
Fixpoint v2e (v : value) : option expr :=
  match v with
  | VPrim p => Some (Lit p)
  | VSet l =>
      option_map SetE
        ((fix go (l : list value) : option (list expr) :=
            match l with
            | [] => Some []
            | x :: l' => match v2e x, go l' with Some e, Some es => Some (e :: es) | _, _ => None end
            end) l)
  | VRecord l =>
      option_map RecordE
        ((fix go (l : list (str * value)) : option (list (str * expr)) :=
            match l with
            | [] => Some []
            | (k, x) :: l' => match v2e x, go l' with Some e, Some es => Some ((k, e) :: es) | _, _ => None end
            end) l)
  | VExt _ => None
  end.

(* ---- partial requests and stores ---- *)
Inductive pentry := EKnown (u : uid) | EUnknown (ty : option etype).
Inductive pcontext := CUnknown | CValue (r : list (str * value)) | CResidual (m : list (str * expr)).

Record prequest := mkPRequest {
  pprincipal : pentry;
  paction : pentry;
  presource : pentry;
  pctx : pcontext
}.

Record pedata := mkPEdata {
  pattrs : list (str * pval);
  ptags : list (str * value);
  pancestors : list uid
}.
Definition pentities := list (uid * pedata).

Fixpoint find_pentity (u : uid) (es : pentities) : option pedata :=
  match es with
  | [] => None
  | (u', d) :: es' => if uid_eqb u u' then Some d else find_pentity u es'
  end.

(* the part of the store the binary operators look at (tags, ancestors) is always concrete *)
Definition erase_entities (es : pentities) : entities :=
  map (fun ud => (fst ud, mkEdata [] (ptags (snd ud)) (pancestors (snd ud)))) es.

Definition mapper := str -> option value.
Definition no_mapping : mapper := fun _ => None.

Definition var_name (v : var) : str :=
  match v with
  | Principal => s2str "principal" | Action => s2str "action"
  | Resource => s2str "resource" | Context => s2str "context"
  end.

(* Expr::is_projectable: every subexpression is Lit | Unknown | Set | Var | Record *)
Fixpoint is_projectable (e : expr) : bool :=
  match e with
  | Lit _ | Unknown _ _ | Var _ => true
  | SetE items => (fix go (l : list expr) : bool := match l with [] => true | x :: l' => is_projectable x && go l' end) items
  | RecordE items =>
      (fix go (l : list (str * expr)) : bool :=
         match l with [] => true | (_, x) :: l' => is_projectable x && go l' end) items
  | _ => false
  end.

(* Expr::substitute (UntypedSubstitution; And/Or are rebuilt with the folding builders) *)
Fixpoint subst (m : mapper) (e : expr) : expr :=
  match e with
  | Lit _ | Var _ | Slot _ => e
  | Unknown n _ => match m n with Some v => match v2e v with Some x => x | None => e end | None => e end
  | If c t f => If (subst m c) (subst m t) (subst m f)
  | And a b => mk_and (subst m a) (subst m b)
  | Or a b => mk_or (subst m a) (subst m b)
  | UnApp op a => UnApp op (subst m a)
  | BinApp op a b => BinApp op (subst m a) (subst m b)
  | ExtCall fn args => ExtCall fn (map (subst m) args)
  | GetAttr x a => GetAttr (subst m x) a
  | HasAttr x a => HasAttr (subst m x) a
  | Like x p => Like (subst m x) p
  | Is x t => Is (subst m x) t
  | SetE items => SetE (map (subst m) items)
  | RecordE items => RecordE (map (fun kx => (fst kx, subst m (snd kx))) items)
  end.

(* ---- list evaluation: `.map(partial_interpret).collect::<Result<Vec<_>>>()?` then split() ---- *)
Inductive plist := PLOk (l : list pval) | PLErr (e : err) | PLOut.

Definition pmapM (f : expr -> pres) : list expr -> plist :=
  fix go (l : list expr) : plist :=
    match l with
    | [] => PLOk []
    | x :: l' =>
        match f x with
        | PErr e => PLErr e
        | POut => PLOut
        | PV v => match go l' with PLOk r => PLOk (PVal v :: r) | o => o end
        | PR r' => match go l' with PLOk r => PLOk (PRes r' :: r) | o => o end
        end
    end.

Definition pmapM_rec (f : expr -> pres) : list (str * expr) -> plist :=
  fix go (l : list (str * expr)) : plist :=
    match l with
    | [] => PLOk []
    | (_, x) :: l' =>
        match f x with
        | PErr e => PLErr e
        | POut => PLOut
        | PV v => match go l' with PLOk r => PLOk (PVal v :: r) | o => o end
        | PR r' => match go l' with PLOk r => PLOk (PRes r' :: r) | o => o end
        end
    end.

Fixpoint all_vals (l : list pval) : option (list value) :=
  match l with
  | [] => Some []
  | PVal v :: l' => match all_vals l' with Some vs => Some (v :: vs) | None => None end
  | PRes _ :: _ => None
  end.

(* Into<Expr> for every element (split's Right branch) *)
Fixpoint to_exprs (l : list pval) : option (list expr) :=
  match l with
  | [] => Some []
  | PVal v :: l' => match v2e v, to_exprs l' with Some e, Some es => Some (e :: es) | _, _ => None end
  | PRes r :: l' => match to_exprs l' with Some es => Some (r :: es) | None => None end
  end.

Definition finish (pl : plist) (mkv : list value -> pres) (mke : list expr -> expr) : pres :=
  match pl with
  | PLErr e => PErr e
  | PLOut => POut
  | PLOk l =>
      match all_vals l with
      | Some vs => mkv vs
      | None => match to_exprs l with Some es => PR (mke es) | None => POut end
      end
  end.

Definition zip_keys {A B} (ks : list (str * A)) (vs : list B) : list (str * B) :=
  combine (map fst ks) vs.

(* PartialValue -> Expr *)
Definition pres_expr (fallback : expr) (p : pres) : option expr :=
  match p with
  | PV v => v2e v
  | PR r => Some r
  | PErr _ => Some fallback          (* best effort: keep the source expression *)
  | POut => None
  end.

(* short_circuit_value_and_residual / _residual_and_value / _two_typed_residuals *)
Definition sc_value_residual (op : binop) (v1 : value) (e2 : expr) : option pres :=
  match op, v1, e2 with
  | BEq, VPrim (PEntity u), Unknown _ (Some (RTEntity t)) =>
      if name_eqb (uty u) t then None else Some (PV (VBool false))
  | _, _, _ => None
  end.
Definition sc_residual_value (op : binop) (e1 : expr) (v2 : value) : option pres :=
  match op with
  | BAdd | BEq | BMul | BContainsAny => sc_value_residual op v2 e1
  | _ => None
  end.
Definition sc_two_residuals (op : binop) (e1 e2 : expr) : option pres :=
  match op, e1, e2 with
  | BEq, Unknown _ (Some (RTEntity t1)), Unknown _ (Some (RTEntity t2)) =>
      if name_eqb t1 t2 then None else Some (PV (VBool false))
  | _, _, _ => None
  end.

(* outcome of one policy under partial evaluation *)
Inductive pstatus := SSat | SFalse | SErr (e : err) | SRes (r : expr) | SOut.

Section PEval.
  Variable mu : mapper.          (* unknowns_mapper (no_mapping for is_authorized_partial) *)
  Variable sl : slotenv.
  Variable pq : prequest.
  Variable pes : pentities.

  (* unknown_to_partialvalue *)
  Definition unknown_to_pv (n : str) (ty : option rtype) : pres :=
    match mu n, ty with
    | None, _ => PR (Unknown n ty)
    | Some v, None => PV v
    | Some v, Some t => if rtype_eqb (type_of v) t then PV v else PErr ErrType
    end.

  (* EntityUIDEntry::evaluate *)
  Definition peval_entry (v : var) (e : pentry) : pres :=
    match e with
    | EKnown u => PV (VEntity u)
    | EUnknown None => PR (Unknown (var_name v) None)
    | EUnknown (Some t) => PR (Unknown (var_name v) (Some (RTEntity t)))
    end.

  Definition peval_var (v : var) : pres :=
    match v with
    | Principal => peval_entry v (pprincipal pq)
    | Action => peval_entry v (paction pq)
    | Resource => peval_entry v (presource pq)
    | Context =>
        match pctx pq with
        | CUnknown => PR (Unknown (var_name Context) None)
        | CValue r => PV (VRecord r)
        | CResidual m => PR (RecordE m)
        end
    end.

  (* partial_interpret on the attribute expressions of a projectable residual record: only the
     Lit / Var / Unknown / Set / Record arms can be reached *)
  Fixpoint peval_proj (e : expr) : pres :=
    match e with
    | Lit p => PV (VPrim p)
    | Var v => peval_var v
    | Unknown n ty => unknown_to_pv n ty
    | SetE items => finish (pmapM peval_proj items) (fun vs => PV (VSet vs)) SetE
    | RecordE items =>
        finish (pmapM_rec peval_proj items) (fun vs => PV (VRecord (zip_keys items vs)))
               (fun es => RecordE (zip_keys items es))
    | _ => POut
    end.

  (* an attribute of a stored entity: a residual that IS an unknown goes through the mapper *)
  Definition peval_entity_attr (pv : pval) : pres :=
    match pv with
    | PVal v => PV v
    | PRes (Unknown n ty) => unknown_to_pv n ty
    | PRes e => PR e
    end.

  Fixpoint peval (e : expr) : pres :=
    match e with
    | Lit p => PV (VPrim p)
    | Slot s => match slot_lookup s sl with Some u => PV (VEntity u) | None => PErr ErrUnlinkedSlot end
    | Var v => peval_var v
    | Unknown n ty => unknown_to_pv n ty
    | If c t f =>
        match peval c with
        | PV v => match as_bool v with
                  | Ok true => peval t
                  | Ok false => peval f
                  | Err e' => PErr e'
                  end
        | PR g =>
            match pres_expr t (peval t), pres_expr f (peval f) with
            | Some t', Some f' => PR (If g t' f')
            | _, _ => POut
            end
        | o => o
        end
    | And a b =>
        match peval a with
        | PR ra => match pres_expr b (peval b) with Some b' => PR (mk_and ra b') | None => POut end
        | PV v =>
            match as_bool v with
            | Err e' => PErr e'
            | Ok false => PV (VBool false)
            | Ok true =>
                match peval b with
                | PR rb => PR (mk_and (Lit (PBool true)) rb)
                | PV v' => match as_bool v' with Ok y => PV (VBool y) | Err e' => PErr e' end
                | o => o
                end
            end
        | o => o
        end
    | Or a b =>
        match peval a with
        | PR ra => match pres_expr b (peval b) with Some b' => PR (mk_or ra b') | None => POut end
        | PV v =>
            match as_bool v with
            | Err e' => PErr e'
            | Ok true => PV (VBool true)
            | Ok false =>
                match peval b with
                | PR rb => PR (mk_or (Lit (PBool false)) rb)
                | PV v' => match as_bool v' with Ok y => PV (VBool y) | Err e' => PErr e' end
                | o => o
                end
            end
        | o => o
        end
    | UnApp op a =>
        match peval a with
        | PV v => of_res (unary_app op v)
        | PR r => PR (UnApp op r)
        | o => o
        end
    | BinApp op a b =>
        match peval a with
        | PErr e' => PErr e'
        | POut => POut
        | ra =>
            match peval b with
            | PErr e' => PErr e'
            | POut => POut
            | rb =>
                match ra, rb with
                | PV v1, PV v2 => of_res (binary_app (erase_entities pes) op v1 v2)
                | PV v1, PR e2 =>
                    match sc_value_residual op v1 e2 with
                    | Some r => r
                    | None => match v2e v1 with Some e1 => PR (BinApp op e1 e2) | None => POut end
                    end
                | PR e1, PV v2 =>
                    match sc_residual_value op e1 v2 with
                    | Some r => r
                    | None => match v2e v2 with Some e2 => PR (BinApp op e1 e2) | None => POut end
                    end
                | PR e1, PR e2 =>
                    match sc_two_residuals op e1 e2 with
                    | Some r => r
                    | None => PR (BinApp op e1 e2)
                    end
                | _, _ => POut
                end
            end
        end
    | ExtCall fn args =>
        finish (pmapM peval args) (fun vs => of_res (call_ext fn vs)) (ExtCall fn)
    | GetAttr x a =>
        match peval x with
        | PR res =>
            match res with
            | RecordE m =>
                if is_projectable res then
                  match lookup a m with
                  | None => PErr ErrAttrMissing
                  | Some y => peval_proj y
                  end
                else if has_key a m then PR (GetAttr (RecordE m) a)
                else PErr ErrAttrMissing
            | _ => PR (GetAttr res a)
            end
        | PV (VRecord r) => match lookup a r with Some v => PV v | None => PErr ErrAttrMissing end
        | PV (VPrim (PEntity u)) =>
            match find_pentity u pes with
            | None => PErr ErrEntityMissing
            | Some d => match lookup a (pattrs d) with
                        | Some pv => peval_entity_attr pv
                        | None => PErr ErrAttrMissing
                        end
            end
        | PV _ => PErr ErrType
        | o => o
        end
    | HasAttr x a =>
        match peval x with
        | PV (VRecord r) => PV (VBool (has_key a r))
        | PV (VPrim (PEntity u)) =>
            match find_pentity u pes with
            | None => PV (VBool false)
            | Some d => PV (VBool (has_key a (pattrs d)))
            end
        | PV _ => PErr ErrType
        | PR r =>
            match r with
            | RecordE m => if is_projectable r then PV (VBool (has_key a m)) else PR (HasAttr r a)
            | _ => PR (HasAttr r a)
            end
        | o => o
        end
    | Like x p =>
        match peval x with
        | PV v => match as_string v with Ok s => PV (VBool (wildcard p s)) | Err e' => PErr e' end
        | PR r => PR (Like r p)
        | o => o
        end
    | Is x t =>
        match peval x with
        | PV v => match as_entity v with Ok u => PV (VBool (name_eqb (uty u) t)) | Err e' => PErr e' end
        | PR r =>
            match r with
            | Unknown _ (Some (RTEntity t')) => PV (VBool (name_eqb t' t))
            | _ => PR (Is r t)
            end
        | o => o
        end
    | SetE items => finish (pmapM peval items) (fun vs => PV (VSet vs)) SetE
    | RecordE items =>
        finish (pmapM_rec peval items) (fun vs => PV (VRecord (zip_keys items vs)))
               (fun es => RecordE (zip_keys items es))
    end.

  (* Evaluator::partial_evaluate as seen by the authorizer loop *)
  Definition peval_policy (p : policy) : pstatus :=
    match peval (pcondition p) with
    | PV v => match as_bool v with Ok true => SSat | Ok false => SFalse | Err e => SErr e end
    | PR r => SRes r
    | PErr e => SErr e
    | POut => SOut
    end.
End PEval.


(* ---- the partial response: one entry per policy, in evaluation order ---- *)
Record pitem := mkPItem { iid : str; ieff : effect; istat : pstatus }.

Record presponse := mkPResponse {
  pitems : list pitem;
  preq : prequest
}.

(* the statuses are a parameter (as in Authz.v) so that the response-level theorems do not
   depend on the evaluator theorems *)
Definition pitems_with (pstat : policy -> pstatus) (ps : list policy) : list pitem :=
  map (fun p => mkPItem (pid p) (peffect p) (pstat p)) ps.

Definition is_authorized_partial (ps : list policy) (pq : prequest) (pes : pentities) : presponse :=
  mkPResponse (pitems_with (fun p => peval_policy no_mapping (penv p) pq pes p) ps) pq.

Definition is_sat (i : pitem) := match istat i with SSat => true | _ => false end.
Definition is_res (i : pitem) := match istat i with SRes _ => true | _ => false end.
Definition is_err (i : pitem) := match istat i with SErr _ => true | _ => false end.
Definition is_false (i : pitem) := match istat i with SFalse => true | _ => false end.
Definition is_permit (i : pitem) := match ieff i with Permit => true | Forbid => false end.
Definition is_forbid (i : pitem) := negb (is_permit i).

Definition ids_where (f : pitem -> bool) (l : list pitem) : list str := map iid (filter f l).
Definition any_where (f : pitem -> bool) (l : list pitem) : bool := existsb f l.

(* PartialResponse::decision *)
Definition pdecision (l : list pitem) : option decision :=
  match any_where (fun i => is_sat i && is_forbid i) l,
        any_where (fun i => is_sat i && is_permit i) l,
        any_where (fun i => is_res i && is_permit i) l,
        any_where (fun i => is_res i && is_forbid i) l with
  | true, _, _, _ => Some Deny
  | _, false, false, _ => Some Deny
  | false, _, _, true => None
  | false, false, true, false => None
  | false, true, _, false => Some Allow
  end.

(* may_be_determining / must_be_determining / definitely_satisfied / definitely_errored *)
Definition may_be_determining (l : list pitem) : list str :=
  if any_where (fun i => is_sat i && is_forbid i) l
  then ids_where (fun i => (is_sat i || is_res i) && is_forbid i) l
  else ids_where (fun i => (is_sat i && is_permit i) || is_res i) l.

Definition must_be_determining (l : list pitem) : list str :=
  if negb (any_where (fun i => is_sat i && is_forbid i) l) && negb (any_where (fun i => is_res i && is_forbid i) l)
  then ids_where (fun i => is_sat i && is_permit i) l
  else ids_where (fun i => is_sat i && is_forbid i) l.

Definition definitely_satisfied (l : list pitem) : list str := ids_where is_sat l.
Definition definitely_errored (l : list pitem) : list str := ids_where is_err l.
Definition trivially_false (l : list pitem) : list str := ids_where is_false l.

(* From<PartialResponse> for Response: residuals count as (NonValue) errors *)
Definition pconcretize (l : list pitem) : response :=
  mkResponse
    (if any_where (fun i => is_sat i && is_permit i) l && negb (any_where (fun i => is_sat i && is_forbid i) l)
     then Allow else Deny)
    (must_be_determining l)
    (flat_map (fun i => match istat i with
                        | SRes _ => [(iid i, ErrNonValue)]
                        | SErr e => [(iid i, e)]
                        | _ => []
                        end) l).

(* ---- reauthorize ---- *)
(* EntityUIDEntry::concretize *)
Definition concretize_entry (key : str) (m : mapper) (e : pentry) : option pentry :=
  match m key with
  | None => Some e
  | Some (VPrim (PEntity u)) =>
      match e with
      | EKnown _ => None                                   (* VarConflictError *)
      | EUnknown None => Some (EKnown u)
      | EUnknown (Some t) => if name_eqb t (uty u) then Some (EKnown u) else None
      end
  | Some _ => None                                         (* ValueError *)
  end.

Definition dummy_prequest : prequest := mkPRequest (EUnknown None) (EUnknown None) (EUnknown None) CUnknown.

(* RestrictedEvaluator::partial_interpret (no mapper; restricted expressions have no variables) *)
Definition rpeval (e : expr) : pres := peval_proj no_mapping dummy_prequest e.

(* PartialResponse::concretize_request *)
Definition concretize_request (m : mapper) (pq : prequest) : option prequest :=
  match concretize_entry (var_name Principal) m (pprincipal pq),
        concretize_entry (var_name Action) m (paction pq),
        concretize_entry (var_name Resource) m (presource pq) with
  | Some p, Some a, Some r =>
      let ctx1 :=
        match m (var_name Context) with
        | None => Some (pctx pq)
        | Some (VRecord attrs) => match pctx pq with CUnknown => Some (CValue attrs) | _ => None end
        | Some _ => None
        end in
      match ctx1 with
      | None => None
      | Some (CResidual cm) =>
          (* Context::substitute: substitute, then partially interpret the record again *)
          match rpeval (subst m (RecordE cm)) with
          | PV (VRecord r') => Some (mkPRequest p a r (CValue r'))
          | PR (RecordE cm') => Some (mkPRequest p a r (CResidual cm'))
          | _ => None
          end
      | Some c => Some (mkPRequest p a r c)
      end
  | _, _, _ => None
  end.

(* all_residual_policies: Policy::from_when_clause over `true` / `false` / the residual; the
   condition of such a policy is  true && (true && (true && body))  built with the folding `and` *)
Definition T := Lit (PBool true).
Definition residual_condition (st : pstatus) : option expr :=
  match st with
  | SSat => Some (mk_and T (mk_and T (mk_and T T)))
  | SFalse | SErr _ => Some (mk_and T (mk_and T (mk_and T (Lit (PBool false)))))
  | SRes r => Some (mk_and T (mk_and T (mk_and T r)))
  | SOut => None
  end.

Definition status_of_pres (p : pres) : pstatus :=
  match p with
  | PV v => match as_bool v with Ok true => SSat | Ok false => SFalse | Err e => SErr e end
  | PR r => SRes r
  | PErr e => SErr e
  | POut => SOut
  end.

Definition reauthorize (m : mapper) (es : pentities) (r : presponse) : option presponse :=
  match concretize_request m (preq r) with
  | None => None
  | Some q' =>
      Some (mkPResponse
              (map (fun i => mkPItem (iid i) (ieff i)
                               (match residual_condition (istat i) with
                                | Some c => status_of_pres (peval m [] q' es c)
                                | None => SOut
                                end)) (pitems r))
              q')
  end.

(* ---- well-typed, complete substitutions (used by the theorems and by the driver) ---- *)
(* every unknown of e is mapped, to a value that has an expression form and the declared type *)
Fixpoint wt_expr (m : mapper) (e : expr) : bool :=
  match e with
  | Lit _ | Var _ | Slot _ => true
  | Unknown n ty =>
      match m n with
      | None => false
      | Some v => match v2e v with
                  | None => false
                  | Some _ => match ty with None => true | Some t => rtype_eqb (type_of v) t end
                  end
      end
  | If c t f => wt_expr m c && wt_expr m t && wt_expr m f
  | And a b | Or a b | BinApp _ a b => wt_expr m a && wt_expr m b
  | UnApp _ a | GetAttr a _ | HasAttr a _ | Like a _ | Is a _ => wt_expr m a
  | ExtCall _ args | SetE args =>
      (fix go (l : list expr) : bool := match l with [] => true | x :: l' => wt_expr m x && go l' end) args
  | RecordE items =>
      (fix go (l : list (str * expr)) : bool :=
         match l with [] => true | (_, x) :: l' => wt_expr m x && go l' end) items
  end.

(* embedding of a concrete store / request *)
Definition embed_entities (es : entities) : pentities :=
  map (fun ud => (fst ud, mkPEdata (map (fun kv => (fst kv, PVal (snd kv))) (eattrs (snd ud)))
                                   (etags (snd ud)) (eancestors (snd ud)))) es.
Definition embed_request (q : request) : prequest :=
  mkPRequest (EKnown (rprincipal q)) (EKnown (raction q)) (EKnown (rresource q)) (CValue (rcontext q)).
