(* EstSet.v — the JSON policy-set format: staticPolicies / templates / templateLinks.
   Mirrors est/policy_set.rs (struct PolicySet, TemplateLink, TryFrom<PolicySet> for ast::PolicySet)
   and cedar-policy/src/api.rs PolicySet::est (static policies, templates, links of a set).
   The policy-set operations are those of PolicySet.v (C08).  Definitions only. *)
From Coq Require Import String.
From Cedar Require Export EstPolicy PolicySet.
Open Scope Z_scope.

(* the content of an est::PolicySet after conversion of each member *)
Record link := mkLink { l_template : str; l_new : str; l_env : slotenv }.
Record estset := mkEstSet {
  es_templates : list (str * template);
  es_statics : list (str * template);
  es_links : list link
}.

(* ---- -> JSON ---- *)
Definition env_to_est (env : slotenv) : json :=
  JObj (map (fun su => (slot_str (fst su), JObj [(K "__entity", uid_json (snd su))])) env).

Definition link_to_est (l : link) : json :=
  JObj [(K "templateId", JStr (l_template l)); (K "newId", JStr (l_new l)); (K "values", env_to_est (l_env l))].

Definition members_to_est (m : list (str * template)) : json :=
  JObj (map (fun it => (fst it, template_to_est (snd it))) m).

Definition estset_to_est (d : estset) : json :=
  JObj [(K "templates", members_to_est (es_templates d));
        (K "staticPolicies", members_to_est (es_statics d));
        (K "templateLinks", JArr (map link_to_est (es_links d)))].

(* api::PolicySet::est on the ast-level set: static policies, real templates, links *)
Definition is_static_id (s : pset) (i : str) : bool :=
  match alookup i (ps_links s) with Some p => p_is_static p | None => false end.

Definition pset_to_estset (s : pset) : estset :=
  mkEstSet
    (* api::PolicySet keeps only templates WITH slots in its `templates` map (from_est / from_ast use
       ast::PolicySet::templates()); a slot-free entry of `templates` stays in the ast set only *)
    (filter (fun it => negb (is_static_id s (fst it)) && negb (t_is_static (snd it))) (ps_templates s))
    (flat_map (fun ip => if p_is_static (snd ip) then [(fst ip, ptemplate (snd ip))] else []) (ps_links s))
    (flat_map (fun ip => if p_is_static (snd ip) then []
                         else [mkLink (tid (ptemplate (snd ip))) (fst ip) (penv (snd ip))]) (ps_links s)).

(* ---- JSON -> ---- *)
Fixpoint est_to_env (l : list (str * json)) : res slotenv :=
  match l with
  | [] => Ok []
  | (k, v) :: l' =>
      match slot_of k with
      | Some s => do u <- uidjson_to_uid v; do rest <- est_to_env l'; Ok ((s, u) :: rest)
      | None => bad
      end
  end.

Definition est_to_link (j : json) : res link :=
  match j with
  | JObj fs =>
      if keys_exact ["templateId"; "newId"; "values"]%string fs then
        match jget (K "templateId") fs, jget (K "newId") fs, jget (K "values") fs with
        | Some (JStr t), Some (JStr n), Some (JObj vs) => do env <- est_to_env vs; Ok (mkLink t n env)
        | _, _, _ => bad
        end
      else bad
  | _ => bad
  end.

Fixpoint est_to_members (l : list (str * json)) : res (list (str * template)) :=
  match l with
  | [] => Ok []
  | (id, pj) :: l' => do t <- est_to_template_nocheck id pj; do rest <- est_to_members l'; Ok ((id, t) :: rest)
  end.

Definition est_to_estset_nocheck (j : json) : res estset :=
  match j with
  | JObj fs =>
      if keys_exact ["templates"; "staticPolicies"; "templateLinks"]%string fs then
        match jget (K "templates") fs, jget (K "staticPolicies") fs, jget (K "templateLinks") fs with
        | Some (JObj ts), Some (JObj ss), Some (JArr ls) =>
            do st <- est_to_members ss;
            do tm <- est_to_members ts;
            do lk <- mapM est_to_link ls;
            Ok (mkEstSet tm st lk)
        | _, _, _ => bad
        end
      else bad
  | _ => bad
  end.

Definition est_to_estset (j : json) : res estset :=
  if json_nodup j then est_to_estset_nocheck j else bad.

(* TryFrom<est::PolicySet> for ast::PolicySet: statics, then templates, then links *)
Definition lift {A} (r : ores A) : res A := match r with OOk a => Ok a | OErr _ => bad end.

Fixpoint add_statics (s : pset) (l : list (str * template)) : res pset :=
  match l with
  | [] => Ok s
  | (_, t) :: l' =>
      if t_is_static t then do s' <- lift (ps_add_static s t); add_statics s' l' else bad
  end.
Fixpoint add_templates (s : pset) (l : list (str * template)) : res pset :=
  match l with
  | [] => Ok s
  | (_, t) :: l' => do s' <- lift (ps_add_template s t); add_templates s' l'
  end.
Fixpoint add_links (s : pset) (l : list link) : res pset :=
  match l with
  | [] => Ok s
  | k :: l' => do s' <- lift (ps_link s (l_template k) (l_new k) (l_env k)); add_links s' l'
  end.

Definition build_pset (d : estset) : res pset :=
  do s1 <- add_statics empty_pset (es_statics d);
  do s2 <- add_templates s1 (es_templates d);
  add_links s2 (es_links d).

Definition est_to_pset (j : json) : res pset := do d <- est_to_estset j; build_pset d.
