(* NoPanicRun.v — C20 command family: the checked (explicit-panic) transcriptions of NoPanic.v.
     (np_fuzzy key (w ...) none|n)  -> (ok (some w)) | (ok none) | (panic)
     (np_lev w1 w2)                 -> (ok n) | (panic)
     (np_like (pat ...) text)       -> (ok true|false) | (fuel) | (panic)
     (np_inrange s1 s2)             -> (ok true|false) | (noparse) | (panic)
     (np_display_extn fn (a ...))   -> (ok str) | (panic)                                                     *)
From Coq Require Import String.
From Cedar Require Export NoPanic NoPanicUtf8 Codec.
Open Scope string_scope.

Definition e_pres {A} (f : A -> sexp) (r : pres A) : sexp :=
  match r with POk a => e_tag "ok" [f a] | Panic _ => e_tag "panic" [] end.

Definition run_np_fuzzy (args : list sexp) : sexp :=
  match args with
  | [SS key; ws; m] =>
      match d_list d_str ws with
      | Some ws =>
          let maxd := match m with SI z => Some (Z.to_N z) | _ => None end in
          e_pres (fun o => match o with Some w => e_tag "some" [SS w] | None => SY "none" end)
                 (fuzzy_search_limited key ws maxd)
      | None => bad_input
      end
  | _ => bad_input
  end.

Definition run_np_lev (args : list sexp) : sexp :=
  match args with
  | [SS a; SS b] => e_pres (fun n => SI (Z.of_N n)) (levenshtein a b)
  | _ => bad_input
  end.

Definition run_np_like (args : list sexp) : sexp :=
  match args with
  | [p; SS s] => match d_list d_patelem p with
                 | Some p => match wildcard_indexed p s with
                             | POk (Some b) => e_tag "ok" [e_bool b]
                             | POk None => e_tag "fuel" []
                             | Panic _ => e_tag "panic" []
                             end
                 | None => bad_input
                 end
  | _ => bad_input
  end.

Definition run_np_inrange (args : list sexp) : sexp :=
  match args with
  | [SS a; SS b] => match ip_in_range_strs_checked a b with
                    | POk (Some r) => e_tag "ok" [e_bool r]
                    | POk None => e_tag "noparse" []
                    | Panic _ => e_tag "panic" []
                    end
  | _ => bad_input
  end.

Definition run_np_display_extn (args : list sexp) : sexp :=
  match args with
  | [SS fn; a] => match d_list d_str a with
                  | Some a => e_pres SS (display_extn_multi fn a)
                  | None => bad_input
                  end
  | _ => bad_input
  end.

(* (np_two s c): contains_at_least_two at byte level *)
Definition run_np_two (args : list sexp) : sexp :=
  match args with
  | [SS s; SI c] => e_pres e_bool (contains_at_least_two_checked s (Z.to_N c))
  | _ => bad_input
  end.

Definition run_nopanic (cmd : string) (args : list sexp) : option sexp :=
  if sym_eqb cmd "np_fuzzy" then Some (run_np_fuzzy args)
  else if sym_eqb cmd "np_lev" then Some (run_np_lev args)
  else if sym_eqb cmd "np_like" then Some (run_np_like args)
  else if sym_eqb cmd "np_inrange" then Some (run_np_inrange args)
  else if sym_eqb cmd "np_display_extn" then Some (run_np_display_extn args)
  else if sym_eqb cmd "np_two" then Some (run_np_two args)
  else None.
