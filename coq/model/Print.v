(* Print.v — C05 stage 2: the expression / policy printer, AST -> text.
   Rust counterparts: Display for ast::Expr (= est::Expr printer after the lossless AST->EST
   conversion; est/expr.rs: BoundedDisplay for ExprNoExt / ExtFuncCall, maybe_with_parens,
   display_cedarvaluejson for literals), Display for Name / EntityUID (Eid::escaped) / Pattern /
   Var / SlotId, is_normalized_ident (ast/name.rs), Display for TemplateBody / Annotations /
   PrincipalOrResourceConstraint::display / ActionConstraint (ast/policy.rs, ast/annotation.rs).
   The printer produces the exact text (spacing included); it is compared with to_string() by
   string equality in the check. *)
From Coq Require Import String.
From Cedar Require Export Unescape.
Open Scope N_scope.

Definition ascii (s : String.string) : str := s2str s.

(* decimal rendering of integers (i64::fmt) *)
Fixpoint dec_digits (fuel : nat) (n : N) (acc : str) : str :=
  match fuel with
  | O => acc
  | S f => let acc' := (48 + n mod 10) :: acc in
           if n / 10 =? 0 then acc' else dec_digits f (n / 10) acc'
  end.
Definition show_N (n : N) : str := dec_digits 64 n [].
Definition show_Z (z : Z) : str :=
  if (z <? 0)%Z then 45 :: show_N (Z.to_N (- z)) else show_N (Z.to_N z).

(* ^[_a-zA-Z][_a-zA-Z0-9]*$ *)
Definition is_ident_start (c : N) : bool :=
  (c =? 95) || ((65 <=? c) && (c <=? 90)) || ((97 <=? c) && (c <=? 122)).
Definition is_ident_char (c : N) : bool := is_ident_start c || ((48 <=? c) && (c <=? 57)).
Definition reserved_ids : list str :=
  map ascii ["true"; "false"; "if"; "then"; "else"; "in"; "is"; "like"; "has"; "__cedar"]%string.
Definition is_normalized_ident (s : str) : bool :=
  match s with
  | [] => false
  | c :: s' => is_ident_start c && forallb is_ident_char s' && negb (existsb (str_eqb s) reserved_ids)
  end.

(* extension functions with CallStyle::MethodStyle (Extensions::all_available) *)
Definition method_style_fns : list str :=
  map ascii ["lessThan"; "lessThanOrEqual"; "greaterThan"; "greaterThanOrEqual";
             "isIpv4"; "isIpv6"; "isLoopback"; "isMulticast"; "isInRange";
             "offset"; "durationSince"; "toDate"; "toTime"; "toMilliseconds"; "toSeconds";
             "toMinutes"; "toHours"; "toDays"]%string.
Definition is_method_style (fn : name) : bool :=
  match fn with [b] => existsb (str_eqb b) method_style_fns | _ => false end.

Fixpoint join (sep : str) (l : list str) : str :=
  match l with
  | [] => []
  | [x] => x
  | x :: l' => x ++ sep ++ join sep l'
  end.

Definition show_name (n : name) : str := join [58; 58] n.

Definition show_var (v : var) : str :=
  ascii (match v with Principal => "principal" | Action => "action" | Resource => "resource" | Context => "context" end)%string.
Definition show_slot (s : slot) : str :=
  ascii (match s with SlotPrincipal => "?principal" | SlotResource => "?resource" end)%string.

Section Printer.
  Variable np : N -> bool.
  Variable ge : N -> bool.

  Definition quoted (s : str) : str := 34 :: escape_debug np ge s ++ [34].
  Definition show_uid (u : uid) : str := show_name (uty u) ++ [58; 58] ++ quoted (ueid u).

  (* display_cedarvaluejson on literals *)
  Definition show_prim (p : prim) : str :=
    match p with
    | PBool true => ascii "true"
    | PBool false => ascii "false"
    | PLong z => if (z <? 0)%Z then 40 :: show_Z z ++ [41] else show_Z z
    | PString s => quoted s
    | PEntity u => show_uid u
    end.

  (* maybe_with_parens: which constructors print at Member level *)
  Definition bare_operand (e : expr) : bool :=
    match e with
    | Lit _ | Var _ | Slot _ | Unknown _ _ | SetE _ | RecordE _ | GetAttr _ _ | ExtCall _ _ => true
    | UnApp UIsEmpty _ => true
    | BinApp (BContains | BContainsAll | BContainsAny | BGetTag | BHasTag) _ _ => true
    | _ => false
    end.

  Definition binop_infix (op : binop) : option str :=
    match op with
    | BEq => Some (ascii " == ") | BLess => Some (ascii " < ") | BLessEq => Some (ascii " <= ")
    | BAdd => Some (ascii " + ") | BSub => Some (ascii " - ") | BMul => Some (ascii " * ")
    | BIn => Some (ascii " in ")
    | _ => None
    end%string.
  Definition binop_method (op : binop) : str :=
    ascii (match op with
           | BContains => ".contains(" | BContainsAll => ".containsAll(" | BContainsAny => ".containsAny("
           | BGetTag => ".getTag(" | _ => ".hasTag("
           end)%string.
  (* left operand printed bare when it is the same left-associative operator *)
  Definition same_assoc (op : binop) (l : expr) : bool :=
    match op, l with
    | BAdd, BinApp BAdd _ _ | BSub, BinApp BSub _ _ | BMul, BinApp BMul _ _ => true
    | _, _ => false
    end.

  Definition wrap (b : bool) (s : str) : str := if b then s else 40 :: s ++ [41].

  Fixpoint show_expr (e : expr) : str :=
    let mwp := fun x => wrap (bare_operand x) (show_expr x) in
    match e with
    | Lit p => show_prim p
    | Var v => show_var v
    | Slot s => show_slot s
    | Unknown n _ => ascii "unknown(" ++ quoted n ++ [41]
    | If c t f => ascii "if " ++ show_expr c ++ ascii " then " ++ show_expr t ++ ascii " else " ++ show_expr f
    | And a b =>
        (match a with And _ _ => show_expr a | _ => mwp a end) ++ ascii " && " ++ mwp b
    | Or a b =>
        (match a with Or _ _ => show_expr a | _ => mwp a end) ++ ascii " || " ++ mwp b
    | UnApp UNot a => 33 :: mwp a
    | UnApp UNeg a => 45 :: 40 :: show_expr a ++ [41]
    | UnApp UIsEmpty a => mwp a ++ ascii ".isEmpty()"
    | BinApp op a b =>
        match binop_infix op with
        | Some t => (if same_assoc op a then show_expr a else mwp a) ++ t ++ mwp b
        | None => mwp a ++ binop_method op ++ show_expr b ++ [41]
        end
    | ExtCall fn args =>
        let commas := fun l => join [44; 32] (map show_expr l) in
        match is_method_style fn, args with
        | true, r :: rest => mwp r ++ [46] ++ show_name fn ++ [40] ++ commas rest ++ [41]
        | _, _ => show_name fn ++ [40] ++ commas args ++ [41]
        end
    | GetAttr a k =>
        mwp a ++ (if is_normalized_ident k then 46 :: k else 91 :: quoted k ++ [93])
    | HasAttr a k =>
        mwp a ++ ascii " has " ++ (if is_normalized_ident k then k else quoted k)
    | Like a p => mwp a ++ ascii " like " ++ 34 :: show_pattern np ge p ++ [34]
    | Is a t => mwp a ++ ascii " is " ++ show_name t
    | SetE items => 91 :: join [44; 32] (map show_expr items) ++ [93]
    | RecordE items =>
        123 :: join [44; 32]
                 ((fix go (l : list (str * expr)) : list str :=
                     match l with
                     | [] => []
                     | (k, v) :: l' =>
                         ((if is_normalized_ident k then k else quoted k) ++ [58; 32] ++ show_expr v) :: go l'
                     end) items) ++ [125]
    end.

  (* ---- policies: Display for TemplateBody ---- *)
  Definition show_eref (s : slot) (r : eref) : str :=
    match r with RefUid u => show_uid u | RefSlot => show_slot s end.
  Definition show_prconstraint (v : var) (s : slot) (c : prconstraint) : str :=
    match c with
    | CAny => show_var v
    | CEq r => show_var v ++ ascii " == " ++ show_eref s r
    | CIn r => show_var v ++ ascii " in " ++ show_eref s r
    | CIsIn t r => show_var v ++ ascii " is " ++ show_name t ++ ascii " in " ++ show_eref s r
    | CIs t => show_var v ++ ascii " is " ++ show_name t
    end.
  Definition show_aconstraint (c : aconstraint) : str :=
    match c with
    | AAny => ascii "action"
    | AIn us => ascii "action in [" ++ join [44] (map show_uid us) ++ [93]
    | AEq u => ascii "action == " ++ show_uid u
    end.
  Definition show_effect (e : effect) : str := ascii (match e with Permit => "permit" | Forbid => "forbid" end)%string.
  Definition show_annotations (a : annotations) : str :=
    flat_map (fun kv => 64 :: fst kv ++ [40] ++ quoted (snd kv) ++ [41; 10]) a.
  Definition show_template (t : template) : str :=
    show_annotations (tannot t) ++ show_effect (teffect t) ++ ascii "(" ++ [10; 32; 32]
    ++ show_prconstraint Principal SlotPrincipal (tprincipal t) ++ [44; 10; 32; 32]
    ++ show_aconstraint (taction t) ++ [44; 10; 32; 32]
    ++ show_prconstraint Resource SlotResource (tresource t) ++ [10; 41]
    ++ match tbody t with
       | Some e => ascii " when {" ++ [10; 32; 32] ++ show_expr e ++ [10; 125; 59]
       | None => [59]
       end.
End Printer.
