(* PrintToks.v — C05: the expression printer of Print.v at token level (same case analysis as
   show_expr: maybe_with_parens, same-operator left operands bare, -(e), parenthesised negative
   literals, method vs function style, .a vs ["a"]); text between quotes is the escaped form.
   The check verifies on every printed object that lexing the text of show_expr gives exactly
   print_toks (c05 run command c05_toks_check). *)
From Coq Require Import String.
From Cedar Require Export Tokens Print.
Open Scope N_scope.

Definition tid (s : string) : token := TIdent (ascii s).

Fixpoint name_toks (n : name) : list token :=
  match n with
  | [] => []
  | [x] => [TIdent x]
  | x :: n' => TIdent x :: TColon2 :: name_toks n'
  end.

Fixpoint commas (l : list (list token)) : list token :=
  match l with
  | [] => []
  | [x] => x
  | x :: l' => x ++ TComma :: commas l'
  end.

Section PrinterToks.
  Variable np : N -> bool.
  Variable ge : N -> bool.

  Definition tstr (s : str) : token := TStr (escape_debug np ge s).
  Definition uid_toks (u : uid) : list token := name_toks (uty u) ++ [TColon2; tstr (ueid u)].

  Definition prim_toks (p : prim) : list token :=
    match p with
    | PBool true => [tid "true"]
    | PBool false => [tid "false"]
    | PLong z => if (z <? 0)%Z then [TLParen; TMinus; TNum (Z.to_N (- z)); TRParen] else [TNum (Z.to_N z)]
    | PString s => [tstr s]
    | PEntity u => uid_toks u
    end.

  Definition binop_tok (op : binop) : option token :=
    match op with
    | BEq => Some TEqEq | BLess => Some TLt | BLessEq => Some TLe
    | BAdd => Some TPlus | BSub => Some TMinus | BMul => Some TStar
    | BIn => Some (tid "in")
    | _ => None
    end.
  Definition binop_method_name (op : binop) : token :=
    match op with
    | BContains => tid "contains" | BContainsAll => tid "containsAll" | BContainsAny => tid "containsAny"
    | BGetTag => tid "getTag" | _ => tid "hasTag"
    end.

  Definition wrapt (b : bool) (ts : list token) : list token := if b then ts else TLParen :: ts ++ [TRParen].
  Definition key_tok (k : str) : token := if is_normalized_ident k then TIdent k else tstr k.

  Fixpoint print_toks (e : expr) : list token :=
    let mwp := fun x => wrapt (bare_operand x) (print_toks x) in
    match e with
    | Lit p => prim_toks p
    | Var v => [TIdent (show_var v)]
    | Slot SlotPrincipal => [TSlot (ascii "principal")]
    | Slot SlotResource => [TSlot (ascii "resource")]
    | Unknown n _ => [tid "unknown"; TLParen; tstr n; TRParen]
    | If c t f => tid "if" :: print_toks c ++ tid "then" :: print_toks t ++ tid "else" :: print_toks f
    | And a b => (match a with And _ _ => print_toks a | _ => mwp a end) ++ TAndAnd :: mwp b
    | Or a b => (match a with Or _ _ => print_toks a | _ => mwp a end) ++ TOrOr :: mwp b
    | UnApp UNot a => TBang :: mwp a
    | UnApp UNeg a => TMinus :: TLParen :: print_toks a ++ [TRParen]
    | UnApp UIsEmpty a => mwp a ++ [TDot; tid "isEmpty"; TLParen; TRParen]
    | BinApp op a b =>
        match binop_tok op with
        | Some t => (if same_assoc op a then print_toks a else mwp a) ++ t :: mwp b
        | None => mwp a ++ TDot :: binop_method_name op :: TLParen :: print_toks b ++ [TRParen]
        end
    | ExtCall fn args =>
        match is_method_style fn, args with
        | true, r :: rest => mwp r ++ TDot :: name_toks fn ++ TLParen :: commas (map print_toks rest) ++ [TRParen]
        | _, _ => name_toks fn ++ TLParen :: commas (map print_toks args) ++ [TRParen]
        end
    | GetAttr a k => mwp a ++ (if is_normalized_ident k then [TDot; TIdent k] else [TLBrack; tstr k; TRBrack])
    | HasAttr a k => mwp a ++ [tid "has"; key_tok k]
    | Like a p => mwp a ++ [tid "like"; TStr (show_pattern np ge p)]
    | Is a t => mwp a ++ tid "is" :: name_toks t
    | SetE items => TLBrack :: commas (map print_toks items) ++ [TRBrack]
    | RecordE items =>
        TLBrace :: commas ((fix go (l : list (str * expr)) : list (list token) :=
                              match l with
                              | [] => []
                              | (k, v) :: l' => (key_tok k :: TColon :: print_toks v) :: go l'
                              end) items) ++ [TRBrace]
    end.
End PrinterToks.
