(* RunAll.v — top-level dispatcher over all command families.
   To add a family: define  run_xxx : string -> list sexp -> option sexp  in your own file,
   Require it here and append it to `dispatchers`. *)
From Coq Require Import String.
From Cedar Require Export Run.
From Cedar Require Export ConformRun.
From Cedar Require Export TExprRun.
From Cedar Require Export SymLitRun.

Definition dispatchers : list (string -> list sexp -> option sexp) :=
  [ run_core
  ; run_conform
  ; run_texpr
  ; run_symlit
  ].

Fixpoint dispatch (ds : list (string -> list sexp -> option sexp)) (cmd : string) (args : list sexp) : sexp :=
  match ds with
  | [] => SY "unknown_command"
  | d :: ds' => match d cmd args with Some r => r | None => dispatch ds' cmd args end
  end.

Definition run (s : sexp) : sexp :=
  match s with
  | SL (SY cmd :: args) => dispatch dispatchers cmd args
  | _ => bad_input
  end.
