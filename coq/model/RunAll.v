(* RunAll.v — top-level dispatcher over all command families. *)
From Coq Require Import String.
From Cedar Require Export Run.

Definition run (s : sexp) : sexp :=
  match s with
  | SL (SY cmd :: args) =>
      match run_core cmd args with
      | Some r => r
      | None => SY "unknown_command"
      end
  | _ => bad_input
  end.
