(* RunAll.v — top-level dispatcher over all command families.
   To add a family: define  run_xxx : string -> list sexp -> option sexp  in your own file,
   Require it here and append it to `dispatchers`. *)
From Coq Require Import String.
From Cedar Require Export Run.
From Cedar Require Export ConformRun.
From Cedar Require Export TExprRun.
From Cedar Require Export TCRun.
From Cedar Require Export ParseRun.
From Cedar Require Export Fmt.
From Cedar Require Export EstRun.
From Cedar Require Export PERun.
From Cedar Require Export PolicySetRun.
From Cedar Require Export Batched.
From Cedar Require Export TypecheckRun.
From Cedar Require Export SchemaSynRun.
From Cedar Require Export ExtParse.
From Cedar Require Export Level.
From Cedar Require Export ManifestRun.
From Cedar Require Export EntJsonRun.
From Cedar Require Export FfiRun.
From Cedar Require Export TPERun.
From Cedar Require Export SymLitRun.
From Cedar Require Export NoPanicRun.

Definition dispatchers : list (string -> list sexp -> option sexp) :=
  [ run_core
  ; run_conform
  ; run_texpr
  ; run_tc
  ; run_c05
  ; run_fmt
  ; run_formats
  ; run_pe
  ; run_pset
  ; run_batched
  ; run_typecheck
  ; run_schema_syn
  ; run_ext
  ; run_level
  ; run_manifest
  ; run_entjson
  ; run_ffi
  ; run_tpe
  ; run_symlit
  ; run_nopanic
  ].

Fixpoint dispatch (ds : list (string -> list sexp -> option sexp)) (cmd : string) (args : list sexp) : sexp :=
  match ds with
  | [] => SY "unknown_command"
  | d :: ds' => match d cmd args with Some r => r | None => dispatch ds' cmd args end
  end.

Definition run (s : sexp) : sexp :=
  match s with
  | SL (SY cmd :: args) => dispatch dispatchers cmd args
  | _ => bad_input
  end.
