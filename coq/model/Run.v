(* Run.v — command dispatcher used by both the extracted driver and cases.v.
   Each command is (cmd arg ...); the answer is an S-expression. *)
From Coq Require Import String.
From Cedar Require Export Codec Like.
Open Scope string_scope.

Definition run_eval (args : list sexp) : sexp :=
  match args with
  | [sl; q; es; e] =>
      match d_slotenv sl, d_request q, d_entities es, d_expr e with
      | Some sl, Some q, Some es, Some e => e_res e_value (eval sl q es e)
      | _, _, _, _ => bad_input
      end
  | _ => bad_input
  end.

Definition run_authorize (args : list sexp) : sexp :=
  match args with
  | [ps; q; es] =>
      match d_list d_policy ps, d_request q, d_entities es with
      | Some ps, Some q, Some es => e_response (is_authorized ps q es)
      | _, _, _ => bad_input
      end
  | _ => bad_input
  end.

(* (like_loop <pattern> <str>): the transcription of the Rust two-pointer loop *)
Definition run_like_loop (args : list sexp) : sexp :=
  match args with
  | [p; SS s] => match d_list d_patelem p with
                 | Some p => e_bool (wildcard_loop p s)
                 | None => bad_input
                 end
  | _ => bad_input
  end.

Definition run_core (cmd : string) (args : list sexp) : option sexp :=
  if sym_eqb cmd "eval" then Some (run_eval args)
  else if sym_eqb cmd "authorize" then Some (run_authorize args)
  else if sym_eqb cmd "like_loop" then Some (run_like_loop args)
  else None.
