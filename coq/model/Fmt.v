(* Fmt.v — C12: the formatter's relational specification as an executable validator.
   `clex` is a lexer for the token regexes of cedar-policy-formatter/src/pprint/token.rs (logos),
   with comments kept as first-class items (the formatter re-attaches them through
   lexer.rs get_token_stream / token.rs get_comment, which trim them).  It is a single
   structural pass over the scalar values (a mode automaton), so it is total without fuel.
   `fmt_okb inp out` = both texts lex, to the same items in the same order (whitespace free).
   Model layer: definitions only. *)
From Coq Require Import String.
From Cedar Require Export Sexp.

Inductive token :=
| TWord (s : str)            (* [_a-zA-Z][_a-zA-Z0-9]* : identifiers and the 17 keywords (the keyword
                                class is a function of the text, logos priorities) *)
| TNum (s : str)             (* [0-9]+ *)
| TStr (s : str)             (* string literal regex of token.rs (quote, then escaped-any-but-newline or
                                non-quote non-backslash, then quote); raw text including the quotes *)
| TSlot (s : str)            (* ?principal | ?resource *)
| TSym (s : str).            (* punctuation / operators *)

Inductive item :=
| ITok (t : token)
| ICom (s : str).            (* //[^\n\r]*  with trailing white space trimmed *)

(* \s of the regex crate = char::is_whitespace = Unicode White_Space *)
Definition is_ws (c : N) : bool :=
  ((9 <=? c) && (c <=? 13) || (c =? 32) || (c =? 133) || (c =? 160) || (c =? 5760)
   || ((8192 <=? c) && (c <=? 8202)) || (c =? 8232) || (c =? 8233) || (c =? 8239)
   || (c =? 8287) || (c =? 12288))%N.

Definition is_digit (c : N) : bool := ((48 <=? c) && (c <=? 57))%N.
Definition is_word_start (c : N) : bool :=
  ((c =? 95) || ((65 <=? c) && (c <=? 90)) || ((97 <=? c) && (c <=? 122)))%N.
Definition is_word_char (c : N) : bool := is_word_start c || is_digit c.
Definition is_eol (c : N) : bool := ((c =? 10) || (c =? 13))%N.

Fixpoint drop_ws (s : str) : str :=
  match s with
  | c :: s' => if is_ws c then drop_ws s' else s
  | [] => []
  end.
(* acc is the comment text reversed; str::trim on the right *)
Definition finish_comment (acc : str) : str := rev (drop_ws acc).

Inductive mode :=
| MTop
| MWord (acc : str)
| MNum (acc : str)
| MSlot (acc : str)
| MStr (acc : str) (esc : bool)
| MCom (acc : str).

Inductive step :=
| Absorb (m : mode) (emit : option item)     (* the character belongs to the current item *)
| Restart (emit : option item)               (* the current item ended before this character *)
| Fail.

Definition slot_ok (s : str) : bool :=
  str_eqb s (s2str "?principal") || str_eqb s (s2str "?resource").

Definition continue (m : mode) (c : N) : step :=
  match m with
  | MTop => Restart None
  | MWord a => if is_word_char c then Absorb (MWord (c :: a)) None else Restart (Some (ITok (TWord (rev a))))
  | MNum a => if is_digit c then Absorb (MNum (c :: a)) None else Restart (Some (ITok (TNum (rev a))))
  | MSlot a => if is_word_char c then Absorb (MSlot (c :: a)) None
               else if slot_ok (rev a) then Restart (Some (ITok (TSlot (rev a)))) else Fail
  | MStr a true => if (c =? 10)%N then Fail else Absorb (MStr (c :: a) false) None
  | MStr a false =>
      if (c =? 34)%N then Absorb MTop (Some (ITok (TStr (rev (c :: a)))))
      else if (c =? 92)%N then Absorb (MStr (c :: a) true) None
      else Absorb (MStr (c :: a) false) None
  | MCom a => if is_eol c then Restart (Some (ICom (finish_comment a))) else Absorb (MCom (c :: a)) None
  end.

Definition push (e : option item) (out : list item) : list item :=
  match e with Some i => i :: out | None => out end.

(* at end of input *)
Definition flush (m : mode) (out : list item) : option (list item) :=
  match m with
  | MTop => Some out
  | MWord a => Some (ITok (TWord (rev a)) :: out)
  | MNum a => Some (ITok (TNum (rev a)) :: out)
  | MSlot a => if slot_ok (rev a) then Some (ITok (TSlot (rev a)) :: out) else None
  | MStr _ _ => None
  | MCom a => Some (ICom (finish_comment a) :: out)
  end.

(* single-character punctuation tokens *)
Definition is_single (c : N) : bool :=
  ((c =? 64) || (c =? 46) || (c =? 44) || (c =? 59) || (c =? 58) || (c =? 40) || (c =? 41)
   || (c =? 123) || (c =? 125) || (c =? 91) || (c =? 93) || (c =? 60) || (c =? 62) || (c =? 43)
   || (c =? 45) || (c =? 42) || (c =? 47) || (c =? 37) || (c =? 33))%N.
(* two-character tokens (longest match):  ::  ==  !=  <=  >=  ||  && *)
Definition is_double (c d : N) : bool :=
  (((c =? 58) && (d =? 58)) || ((c =? 61) && (d =? 61)) || ((c =? 33) && (d =? 61))
   || ((c =? 60) && (d =? 61)) || ((c =? 62) && (d =? 61)) || ((c =? 124) && (d =? 124))
   || ((c =? 38) && (d =? 38)))%N.

(* out is accumulated in reverse *)
Fixpoint lex (m : mode) (s : str) (out : list item) {struct s} : option (list item) :=
  match s with
  | [] => option_map (@rev item) (flush m out)
  | c :: s' =>
      match continue m c with
      | Fail => None
      | Absorb m' e => lex m' s' (push e out)
      | Restart e =>
          let out := push e out in
          if is_ws c then lex MTop s' out
          else if (c =? 34)%N then lex (MStr [c] false) s' out
          else if is_word_start c then lex (MWord [c]) s' out
          else if is_digit c then lex (MNum [c]) s' out
          else if (c =? 63)%N then lex (MSlot [c]) s' out
          else
            match s' with
            | d :: s'' =>
                if ((c =? 47) && (d =? 47))%N then lex (MCom [d; c]) s'' out
                else if is_double c d then lex MTop s'' (ITok (TSym [c; d]) :: out)
                else if is_single c then lex MTop s' (ITok (TSym [c]) :: out)
                else None
            | [] => if is_single c then lex MTop s' (ITok (TSym [c]) :: out) else None
            end
      end
  end.

Definition clex (s : str) : option (list item) := lex MTop s [].

Definition token_eqb (a b : token) : bool :=
  match a, b with
  | TWord x, TWord y | TNum x, TNum y | TStr x, TStr y | TSlot x, TSlot y | TSym x, TSym y => str_eqb x y
  | _, _ => false
  end.
Definition item_eqb (a b : item) : bool :=
  match a, b with
  | ITok x, ITok y => token_eqb x y
  | ICom x, ICom y => str_eqb x y
  | _, _ => false
  end.
Fixpoint items_eqb (a b : list item) : bool :=
  match a, b with
  | [], [] => true
  | x :: a', y :: b' => item_eqb x y && items_eqb a' b'
  | _, _ => false
  end.

Fixpoint tokens_of (l : list item) : list token :=
  match l with
  | [] => []
  | ITok t :: l' => t :: tokens_of l'
  | ICom _ :: l' => tokens_of l'
  end.
Fixpoint comments_of (l : list item) : list str :=
  match l with
  | [] => []
  | ITok _ :: l' => comments_of l'
  | ICom c :: l' => c :: comments_of l'
  end.

Definition tokens (s : str) : option (list token) := option_map tokens_of (clex s).
Definition comments (s : str) : option (list str) := option_map comments_of (clex s).
Definition comment_free (s : str) : Prop := comments s = Some [].

(* the validator: the output lexes to the same tokens and comments in the same relative order *)
Definition fmt_okb (inp out : str) : bool :=
  match clex inp, clex out with
  | Some a, Some b => items_eqb a b
  | _, _ => false
  end.
Definition fmt_ok (inp out : str) : Prop :=
  exists l, clex inp = Some l /\ clex out = Some l.

(* ---- run commands *)
Open Scope string_scope.
Definition e_token (t : token) : sexp :=
  match t with
  | TWord s => e_tag "word" [SS s] | TNum s => e_tag "num" [SS s] | TStr s => e_tag "str" [SS s]
  | TSlot s => e_tag "slot" [SS s] | TSym s => e_tag "sym" [SS s]
  end.
Definition e_item (i : item) : sexp :=
  match i with ITok t => e_token t | ICom s => e_tag "comment" [SS s] end.

Definition run_fmt (cmd : string) (args : list sexp) : option sexp :=
  if sym_eqb cmd "fmt_ok" then
    Some (match args with
          | [SS a; SS b] => e_bool (fmt_okb a b)
          | _ => bad_input
          end)
  else if sym_eqb cmd "fmt_items" then
    Some (match args with
          | [SS a] => match clex a with Some l => e_tag "items" (map e_item l) | None => SY "lex_error" end
          | _ => bad_input
          end)
  else None.
