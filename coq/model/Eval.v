(* Eval.v — the concrete evaluator.  Mirrors evaluator.rs: partial_interpret_internal
   (value arms), unary_app, binary_relation, binary_arith, eval_in, eval_if, get_attr,
   and ast/pattern.rs wildcard_match.  Faithful for unknown-free expressions; `Unknown`
   is ErrNonValue here and is treated in full by PE.v. *)
From Cedar Require Export Entities Ext.
Open Scope Z_scope.

(* ---- like ---- *)
(* Declarative matcher: `*` matches any sequence of scalar values. *)
Fixpoint wildcard (p : pattern) (s : str) {struct p} : bool :=
  match p with
  | [] => match s with [] => true | _ => false end
  | PChar c :: p' => match s with x :: s' => N.eqb c x && wildcard p' s' | [] => false end
  | PStar :: p' =>
      (fix try_from (s : str) : bool :=
         wildcard p' s || match s with [] => false | _ :: s' => try_from s' end) s
  end.

(* ---- coercions ---- *)
Definition as_bool (v : value) : res bool :=
  match v with VPrim (PBool b) => Ok b | _ => Err ErrType end.
Definition as_long (v : value) : res Z :=
  match v with VPrim (PLong z) => Ok z | _ => Err ErrType end.
Definition as_set (v : value) : res (list value) :=
  match v with VSet l => Ok l | _ => Err ErrType end.
Definition as_entity (v : value) : res uid :=
  match v with VPrim (PEntity u) => Ok u | _ => Err ErrType end.

Definition checked (z : Z) : res value := if in_i64 z then Ok (VLong z) else Err ErrOverflow.

Definition unary_app (op : unop) (v : value) : res value :=
  match op with
  | UNot => do b <- as_bool v; Ok (VBool (negb b))
  | UNeg => do i <- as_long v; checked (- i)
  | UIsEmpty => do s <- as_set v; Ok (VBool (match s with [] => true | _ => false end))
  end.

Definition binary_relation (less : bool) (a b : value) : res value :=
  match a, b with
  | VPrim (PLong x), VPrim (PLong y) => Ok (VBool (if less then Z.ltb x y else Z.leb x y))
  | VExt x, VExt y =>
      match ext_overload_cmp less x y with Some r => Ok (VBool r) | None => Err ErrType end
  | _, _ => Err ErrType
  end.

Definition binary_arith (op : binop) (a b : value) : res value :=
  do x <- as_long a; do y <- as_long b;
  match op with
  | BAdd => checked (x + y)
  | BSub => checked (x - y)
  | _ => checked (x * y)
  end.

(* eval_in: rhs is an entity or a set of entities (every element must be an entity) *)
Definition eval_in (es : entities) (u1 : uid) (rhs : value) : res value :=
  do us <- match rhs with
           | VPrim (PEntity u) => Ok [u]
           | VSet l => mapM as_entity l
           | _ => Err ErrType
           end;
  let d := find_entity u1 es in
  Ok (VBool (existsb (fun u2 => uid_eqb u1 u2 ||
                                match d with Some d => is_descendant_of d u2 | None => false end) us)).

Definition binary_app (es : entities) (op : binop) (a b : value) : res value :=
  match op with
  | BEq => Ok (VBool (value_eqb a b))
  | BLess => binary_relation true a b
  | BLessEq => binary_relation false a b
  | BAdd | BSub | BMul => binary_arith op a b
  | BIn => do u1 <- as_entity a; eval_in es u1 b
  | BContains => do s <- as_set a; Ok (VBool (set_mem b s))
  | BContainsAll => do s1 <- as_set a; do s2 <- as_set b; Ok (VBool (set_subset s2 s1))
  | BContainsAny => do s1 <- as_set a; do s2 <- as_set b; Ok (VBool (negb (set_disjoint s1 s2)))
  | BGetTag =>
      do u <- as_entity a; do t <- as_string b;
      match find_entity u es with
      | None => Err ErrEntityMissing
      | Some d => match lookup t (etags d) with Some v => Ok v | None => Err ErrAttrMissing end
      end
  | BHasTag =>
      do u <- as_entity a; do t <- as_string b;
      match find_entity u es with
      | None => Ok (VBool false)
      | Some d => Ok (VBool (has_key t (etags d)))
      end
  end.

Definition get_attr (es : entities) (v : value) (a : str) : res value :=
  match v with
  | VRecord r => match lookup a r with Some x => Ok x | None => Err ErrAttrMissing end
  | VPrim (PEntity u) =>
      match find_entity u es with
      | None => Err ErrEntityMissing
      | Some d => match lookup a (eattrs d) with Some x => Ok x | None => Err ErrAttrMissing end
      end
  | _ => Err ErrType
  end.

Definition has_attr (es : entities) (v : value) (a : str) : res value :=
  match v with
  | VRecord r => Ok (VBool (has_key a r))
  | VPrim (PEntity u) =>
      match find_entity u es with
      | None => Ok (VBool false)
      | Some d => Ok (VBool (has_key a (eattrs d)))
      end
  | _ => Err ErrType
  end.

Definition eval_var (q : request) (v : var) : value :=
  match v with
  | Principal => VEntity (rprincipal q)
  | Action => VEntity (raction q)
  | Resource => VEntity (rresource q)
  | Context => VRecord (rcontext q)
  end.

Section Eval.
  Variable sl : slotenv.
  Variable q : request.
  Variable es : entities.

  Fixpoint eval (e : expr) : res value :=
    match e with
    | Lit p => Ok (VPrim p)
    | Var v => Ok (eval_var q v)
    | Slot s => match slot_lookup s sl with Some u => Ok (VEntity u) | None => Err ErrUnlinkedSlot end
    | Unknown _ _ => Err ErrNonValue
    | If c t f => do vc <- eval c; do b <- as_bool vc; if b then eval t else eval f
    | And a b =>
        do va <- eval a; do x <- as_bool va;
        if x then (do vb <- eval b; do y <- as_bool vb; Ok (VBool y)) else Ok (VBool false)
    | Or a b =>
        do va <- eval a; do x <- as_bool va;
        if x then Ok (VBool true) else (do vb <- eval b; do y <- as_bool vb; Ok (VBool y))
    | UnApp op a => do v <- eval a; unary_app op v
    | BinApp op a b => do va <- eval a; do vb <- eval b; binary_app es op va vb
    | ExtCall fn args =>
        do vs <- (fix eval_list (l : list expr) : res (list value) :=
                    match l with
                    | [] => Ok []
                    | x :: l' => do v <- eval x; do vs <- eval_list l'; Ok (v :: vs)
                    end) args;
        call_ext fn vs
    | GetAttr e a => do v <- eval e; get_attr es v a
    | HasAttr e a => do v <- eval e; has_attr es v a
    | Like e p => do v <- eval e; do s <- as_string v; Ok (VBool (wildcard p s))
    | Is e t => do v <- eval e; do u <- as_entity v; Ok (VBool (name_eqb (uty u) t))
    | SetE items =>
        do vs <- (fix eval_list (l : list expr) : res (list value) :=
                    match l with
                    | [] => Ok []
                    | x :: l' => do v <- eval x; do vs <- eval_list l'; Ok (v :: vs)
                    end) items;
        Ok (VSet vs)
    | RecordE items =>
        do kvs <- (fix eval_rec (l : list (str * expr)) : res (list (str * value)) :=
                     match l with
                     | [] => Ok []
                     | (k, x) :: l' => do v <- eval x; do kvs <- eval_rec l'; Ok ((k, v) :: kvs)
                     end) items;
        Ok (VRecord kvs)
    end.
End Eval.

(* Evaluator::evaluate: the policy condition must be a bool *)
Definition eval_policy (q : request) (es : entities) (p : policy) : res bool :=
  do v <- eval (penv p) q es (pcondition p); as_bool v.
