(* Json.v — generic JSON trees (the contract of serde_json::Value used by the structured formats).
   Objects are association lists in document order (duplicate keys representable: the
   deserialisers used by Cedar reject them, see json_nodup).  Numbers: integers only (Z);
   documents with fractional numbers are outside the model.  Definitions only. *)
From Cedar Require Export Base.

Inductive json :=
| JNull
| JBool (b : bool)
| JInt (z : Z)
| JStr (s : str)
| JArr (l : list json)
| JObj (l : list (str * json)).

(* first-match field lookup *)
Definition jget (k : str) (l : list (str * json)) : option json := lookup k l.

Fixpoint str_mem (k : str) (l : list str) : bool :=
  match l with [] => false | x :: l' => str_eqb k x || str_mem k l' end.

(* every key of the object is one of `allowed` (serde deny_unknown_fields) *)
Fixpoint keys_within (allowed : list str) (l : list (str * json)) : bool :=
  match l with [] => true | (k, _) :: l' => str_mem k allowed && keys_within allowed l' end.

(* no object anywhere in the tree has two equal keys *)
Fixpoint json_nodup (j : json) : bool :=
  match j with
  | JArr l => (fix go (l : list json) : bool :=
                 match l with [] => true | x :: l' => json_nodup x && go l' end) l
  | JObj l => keys_nodup l &&
              (fix go (l : list (str * json)) : bool :=
                 match l with [] => true | (_, x) :: l' => json_nodup x && go l' end) l
  | _ => true
  end.

(* structural equality with object key order ignored on the right-hand side lookup
   (used by drivers only) *)
Fixpoint json_eqb (a b : json) : bool :=
  match a, b with
  | JNull, JNull => true
  | JBool x, JBool y => Bool.eqb x y
  | JInt x, JInt y => Z.eqb x y
  | JStr x, JStr y => str_eqb x y
  | JArr x, JArr y =>
      (fix go (l m : list json) : bool :=
         match l, m with
         | [], [] => true
         | p :: l', q :: m' => json_eqb p q && go l' m'
         | _, _ => false
         end) x y
  | JObj x, JObj y =>
      Nat.eqb (length x) (length y) &&
      (fix go (l : list (str * json)) : bool :=
         match l with
         | [] => true
         | (k, v) :: l' => match lookup k y with Some w => json_eqb v w | None => false end && go l'
         end) x
  | _, _ => false
  end.
