(* Value.v — run-time values.  Mirrors ast/value.rs (Value, ValueKind, Set, records)
   and the data carried by extension values (extensions/{decimal,ipaddr,datetime}.rs). *)
From Cedar Require Export Syntax.

Record ipaddr := mkIp { ip_v6 : bool; ip_addr : N; ip_prefix : N }.

Inductive ext :=
| EDecimal (z : Z)        (* value * 10^4 *)
| EIp (ip : ipaddr)
| EDatetime (ms : Z)      (* milliseconds since the epoch *)
| EDuration (ms : Z).

Definition ext_eqb (a b : ext) : bool :=
  match a, b with
  | EDecimal x, EDecimal y => Z.eqb x y
  | EIp x, EIp y => Bool.eqb (ip_v6 x) (ip_v6 y) && N.eqb (ip_addr x) (ip_addr y)
                    && N.eqb (ip_prefix x) (ip_prefix y)
  | EDatetime x, EDatetime y => Z.eqb x y
  | EDuration x, EDuration y => Z.eqb x y
  | _, _ => false
  end.

Inductive value :=
| VPrim (p : prim)
| VSet (l : list value)                 (* compared by mutual membership *)
| VRecord (l : list (str * value))      (* key-sorted, duplicate free *)
| VExt (x : ext).

Definition VBool (b : bool) : value := VPrim (PBool b).
Definition VLong (z : Z) : value := VPrim (PLong z).
Definition VString (s : str) : value := VPrim (PString s).
Definition VEntity (u : uid) : value := VPrim (PEntity u).

(* The model's `==`.  Sets: each element of one side has an equal element on the other. *)
Fixpoint value_eqb (a b : value) {struct a} : bool :=
  match a, b with
  | VPrim p, VPrim q => prim_eqb p q
  | VSet xs, VSet ys =>
      (fix sub (l : list value) : bool :=
         match l with
         | [] => true
         | x :: l' => existsb (value_eqb x) ys && sub l'
         end) xs
      &&
      forallb (fun y =>
         (fix ex (l : list value) : bool :=
            match l with
            | [] => false
            | x :: l' => value_eqb x y || ex l'
            end) xs) ys
  | VRecord xs, VRecord ys =>
      (fix req (l : list (str * value)) (m : list (str * value)) : bool :=
         match l, m with
         | [], [] => true
         | (k, v) :: l', (k', v') :: m' => str_eqb k k' && value_eqb v v' && req l' m'
         | _, _ => false
         end) xs ys
  | VExt x, VExt y => ext_eqb x y
  | _, _ => false
  end.

Definition set_mem (v : value) (s : list value) : bool := existsb (value_eqb v) s.
Definition set_subset (a b : list value) : bool := forallb (fun x => set_mem x b) a.
Definition set_disjoint (a b : list value) : bool := forallb (fun x => negb (set_mem x b)) a.

(* ast::Type of a value (Value::type_of) *)
Definition ext_typename (x : ext) : name :=
  match x with
  | EDecimal _ => [[100;101;99;105;109;97;108]%N]
  | EIp _ => [[105;112;97;100;100;114]%N]
  | EDatetime _ => [[100;97;116;101;116;105;109;101]%N]
  | EDuration _ => [[100;117;114;97;116;105;111;110]%N]
  end.

Definition type_of (v : value) : rtype :=
  match v with
  | VPrim (PBool _) => RTBool
  | VPrim (PLong _) => RTLong
  | VPrim (PString _) => RTString
  | VPrim (PEntity u) => RTEntity (uty u)
  | VSet _ => RTSet
  | VRecord _ => RTRecord
  | VExt x => RTExt (ext_typename x)
  end.

Definition rtype_eqb (a b : rtype) : bool :=
  match a, b with
  | RTBool, RTBool | RTLong, RTLong | RTString, RTString | RTSet, RTSet | RTRecord, RTRecord => true
  | RTEntity s, RTEntity t => name_eqb s t
  | RTExt s, RTExt t => name_eqb s t
  | _, _ => false
  end.
