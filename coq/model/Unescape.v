(* Unescape.v — C05 stage 1: escape forms.
   Rust counterparts:
     to_unescaped_string / to_pattern            cedar-policy-core/src/parser/unescape.rs
     rustc_literal_escaper::unescape_str (0.0.8)  Unescape::unescape / unescape_1 / hex_escape /
                                                  unicode_escape / skip_ascii_whitespace
     str::escape_debug, char::escape_debug        (core) — which scalar values are rendered \u{..} is
                                                  abstract: [np] "not printable" (every position) and
                                                  [ge] "Grapheme_Extend" (first char of a str, every
                                                  char of a pattern); the check instantiates both from a
                                                  table dumped from the implementation
     Display for Pattern                          ast/pattern.rs
   Strings are lists of scalar values.  All escape errors are one class (the callers only test
   is_fatal / collect them); the two warnings of line continuations are not errors. *)
From Cedar Require Export Base Syntax.
Open Scope N_scope.

Inductive ures (A : Type) := UOk (a : A) | UErr | UFuel.
Arguments UOk {A} a.
Arguments UErr {A}.
Arguments UFuel {A}.

(* char::to_digit(16) *)
Definition hex_val (c : N) : option N :=
  if (48 <=? c) && (c <=? 57) then Some (c - 48)
  else if (97 <=? c) && (c <=? 102) then Some (c - 87)
  else if (65 <=? c) && (c <=? 70) then Some (c - 55)
  else None.

(* hex_escape: the two digits after \x ; str::hex2unit rejects > 0x7f *)
Definition hex_escape (s : str) : option (N * str) :=
  match s with
  | hi :: lo :: rest =>
      match hex_val hi, hex_val lo with
      | Some h, Some l => let v := h * 16 + l in if v <=? 127 then Some (v, rest) else None
      | _, _ => None
      end
  | _ => None
  end.

(* the loop of unicode_escape after the first digit.  Rust keeps scanning after the 7th digit and
   reports OverlongUnicodeEscape at the brace (or another error before it): an error either way. *)
Fixpoint uni_digits (s : str) (value : N) (ndig : nat) : option (N * str) :=
  match s with
  | [] => None
  | c :: s' =>
      if c =? 95 then uni_digits s' value ndig
      else if c =? 125 then Some (value, s')
      else match hex_val c with
           | None => None
           | Some d => if Nat.ltb 5 ndig then None else uni_digits s' (value * 16 + d) (S ndig)
           end
  end.

Definition is_scalar (c : N) : bool := (c <? 55296) || ((57343 <? c) && (c <? 1114112)).

(* unicode_escape + the range / surrogate test of unescape_1 *)
Definition unicode_escape (s : str) : option (N * str) :=
  match s with
  | b :: c :: s' =>
      if negb (b =? 123) then None
      else if c =? 95 then None
      else if c =? 125 then None
      else match hex_val c with
           | None => None
           | Some d => match uni_digits s' d 1 with
                       | Some (v, rest) => if is_scalar v then Some (v, rest) else None
                       | None => None
                       end
           end
  | _ => None
  end.

Inductive uelem := UChar (c : N) | UStarEsc.     (* UStarEsc: the two characters \* *)

(* unescape_1: the text after a backslash.  \* is InvalidEscape over exactly these two bytes, which
   to_pattern (only) turns into a literal star; it is reported here as UStarEsc. *)
Definition unescape_1 (s : str) : option (uelem * str) :=
  match s with
  | [] => None
  | c :: s' =>
      if c =? 48 then Some (UChar 0, s')
      else if c =? 34 then Some (UChar 34, s')
      else if c =? 110 then Some (UChar 10, s')
      else if c =? 114 then Some (UChar 13, s')
      else if c =? 116 then Some (UChar 9, s')
      else if c =? 92 then Some (UChar 92, s')
      else if c =? 39 then Some (UChar 39, s')
      else if c =? 120 then match hex_escape s' with Some (v, r) => Some (UChar v, r) | None => None end
      else if c =? 117 then match unicode_escape s' with Some (v, r) => Some (UChar v, r) | None => None end
      else if c =? 42 then Some (UStarEsc, s')
      else None
  end.

(* skip_ascii_whitespace: space, \t, \n, \r *)
Fixpoint skip_ws (s : str) : str :=
  match s with
  | c :: s' => if (c =? 32) || (c =? 9) || (c =? 10) || (c =? 13) then skip_ws s' else s
  | [] => []
  end.

Definition starts_with_nl (s : str) : bool := match s with c :: _ => c =? 10 | [] => false end.

(* Unescape::unescape (fuel: one unit per loop iteration) *)
Fixpoint unescape_loop (fuel : nat) (s : str) : ures (list uelem) :=
  match fuel with
  | O => UFuel
  | S f =>
      match s with
      | [] => UOk []
      | c :: s' =>
          if c =? 92 then
            if starts_with_nl s' then unescape_loop f (skip_ws (tl s'))
            else match unescape_1 s' with
                 | None => UErr
                 | Some (u, rest) => match unescape_loop f rest with
                                     | UOk l => UOk (u :: l)
                                     | r => r
                                     end
                 end
          else if c =? 34 then UErr
          else if c =? 13 then UErr
          else match unescape_loop f s' with
               | UOk l => UOk (UChar c :: l)
               | r => r
               end
      end
  end.

Definition unescape_elems (s : str) : ures (list uelem) := unescape_loop (S (length s)) s.

Fixpoint elems_to_str (l : list uelem) : option str :=
  match l with
  | [] => Some []
  | UChar c :: l' => match elems_to_str l' with Some s => Some (c :: s) | None => None end
  | UStarEsc :: _ => None
  end.

(* to_unescaped_string *)
Definition to_unescaped_string (s : str) : ures str :=
  match unescape_elems s with
  | UOk l => match elems_to_str l with Some r => UOk r | None => UErr end
  | UErr => UErr
  | UFuel => UFuel
  end.

(* to_pattern: Ok('*') (however it was spelled) is the wildcard; \* is the literal star *)
Definition elem_to_pat (u : uelem) : patelem :=
  match u with
  | UChar c => if c =? 42 then PStar else PChar c
  | UStarEsc => PChar 42
  end.
Definition to_pattern (s : str) : ures pattern :=
  match unescape_elems s with
  | UOk l => UOk (map elem_to_pat l)
  | UErr => UErr
  | UFuel => UFuel
  end.

(* ------------------------------------------------------------------ escape_debug *)
Definition hex_digit (d : N) : N := if d <? 10 then 48 + d else 87 + d.

(* lower-case hexadecimal without leading zeros (scalar values have at most six digits) *)
Definition to_hex (n : N) : str :=
  let d0 := n mod 16 in let q1 := n / 16 in
  if q1 =? 0 then [hex_digit d0] else
  let d1 := q1 mod 16 in let q2 := q1 / 16 in
  if q2 =? 0 then [hex_digit d1; hex_digit d0] else
  let d2 := q2 mod 16 in let q3 := q2 / 16 in
  if q3 =? 0 then [hex_digit d2; hex_digit d1; hex_digit d0] else
  let d3 := q3 mod 16 in let q4 := q3 / 16 in
  if q4 =? 0 then [hex_digit d3; hex_digit d2; hex_digit d1; hex_digit d0] else
  let d4 := q4 mod 16 in let q5 := q4 / 16 in
  if q5 =? 0 then [hex_digit d4; hex_digit d3; hex_digit d2; hex_digit d1; hex_digit d0] else
  [hex_digit (q5 mod 16); hex_digit d4; hex_digit d3; hex_digit d2; hex_digit d1; hex_digit d0].

Definition esc_unicode (c : N) : str := [92; 117; 123] ++ to_hex c ++ [125].

Section Escape.
  Variable np : N -> bool.
  Variable ge : N -> bool.

  (* char::escape_debug_ext; [g] = escape_grapheme_extended; both quotes are escaped *)
  Definition esc_char (g : bool) (c : N) : str :=
    if c =? 0 then [92; 48]
    else if c =? 9 then [92; 116]
    else if c =? 13 then [92; 114]
    else if c =? 10 then [92; 110]
    else if c =? 92 then [92; 92]
    else if c =? 34 then [92; 34]
    else if c =? 39 then [92; 39]
    else if g && ge c then esc_unicode c
    else if np c then esc_unicode c
    else [c].

  (* str::escape_debug: the first char with ESCAPE_ALL, the others without the grapheme rule *)
  Definition escape_debug (s : str) : str :=
    match s with
    | [] => []
    | c :: s' => esc_char true c ++ flat_map (esc_char false) s'
    end.

  (* Display for Pattern *)
  Definition show_patelem (pe : patelem) : str :=
    match pe with
    | PStar => [42]
    | PChar c => if c =? 42 then [92; 42] else esc_char true c
    end.
  Definition show_pattern (p : pattern) : str := flat_map show_patelem p.
End Escape.

Definition wf_str (s : str) : bool := forallb is_scalar s.
Definition wf_pattern (p : pattern) : bool :=
  forallb (fun pe => match pe with PChar c => is_scalar c | PStar => true end) p.
