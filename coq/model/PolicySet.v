(* PolicySet.v — templates, links and the policy-set bookkeeping (C08).
   Mirrors cedar-policy-core/src/ast/policy.rs (Template::{slots, check_binding, link,
   link_static_policy}, Policy::{new_id, new_template_id}), ast/policy_set.rs (PolicySet::{add,
   add_static, add_template, link, unlink, remove_static, remove_template, merge_policyset,
   get_fresh_id, update_renaming}) and the second bookkeeping level of cedar-policy/src/api.rs
   (PolicySet::{add, add_template, link, unlink, remove_static, remove_template, merge}).
   Maps (LinkedHashMap / HashMap) are association lists with first-match lookup; iteration order is
   never observed (all dumps are sorted by the drivers).  Definitions only. *)
From Cedar Require Export Authz.

(* ---------------------------------------------------------------- association maps keyed by str *)
Section AMap.
  Context {V : Type}.
  Fixpoint alookup (k : str) (m : list (str * V)) : option V :=
    match m with
    | [] => None
    | (k', v) :: m' => if str_eqb k k' then Some v else alookup k m'
    end.
  Definition aremove (k : str) (m : list (str * V)) : list (str * V) :=
    filter (fun kv => negb (str_eqb k (fst kv))) m.
  Definition ainsert (k : str) (v : V) (m : list (str * V)) : list (str * V) := aremove k m ++ [(k, v)].
  Definition amem (k : str) (m : list (str * V)) : bool :=
    match alookup k m with Some _ => true | None => false end.
End AMap.

Definition smem (k : str) (l : list str) : bool := existsb (str_eqb k) l.
Definition sinsert (k : str) (l : list str) : list str := if smem k l then l else l ++ [k].
Definition sremove (k : str) (l : list str) : list str := filter (fun x => negb (str_eqb k x)) l.

(* ---------------------------------------------------------------- structural equality (derived PartialEq) *)
Definition var_n (v : var) : N := match v with Principal => 0 | Action => 1 | Resource => 2 | Context => 3 end.
Definition unop_n (o : unop) : N := match o with UNot => 0 | UNeg => 1 | UIsEmpty => 2 end.
Definition binop_n (o : binop) : N :=
  match o with
  | BEq => 0 | BLess => 1 | BLessEq => 2 | BAdd => 3 | BSub => 4 | BMul => 5 | BIn => 6
  | BContains => 7 | BContainsAll => 8 | BContainsAny => 9 | BGetTag => 10 | BHasTag => 11
  end.
Definition patelem_eqb (a b : patelem) : bool :=
  match a, b with PChar x, PChar y => N.eqb x y | PStar, PStar => true | _, _ => false end.
Fixpoint list_eqb {A} (f : A -> A -> bool) (a b : list A) : bool :=
  match a, b with
  | [], [] => true
  | x :: a', y :: b' => f x y && list_eqb f a' b'
  | _, _ => false
  end.
Definition rtype_eqb (a b : rtype) : bool :=
  match a, b with
  | RTBool, RTBool | RTLong, RTLong | RTString, RTString | RTSet, RTSet | RTRecord, RTRecord => true
  | RTEntity x, RTEntity y => name_eqb x y
  | RTExt x, RTExt y => name_eqb x y
  | _, _ => false
  end.
Definition opt_eqb {A} (f : A -> A -> bool) (a b : option A) : bool :=
  match a, b with Some x, Some y => f x y | None, None => true | _, _ => false end.

Fixpoint expr_eqb (a b : expr) {struct a} : bool :=
  match a, b with
  | Lit x, Lit y => prim_eqb x y
  | Var x, Var y => N.eqb (var_n x) (var_n y)
  | Slot x, Slot y => slot_eqb x y
  | Unknown n t, Unknown n' t' => str_eqb n n' && opt_eqb rtype_eqb t t'
  | If c t e, If c' t' e' => expr_eqb c c' && expr_eqb t t' && expr_eqb e e'
  | And x y, And x' y' => expr_eqb x x' && expr_eqb y y'
  | Or x y, Or x' y' => expr_eqb x x' && expr_eqb y y'
  | UnApp o x, UnApp o' x' => N.eqb (unop_n o) (unop_n o') && expr_eqb x x'
  | BinApp o x y, BinApp o' x' y' => N.eqb (binop_n o) (binop_n o') && expr_eqb x x' && expr_eqb y y'
  | ExtCall f l, ExtCall f' l' =>
      name_eqb f f' &&
      (fix go (l m : list expr) : bool :=
         match l, m with
         | [], [] => true
         | x :: l', y :: m' => expr_eqb x y && go l' m'
         | _, _ => false
         end) l l'
  | GetAttr x k, GetAttr x' k' => expr_eqb x x' && str_eqb k k'
  | HasAttr x k, HasAttr x' k' => expr_eqb x x' && str_eqb k k'
  | Like x p, Like x' p' => expr_eqb x x' && list_eqb patelem_eqb p p'
  | Is x t, Is x' t' => expr_eqb x x' && name_eqb t t'
  | SetE l, SetE l' =>
      (fix go (l m : list expr) : bool :=
         match l, m with
         | [], [] => true
         | x :: l', y :: m' => expr_eqb x y && go l' m'
         | _, _ => false
         end) l l'
  | RecordE l, RecordE l' =>
      (fix go (l m : list (str * expr)) : bool :=
         match l, m with
         | [], [] => true
         | (k, x) :: l', (k', y) :: m' => str_eqb k k' && expr_eqb x y && go l' m'
         | _, _ => false
         end) l l'
  | _, _ => false
  end.

Definition eref_eqb (a b : eref) : bool :=
  match a, b with RefUid x, RefUid y => uid_eqb x y | RefSlot, RefSlot => true | _, _ => false end.
Definition prconstraint_eqb (a b : prconstraint) : bool :=
  match a, b with
  | CAny, CAny => true
  | CEq x, CEq y => eref_eqb x y
  | CIn x, CIn y => eref_eqb x y
  | CIsIn t x, CIsIn t' y => name_eqb t t' && eref_eqb x y
  | CIs t, CIs t' => name_eqb t t'
  | _, _ => false
  end.
Definition aconstraint_eqb (a b : aconstraint) : bool :=
  match a, b with
  | AAny, AAny => true
  | AIn x, AIn y => list_eqb uid_eqb x y
  | AEq x, AEq y => uid_eqb x y
  | _, _ => false
  end.
Definition effect_eqb (a b : effect) : bool :=
  match a, b with Permit, Permit | Forbid, Forbid => true | _, _ => false end.
(* Annotations are a BTreeMap: the drivers pass them key-sorted *)
Definition annot_eqb (a b : annotations) : bool :=
  list_eqb (fun x y => str_eqb (fst x) (fst y) && str_eqb (snd x) (snd y)) a b.

Definition template_eqb (a b : template) : bool :=
  str_eqb (tid a) (tid b) && annot_eqb (tannot a) (tannot b) && effect_eqb (teffect a) (teffect b)
  && prconstraint_eqb (tprincipal a) (tprincipal b) && aconstraint_eqb (taction a) (taction b)
  && prconstraint_eqb (tresource a) (tresource b) && opt_eqb expr_eqb (tbody a) (tbody b).

(* HashMap<SlotId, EntityUID> equality: same bindings *)
Definition env_sub (a b : slotenv) : bool :=
  forallb (fun su => match slot_lookup (fst su) b with Some u => uid_eqb u (snd su) | None => false end) a.
Definition env_eqb (a b : slotenv) : bool := env_sub a b && env_sub b a.

Definition policy_eqb (a b : policy) : bool :=
  template_eqb (ptemplate a) (ptemplate b) && opt_eqb str_eqb (plink a) (plink b) && env_eqb (penv a) (penv b).

(* ---------------------------------------------------------------- templates, slots, linking *)
Definition has_slot (c : prconstraint) : bool :=
  match c with CEq RefSlot | CIn RefSlot | CIsIn _ RefSlot => true | _ => false end.

(* Template::slots — the slots of the condition (the parser rejects slots outside the scope) *)
Definition tslots (t : template) : list slot :=
  (if has_slot (tprincipal t) then [SlotPrincipal] else []) ++
  (if has_slot (tresource t) then [SlotResource] else []).

Definition t_is_static (t : template) : bool := match tslots t with [] => true | _ => false end.
Definition p_is_static (p : policy) : bool := match plink p with None => true | Some _ => false end.

Definition env_has (s : slot) (env : slotenv) : bool :=
  match slot_lookup s env with Some _ => true | None => false end.

(* Template::check_binding: every slot bound, no extra binding *)
Definition check_binding (t : template) (env : slotenv) : bool :=
  forallb (fun s => env_has s env) (tslots t) &&
  forallb (fun su => existsb (slot_eqb (fst su)) (tslots t)) env.

Definition set_tid (t : template) (i : str) : template :=
  mkTemplate i (tannot t) (teffect t) (tprincipal t) (taction t) (tresource t) (tbody t).

(* Policy::new_id / new_template_id *)
Definition p_new_id (p : policy) (i : str) : policy :=
  match plink p with
  | None => mkPolicy (set_tid (ptemplate p) i) None (penv p)
  | Some _ => mkPolicy (ptemplate p) (Some i) (penv p)
  end.
Definition p_new_template_id (p : policy) (i : str) : policy :=
  mkPolicy (set_tid (ptemplate p) i) (plink p) (penv p).

(* the static policy obtained by writing the linked entity in place of each slot *)
Definition subst_ref (s : slot) (env : slotenv) (r : eref) : eref :=
  match r with
  | RefUid u => RefUid u
  | RefSlot => match slot_lookup s env with Some u => RefUid u | None => RefSlot end
  end.
Definition subst_pc (s : slot) (env : slotenv) (c : prconstraint) : prconstraint :=
  match c with
  | CAny => CAny
  | CEq r => CEq (subst_ref s env r)
  | CIn r => CIn (subst_ref s env r)
  | CIsIn t r => CIsIn t (subst_ref s env r)
  | CIs t => CIs t
  end.
Definition subst_slots (env : slotenv) (t : template) : template :=
  mkTemplate (tid t) (tannot t) (teffect t) (subst_pc SlotPrincipal env (tprincipal t)) (taction t)
             (subst_pc SlotResource env (tresource t)) (tbody t).
Definition static_of (t : template) : policy := mkPolicy t None [].

(* ---------------------------------------------------------------- ast::PolicySet *)
Record pset := mkPset {
  ps_templates : list (str * template);
  ps_links : list (str * policy);
  ps_t2l : list (str * list str)
}.
Definition empty_pset : pset := mkPset [] [] [].

Inductive pserr :=
| EOccupied | ENoSuchTemplate | EArity | EIdConflict
| ENotLink | ELinkNonexistent
| ETemplateNonexistent | ETemplateHasLinks | ENotTemplate
| ERmNoLink | ERmNoTemplate
(* API level *)
| EExpectedStatic | EExpectedTemplate | EPolicyNonexistent | EParse | ESkipped
| EPanic.                      (* a panic!() site of the Rust code was reached *)

Inductive ores (A : Type) := OOk (a : A) | OErr (e : pserr).
Arguments OOk {A} a.
Arguments OErr {A} e.

(* PolicySet::add *)
Definition ps_add (s : pset) (p : policy) : ores pset :=
  let t := ptemplate p in
  match alookup (tid t) (ps_templates s) with
  | Some t' =>
      if negb (template_eqb t' t) then OErr EOccupied
      else if amem (pid p) (ps_links s) then OErr EOccupied
      else OOk (mkPset (ps_templates s) (ainsert (pid p) p (ps_links s))
                       (ainsert (tid t) (sinsert (pid p) (match alookup (tid t) (ps_t2l s) with Some l => l | None => [] end))
                                (ps_t2l s)))
  | None =>
      if amem (pid p) (ps_links s) then OErr EOccupied
      else OOk (mkPset (ainsert (tid t) t (ps_templates s)) (ainsert (pid p) p (ps_links s))
                       (ainsert (tid t) [pid p] (ps_t2l s)))
  end.

(* PolicySet::add_static (after Template::link_static_policy) *)
Definition ps_add_static (s : pset) (t : template) : ores pset :=
  if amem (tid t) (ps_templates s) then OErr EOccupied
  else if amem (tid t) (ps_links s) then OErr EOccupied
  else OOk (mkPset (ainsert (tid t) t (ps_templates s)) (ainsert (tid t) (static_of t) (ps_links s))
                   (ainsert (tid t) [tid t] (ps_t2l s))).

(* PolicySet::add_template *)
Definition ps_add_template (s : pset) (t : template) : ores pset :=
  if amem (tid t) (ps_links s) then OErr EOccupied
  else if amem (tid t) (ps_templates s) then OErr EOccupied
  else OOk (mkPset (ainsert (tid t) t (ps_templates s)) (ps_links s) (ainsert (tid t) [] (ps_t2l s))).

(* PolicySet::link *)
Definition ps_link (s : pset) (tmpl new : str) (env : slotenv) : ores pset :=
  match alookup tmpl (ps_templates s) with
  | None => OErr ENoSuchTemplate
  | Some t =>
      (* 3c064e2: the slot-less template that stores a static policy's body is not a link target *)
      if t_is_static t && amem tmpl (ps_links s) then OErr ENoSuchTemplate
      else if negb (check_binding t env) then OErr EArity
      else if amem new (ps_links s) then OErr EIdConflict
      else if amem new (ps_templates s) then OErr EIdConflict
      else OOk (mkPset (ps_templates s) (ainsert new (mkPolicy t (Some new) env) (ps_links s))
                       (ainsert tmpl (sinsert new (match alookup tmpl (ps_t2l s) with Some l => l | None => [] end))
                                (ps_t2l s)))
  end.

(* PolicySet::unlink *)
Definition ps_unlink (s : pset) (i : str) : ores (pset * policy) :=
  if amem i (ps_templates s) then OErr ENotLink
  else match alookup i (ps_links s) with
       | None => OErr ELinkNonexistent
       | Some p =>
           let t := tid (ptemplate p) in
           match alookup t (ps_t2l s) with
           | None => OErr EPanic
           | Some l => OOk (mkPset (ps_templates s) (aremove i (ps_links s)) (ainsert t (sremove i l) (ps_t2l s)), p)
           end
       end.

(* PolicySet::remove_static (the link is restored when the template is missing) *)
Definition ps_remove_static (s : pset) (i : str) : ores (pset * policy) :=
  match alookup i (ps_links s) with
  | None => OErr ERmNoLink
  | Some p =>
      if amem i (ps_templates s)
      then OOk (mkPset (aremove i (ps_templates s)) (aremove i (ps_links s)) (aremove i (ps_t2l s)), p)
      else OErr ERmNoTemplate
  end.

(* PolicySet::remove_template *)
Definition ps_remove_template (s : pset) (i : str) : ores pset :=
  if amem i (ps_links s) then OErr ENotTemplate
  else match alookup i (ps_t2l s) with
       | None => OErr ETemplateNonexistent
       | Some (_ :: _) => OErr ETemplateHasLinks
       | Some [] =>
           if amem i (ps_templates s)
           then OOk (mkPset (aremove i (ps_templates s)) (ps_links s) (aremove i (ps_t2l s)))
           else OErr EPanic
       end.

(* ---- merge_policyset *)
Definition bound (s : pset) (i : str) : bool := amem i (ps_templates s) || amem i (ps_links s).

(* "policy<n>" *)
Fixpoint digits_aux (fuel : nat) (n : N) (acc : str) : str :=
  match fuel with
  | O => acc
  | S f => let acc' := (48 + N.modulo n 10)%N :: acc in
           if N.ltb n 10 then acc' else digits_aux f (N.div n 10) acc'
  end.
Definition policy_n (n : N) : str := [112; 111; 108; 105; 99; 121]%N ++ digits_aux 20 n [].

(* get_fresh_id: fuel = number of bound ids + 1 candidates suffice *)
Fixpoint fresh_id (fuel : nat) (a b : pset) (n : N) : str * N :=
  let c := policy_n n in
  match fuel with
  | O => (c, (n + 1)%N)
  | S f => if bound a c || bound b c then fresh_id f a b (n + 1)%N else (c, (n + 1)%N)
  end.
Definition fresh_fuel (a b : pset) : nat :=
  S (length (ps_templates a) + length (ps_links a) + length (ps_templates b) + length (ps_links b)).

Definition renaming := list (str * str).

(* update_renaming over the templates / over the links *)
Definition upd_ren {V} (veqb : V -> V -> bool) (a b : pset) (this other : list (str * V))
           (st : renaming * N) : renaming * N :=
  fold_left (fun st kv =>
               match alookup (fst kv) this with
               | Some x0 => if negb (veqb x0 (snd kv)) && negb (amem (fst kv) (fst st))
                            then let (c, n') := fresh_id (fresh_fuel a b) a b (snd st) in
                                 (ainsert (fst kv) c (fst st), n')
                            else st
               | None => st
               end) other st.

Definition rn (r : renaming) (i : str) : str := match alookup i r with Some j => j | None => i end.

Definition ps_merge (a b : pset) (rename : bool) : ores (pset * renaming) :=
  let st := upd_ren template_eqb a b (ps_templates a) (ps_templates b) ([], 0%N) in
  let st := upd_ren policy_eqb a b (ps_links a) (ps_links b) st in
  let st := fold_left (fun st kv =>
                         if negb (t_is_static (snd kv)) && amem (fst kv) (ps_links a) && negb (amem (fst kv) (fst st))
                         then let (c, n') := fresh_id (fresh_fuel a b) a b (snd st) in (ainsert (fst kv) c (fst st), n')
                         else st) (ps_templates b) st in
  let st := fold_left (fun st kv =>
                         if negb (p_is_static (snd kv)) && amem (fst kv) (ps_templates a) && negb (amem (fst kv) (fst st))
                         then let (c, n') := fresh_id (fresh_fuel a b) a b (snd st) in (ainsert (fst kv) c (fst st), n')
                         else st) (ps_links b) st in
  let r := fst st in
  match rename, r with
  | false, _ :: _ => OErr EOccupied
  | _, _ =>
      let ts := fold_left (fun m kv =>
                             match alookup (fst kv) r with
                             | Some j => ainsert j (set_tid (snd kv) j) m
                             | None => ainsert (fst kv) (snd kv) m
                             end) (ps_templates b) (ps_templates a) in
      let ls := fold_left (fun m kv =>
                             let p := match alookup (fst kv) r with Some j => p_new_id (snd kv) j | None => snd kv end in
                             let p := match alookup (tid (ptemplate p)) r with
                                      | Some j => if negb (p_is_static p) then p_new_template_id p j else p
                                      | None => p
                                      end in
                             ainsert (rn r (fst kv)) p m) (ps_links b) (ps_links a) in
      let t2l := fold_left (fun m kv =>
                              let t := rn r (fst kv) in
                              let cur := match alookup t m with Some l => l | None => [] end in
                              ainsert t (fold_left (fun l i => sinsert (rn r i) l) (snd kv) cur) m)
                           (ps_t2l b) (ps_t2l a) in
      OOk (mkPset ts ls t2l, r)
  end.

(* ---------------------------------------------------------------- cedar_policy::PolicySet *)
Record apiset := mkApi {
  a_ast : pset;
  a_policies : list (str * policy);
  a_templates : list (str * template)
}.
Definition empty_api : apiset := mkApi empty_pset [] [].

(* PolicySet::from_ast / from_est: policies = ast.policies(), templates = ast.templates() (those with slots) *)
Definition api_of_ast (a : pset) : apiset :=
  mkApi a (ps_links a) (filter (fun kt => negb (t_is_static (snd kt))) (ps_templates a)).

Definition api_add (s : apiset) (p : policy) : ores apiset :=
  if p_is_static p then
    match ps_add (a_ast s) p with
    | OOk a => OOk (mkApi a (ainsert (pid p) p (a_policies s)) (a_templates s))
    | OErr e => OErr e
    end
  else OErr EExpectedStatic.

Definition api_add_template (s : apiset) (t : template) : ores apiset :=
  match ps_add_template (a_ast s) t with
  | OOk a => OOk (mkApi a (a_policies s) (ainsert (tid t) t (a_templates s)))
  | OErr e => OErr e
  end.

Definition api_link (s : apiset) (tmpl new : str) (env : slotenv) : ores apiset :=
  match alookup tmpl (a_templates s) with
  | None => if amem tmpl (a_policies s) then OErr EExpectedTemplate else OErr ENoSuchTemplate
  | Some _ =>
      match ps_link (a_ast s) tmpl new env with
      | OErr e => OErr e
      | OOk a =>
          match alookup new (ps_links a) with
          | Some p => OOk (mkApi a (ainsert new p (a_policies s)) (a_templates s))
          | None => OErr EPanic
          end
      end
  end.

Definition api_unlink (s : apiset) (i : str) : ores (apiset * policy) :=
  match alookup i (a_policies s) with
  | None => OErr ELinkNonexistent
  | Some p =>
      match ps_unlink (a_ast s) i with
      | OOk (a, _) => OOk (mkApi a (aremove i (a_policies s)) (a_templates s), p)
      | OErr ENotLink => OErr ENotLink               (* self.policies restored *)
      | OErr _ => OErr EPanic
      end
  end.

Definition api_remove_static (s : apiset) (i : str) : ores (apiset * policy) :=
  match alookup i (a_policies s) with
  | None => OErr EPolicyNonexistent
  | Some p =>
      match ps_remove_static (a_ast s) i with
      | OOk (a, _) => OOk (mkApi a (aremove i (a_policies s)) (a_templates s), p)
      | OErr _ => OErr EPolicyNonexistent            (* self.policies restored *)
      end
  end.

Definition api_remove_template (s : apiset) (i : str) : ores apiset :=
  match alookup i (a_templates s) with
  | None => OErr ETemplateNonexistent
  | Some _ =>
      match ps_remove_template (a_ast s) i with
      | OOk a => OOk (mkApi a (a_policies s) (aremove i (a_templates s)))
      | OErr ETemplateHasLinks => OErr ETemplateHasLinks
      | OErr ENotTemplate => OErr ENotTemplate
      | OErr _ => OErr EPanic
      end
  end.

Definition api_merge (s o : apiset) (rename : bool) : ores (apiset * renaming) :=
  match ps_merge (a_ast s) (a_ast o) rename with
  | OErr e => OErr e
  | OOk (a, r) =>
      let ps := fold_left (fun m kv =>
                             let i := rn r (fst kv) in
                             if amem i m then m
                             else match alookup i (ps_links a) with
                                  | Some p => ainsert i p m
                                  | None => m          (* unwrap: unreachable *)
                                  end) (a_policies o) (a_policies s) in
      let ts := fold_left (fun m kv =>
                             let i := rn r (fst kv) in
                             if amem i m then m
                             else match alookup i (ps_templates a) with
                                  | Some t => ainsert i t m
                                  | None => m
                                  end) (a_templates o) (a_templates s) in
      OOk (mkApi a ps ts, r)
  end.

(* ---------------------------------------------------------------- histories *)
Inductive op :=
| OpAdd (t : template)                       (* Policy::parse + add *)
| OpAddVia (t : template)                    (* core level: add(Policy::from(static)) instead of add_static *)
| OpAddTemplate (t : template)
| OpLink (tmpl new : str) (env : slotenv)
| OpUnlink (i : str)
| OpRemoveStatic (i : str)
| OpRemoveTemplate (i : str)
| OpAddStashed (k : nat)
| OpMergeApi (rename : bool) (other : apiset)
| OpMergeAst (rename : bool) (other : pset).

Record hstate := mkH { h_api : apiset; h_stash : list policy }.

Definition step_result := (ores unit * renaming)%type.

(* API level *)
Definition api_step (h : hstate) (o : op) : hstate * step_result :=
  let keep e := (h, (OErr e, [])) in
  let upd (r : ores apiset) := match r with
                               | OOk a => (mkH a (h_stash h), (OOk tt, []))
                               | OErr e => keep e
                               end in
  match o with
  | OpAdd t | OpAddVia t =>
      if t_is_static t then upd (api_add (h_api h) (static_of t)) else keep EParse
  | OpAddTemplate t =>
      if t_is_static t then keep EParse else upd (api_add_template (h_api h) t)
  | OpLink tmpl new env => upd (api_link (h_api h) tmpl new env)
  | OpUnlink i =>
      match api_unlink (h_api h) i with
      | OOk (a, p) => (mkH a (h_stash h ++ [p]), (OOk tt, []))
      | OErr e => keep e
      end
  | OpRemoveStatic i =>
      match api_remove_static (h_api h) i with
      | OOk (a, p) => (mkH a (h_stash h ++ [p]), (OOk tt, []))
      | OErr e => keep e
      end
  | OpRemoveTemplate i => upd (api_remove_template (h_api h) i)
  | OpAddStashed k =>
      match h_stash h with
      | [] => keep ESkipped
      | p0 :: _ => upd (api_add (h_api h) (nth (Nat.modulo k (length (h_stash h))) (h_stash h) p0))
      end
  | OpMergeApi rename other =>
      match api_merge (h_api h) other rename with
      | OOk (a, r) => (mkH a (h_stash h), (OOk tt, r))
      | OErr e => keep e
      end
  | OpMergeAst _ _ => keep ESkipped
  end.

(* core level: the hstate's a_ast component is the set; the API maps stay empty *)
Definition ast_step (h : hstate) (o : op) : hstate * step_result :=
  let s := a_ast (h_api h) in
  let keep e := (h, (OErr e, [])) in
  let mk a := mkApi a [] [] in
  let upd (r : ores pset) := match r with
                             | OOk a => (mkH (mk a) (h_stash h), (OOk tt, []))
                             | OErr e => keep e
                             end in
  match o with
  | OpAdd t => if t_is_static t then upd (ps_add_static s t) else keep EParse
  | OpAddVia t => if t_is_static t then upd (ps_add s (static_of t)) else keep EParse
  | OpAddTemplate t => upd (ps_add_template s t)
  | OpLink tmpl new env => upd (ps_link s tmpl new env)
  | OpUnlink i =>
      match ps_unlink s i with
      | OOk (a, p) => (mkH (mk a) (h_stash h ++ [p]), (OOk tt, []))
      | OErr e => keep e
      end
  | OpRemoveStatic i =>
      match ps_remove_static s i with
      | OOk (a, p) => (mkH (mk a) (h_stash h ++ [p]), (OOk tt, []))
      | OErr e => keep e
      end
  | OpRemoveTemplate i => upd (ps_remove_template s i)
  | OpAddStashed k =>
      match h_stash h with
      | [] => keep ESkipped
      | p0 :: _ => upd (ps_add s (nth (Nat.modulo k (length (h_stash h))) (h_stash h) p0))
      end
  | OpMergeAst rename other =>
      match ps_merge s other rename with
      | OOk (a, r) => (mkH (mk a) (h_stash h), (OOk tt, r))
      | OErr e => keep e
      end
  | OpMergeApi _ _ => keep ESkipped
  end.

Definition run_ops (stepf : hstate -> op -> hstate * step_result) (ops : list op) (h : hstate) : hstate :=
  fold_left (fun h o => fst (stepf h o)) ops h.

Definition empty_h : hstate := mkH empty_api [].
