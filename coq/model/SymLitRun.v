(* SymLitRun.v — run command of the C18 model.
   (symlit <principal> <action> <resource> ((effect expr) ...) ((i ...) ...) ((i j) ...) ((i j) ...))
     policies; policy sets as lists of policy indices; pairs of policy-set indices; pairs of policy indices
   -> (ok (pol ...) (ppair ...) (pset ...) (pair ...)) with verdict symbols, `compile_error` for a policy whose
      compilation is a CompileError, or `unsupported` when some policy is outside the model's fragment.
   The enforcer assertions (acyclicity / transitivity over the footprint) are all `true` for a literal
   well-formed store; they are passed as [] here (the verdict does not depend on how many there are). *)
From Coq Require Import String.
From Cedar Require Export Codec SymLit.
Open Scope string_scope.

Definition e_verdict (a : list bool) : sexp :=
  SY (match verdict_of a with Unsat => "unsat" | Sat => "sat" end).

Definition d_polbody (s : sexp) : option (effect * expr) :=
  match s with
  | SL [ef; e] => match d_effect ef, d_expr e with Some a, Some b => Some (a, b) | _, _ => None end
  | _ => None
  end.
Definition d_pair (s : sexp) : option (nat * nat) :=
  match s with
  | SL [a; b] => match d_nat a, d_nat b with Some x, Some y => Some (x, y) | _, _ => None end
  | _ => None
  end.

Definition e_policy_verdicts (c : cres) : sexp :=
  match c with
  | COk t => SL [e_verdict (verify_never_errors [] t); e_verdict (verify_always_matches [] t);
                 e_verdict (verify_never_matches [] t)]
  | _ => SY "compile_error"
  end.

Definition absent : sexp := SY "absent".

Definition run_symlit_args (args : list sexp) : sexp :=
  match args with
  | [p; a; r; pols; psets; pairs; ppairs] =>
      match d_uid p, d_uid a, d_uid r, d_list d_polbody pols, d_list (d_list d_nat) psets,
            d_list d_pair pairs, d_list d_pair ppairs with
      | Some p, Some a, Some r, Some pols, Some psets, Some pairs, Some ppairs =>
          let q := mkRequest p a r [] in
          let cs := map (fun pe => (fst pe, compile_lit (fun _ => true) q (snd pe))) pols in
          if existsb (fun c => match snd c with CUnsupported => true | _ => false end) cs then SY "unsupported"
          else
            let term_at (i : nat) : option oterm :=
              match nth_error cs i with Some (_, COk t) => Some t | _ => None end in
            let pset_term (ids : list nat) : option bool :=
              match omapM (fun i => match nth_error cs i with
                                    | Some (ef, COk t) => Some (ef, t) | _ => None end) ids with
              | Some l => Some (authz_lit l)
              | None => None
              end in
            let ds := map pset_term psets in
            e_tag "ok"
              [ SL (map (fun c => e_policy_verdicts (snd c)) cs)
              ; SL (map (fun ij => match term_at (fst ij), term_at (snd ij) with
                                   | Some t1, Some t2 =>
                                       SL [e_verdict (verify_matches_equivalent [] t1 t2);
                                           e_verdict (verify_matches_implies [] t1 t2);
                                           e_verdict (verify_matches_disjoint [] t1 t2)]
                                   | _, _ => SL [absent; absent; absent]
                                   end) ppairs)
              ; SL (map (fun d => match d with
                                  | Some d => SL [e_verdict (verify_always_allows [] d);
                                                  e_verdict (verify_always_denies [] d)]
                                  | None => SL [absent; absent]
                                  end) ds)
              ; SL (map (fun ij => match nth_error ds (fst ij), nth_error ds (snd ij) with
                                   | Some (Some d1), Some (Some d2) =>
                                       SL [e_verdict (verify_implies [] d1 d2);
                                           e_verdict (verify_equivalent [] d1 d2);
                                           e_verdict (verify_disjoint [] d1 d2)]
                                   | _, _ => SL [absent; absent; absent]
                                   end) pairs) ]
      | _, _, _, _, _, _, _ => bad_input
      end
  | _ => bad_input
  end.

Definition run_symlit (cmd : string) (args : list sexp) : option sexp :=
  if sym_eqb cmd "symlit" then Some (run_symlit_args args) else None.
