(* TExpr.v — type-annotated expressions: ast::Expr<Option<Type>> as produced by the typechecker
   (PolicyCheck::Success / Irrelevant).  Shared by the properties that consume typechecked
   policies (C03 typechecker model, C14 TPE, C15 batched, C16 level, C17 manifest, C18 symcc).
   The harness dumps the typed expression the Rust typechecker produced; the model decodes it
   with `d_texpr`.  `erase` forgets the annotations. *)
From Coq Require Import String.
From Cedar Require Export Types Codec ConformRun.
Open Scope string_scope.

Definition oty := option ty.

Inductive texpr :=
| TELit (p : prim) (t : oty)
| TEVar (v : var) (t : oty)
| TESlot (s : slot) (t : oty)
| TEUnknown (n : str) (rt : option rtype) (t : oty)
| TEIf (c a b : texpr) (t : oty)
| TEAnd (a b : texpr) (t : oty)
| TEOr (a b : texpr) (t : oty)
| TEUnApp (op : unop) (a : texpr) (t : oty)
| TEBinApp (op : binop) (a b : texpr) (t : oty)
| TEExtCall (fn : name) (args : list texpr) (t : oty)
| TEGetAttr (e : texpr) (a : str) (t : oty)
| TEHasAttr (e : texpr) (a : str) (t : oty)
| TELike (e : texpr) (p : pattern) (t : oty)
| TEIs (e : texpr) (et : etype) (t : oty)
| TESet (items : list texpr) (t : oty)
| TERecord (items : list (str * texpr)) (t : oty).

Definition ty_of (e : texpr) : oty :=
  match e with
  | TELit _ t | TEVar _ t | TESlot _ t | TEUnknown _ _ t | TEIf _ _ _ t | TEAnd _ _ t | TEOr _ _ t
  | TEUnApp _ _ t | TEBinApp _ _ _ t | TEExtCall _ _ t | TEGetAttr _ _ t | TEHasAttr _ _ t
  | TELike _ _ t | TEIs _ _ t | TESet _ t | TERecord _ t => t
  end.

Fixpoint erase (e : texpr) : expr :=
  match e with
  | TELit p _ => Lit p
  | TEVar v _ => Var v
  | TESlot s _ => Slot s
  | TEUnknown n rt _ => Unknown n rt
  | TEIf c a b _ => If (erase c) (erase a) (erase b)
  | TEAnd a b _ => And (erase a) (erase b)
  | TEOr a b _ => Or (erase a) (erase b)
  | TEUnApp op a _ => UnApp op (erase a)
  | TEBinApp op a b _ => BinApp op (erase a) (erase b)
  | TEExtCall fn args _ => ExtCall fn (map erase args)
  | TEGetAttr e a _ => GetAttr (erase e) a
  | TEHasAttr e a _ => HasAttr (erase e) a
  | TELike e p _ => Like (erase e) p
  | TEIs e et _ => Is (erase e) et
  | TESet items _ => SetE (map erase items)
  | TERecord items _ => RecordE (map (fun kv => (fst kv, erase (snd kv))) items)
  end.

(* S-expression form:  (t <type|none> <node>)  where <node> is the untyped constructor form of
   Codec.d_expr with typed children. *)
Definition d_oty (s : sexp) : option oty :=
  match s with
  | SY "none" => Some None
  | _ => option_map Some (d_ty s)
  end.

Fixpoint d_texpr (s : sexp) : option texpr :=
  match s with
  | SL [SY "t"; tys; SL (SY k :: args)] =>
      match d_oty tys with
      | None => None
      | Some t =>
          let dl := fix dl (l : list sexp) : option (list texpr) :=
                      match l with
                      | [] => Some []
                      | x :: l' => match d_texpr x, dl l' with
                                   | Some e, Some es => Some (e :: es) | _, _ => None end
                      end in
          let dr := fix dr (l : list sexp) : option (list (str * texpr)) :=
                      match l with
                      | [] => Some []
                      | SL [SS key; x] :: l' => match d_texpr x, dr l' with
                                                | Some e, Some es => Some ((key, e) :: es) | _, _ => None end
                      | _ => None
                      end in
          match args with
          | [a] =>
              if sym_eqb k "lit" then option_map (fun p => TELit p t) (d_prim a)
              else if sym_eqb k "var" then option_map (fun v => TEVar v t) (d_var a)
              else if sym_eqb k "slot" then option_map (fun v => TESlot v t) (d_slot a)
              else if sym_eqb k "set" then match a with SL items => option_map (fun l => TESet l t) (dl items) | _ => None end
              else if sym_eqb k "record" then
                match a with SL items => option_map (fun r => TERecord (sort_assoc r) t) (dr items) | _ => None end
              else None
          | [a; b] =>
              if sym_eqb k "and" then match d_texpr a, d_texpr b with Some x, Some y => Some (TEAnd x y t) | _, _ => None end
              else if sym_eqb k "or" then match d_texpr a, d_texpr b with Some x, Some y => Some (TEOr x y t) | _, _ => None end
              else if sym_eqb k "unop" then match d_unop a, d_texpr b with Some o, Some y => Some (TEUnApp o y t) | _, _ => None end
              else if sym_eqb k "ext" then
                match d_name a, b with Some n, SL items => option_map (fun l => TEExtCall n l t) (dl items) | _, _ => None end
              else if sym_eqb k "getattr" then match d_texpr a, b with Some x, SS key => Some (TEGetAttr x key t) | _, _ => None end
              else if sym_eqb k "hasattr" then match d_texpr a, b with Some x, SS key => Some (TEHasAttr x key t) | _, _ => None end
              else if sym_eqb k "like" then match d_texpr a, d_list d_patelem b with Some x, Some p => Some (TELike x p t) | _, _ => None end
              else if sym_eqb k "is" then match d_texpr a, d_name b with Some x, Some n => Some (TEIs x n t) | _, _ => None end
              else if sym_eqb k "unknown" then match a, d_opt d_rtype b with SS n, Some rt => Some (TEUnknown n rt t) | _, _ => None end
              else None
          | [a; b; c] =>
              if sym_eqb k "if" then
                match d_texpr a, d_texpr b, d_texpr c with Some x, Some y, Some z => Some (TEIf x y z t) | _, _, _ => None end
              else if sym_eqb k "binop" then
                match d_binop a, d_texpr b, d_texpr c with Some o, Some y, Some z => Some (TEBinApp o y z t) | _, _, _ => None end
              else None
          | _ => None
          end
      end
  | _ => None
  end.

(* a request environment (RequestEnv::DeclaredAction) *)
Record reqenv := mkReqEnv {
  re_principal : etype;
  re_action : uid;
  re_resource : etype;
  re_context : ty;
  re_principal_slot : option etype;
  re_resource_slot : option etype
}.

Definition d_reqenv (s : sexp) : option reqenv :=
  match s with
  | SL [SY "reqenv"; p; a; r; c; ps; rs] =>
      match d_name p, d_uid a, d_name r, d_ty c, d_opt d_name ps, d_opt d_name rs with
      | Some p, Some a, Some r, Some c, Some ps, Some rs => Some (mkReqEnv p a r c ps rs)
      | _, _, _, _, _, _ => None
      end
  | _ => None
  end.
