(* Codec.v — S-expression decoders/encoders for the core model types (drivers only; no
   theorem depends on these).  The same definitions run under extraction and vm_compute. *)
From Coq Require Import String.
From Cedar Require Export Sexp Authz.
Open Scope string_scope.

Definition d_name (s : sexp) : option name := d_list d_str s.

Definition d_uid (s : sexp) : option uid :=
  match s with
  | SL [SY "uid"; n; SS e] => match d_name n with Some n => Some (mkUid n e) | None => None end
  | _ => None
  end.

Definition d_prim (s : sexp) : option prim :=
  match s with
  | SL [SY t; a] =>
      if sym_eqb t "bool" then option_map PBool (d_bool a)
      else if sym_eqb t "long" then option_map PLong (d_int a)
      else if sym_eqb t "string" then option_map PString (d_str a)
      else if sym_eqb t "entity" then option_map PEntity (d_uid a)
      else None
  | _ => None
  end.

Definition d_var (s : sexp) : option var :=
  match s with
  | SY t => if sym_eqb t "principal" then Some Principal else if sym_eqb t "action" then Some Action
            else if sym_eqb t "resource" then Some Resource else if sym_eqb t "context" then Some Context
            else None
  | _ => None
  end.

Definition d_slot (s : sexp) : option slot :=
  match s with
  | SY t => if sym_eqb t "principal" then Some SlotPrincipal
            else if sym_eqb t "resource" then Some SlotResource else None
  | _ => None
  end.

Definition d_unop (s : sexp) : option unop :=
  match s with
  | SY t => if sym_eqb t "not" then Some UNot else if sym_eqb t "neg" then Some UNeg
            else if sym_eqb t "isEmpty" then Some UIsEmpty else None
  | _ => None
  end.

Definition d_binop (s : sexp) : option binop :=
  match s with
  | SY t =>
      if sym_eqb t "eq" then Some BEq else if sym_eqb t "less" then Some BLess
      else if sym_eqb t "lesseq" then Some BLessEq else if sym_eqb t "add" then Some BAdd
      else if sym_eqb t "sub" then Some BSub else if sym_eqb t "mul" then Some BMul
      else if sym_eqb t "in" then Some BIn else if sym_eqb t "contains" then Some BContains
      else if sym_eqb t "containsAll" then Some BContainsAll
      else if sym_eqb t "containsAny" then Some BContainsAny
      else if sym_eqb t "getTag" then Some BGetTag else if sym_eqb t "hasTag" then Some BHasTag
      else None
  | _ => None
  end.

Definition d_patelem (s : sexp) : option patelem :=
  match s with
  | SI z => Some (PChar (Z.to_N z))
  | SY t => if sym_eqb t "star" then Some PStar else None
  | _ => None
  end.

Definition d_rtype (s : sexp) : option rtype :=
  match s with
  | SY t => if sym_eqb t "bool" then Some RTBool else if sym_eqb t "long" then Some RTLong
            else if sym_eqb t "string" then Some RTString else if sym_eqb t "set" then Some RTSet
            else if sym_eqb t "record" then Some RTRecord else None
  | SL [SY t; n] => if sym_eqb t "entity" then option_map RTEntity (d_name n)
                    else if sym_eqb t "ext" then option_map RTExt (d_name n) else None
  | _ => None
  end.

Definition d_opt {A} (f : sexp -> option A) (s : sexp) : option (option A) :=
  match s with
  | SY "none" => Some None
  | SL [SY "some"; x] => option_map Some (f x)
  | _ => None
  end.

Fixpoint d_expr (s : sexp) : option expr :=
  match s with
  | SL (SY t :: args) =>
      let dl := fix dl (l : list sexp) : option (list expr) :=
                  match l with
                  | [] => Some []
                  | x :: l' => match d_expr x, dl l' with
                               | Some e, Some es => Some (e :: es) | _, _ => None end
                  end in
      let dr := fix dr (l : list sexp) : option (list (str * expr)) :=
                  match l with
                  | [] => Some []
                  | SL [SS k; x] :: l' => match d_expr x, dr l' with
                                          | Some e, Some es => Some ((k, e) :: es) | _, _ => None end
                  | _ => None
                  end in
      match args with
      | [a] =>
          if sym_eqb t "lit" then option_map Lit (d_prim a)
          else if sym_eqb t "var" then option_map Var (d_var a)
          else if sym_eqb t "slot" then option_map Slot (d_slot a)
          else if sym_eqb t "set" then match a with SL items => option_map SetE (dl items) | _ => None end
          else if sym_eqb t "record" then
            match a with SL items => option_map (fun r => RecordE (sort_assoc r)) (dr items) | _ => None end
          else None
      | [a; b] =>
          if sym_eqb t "and" then match d_expr a, d_expr b with Some x, Some y => Some (And x y) | _, _ => None end
          else if sym_eqb t "or" then match d_expr a, d_expr b with Some x, Some y => Some (Or x y) | _, _ => None end
          else if sym_eqb t "unop" then match d_unop a, d_expr b with Some o, Some y => Some (UnApp o y) | _, _ => None end
          else if sym_eqb t "ext" then
            match d_name a, b with Some n, SL items => option_map (ExtCall n) (dl items) | _, _ => None end
          else if sym_eqb t "getattr" then match d_expr a, b with Some x, SS k => Some (GetAttr x k) | _, _ => None end
          else if sym_eqb t "hasattr" then match d_expr a, b with Some x, SS k => Some (HasAttr x k) | _, _ => None end
          else if sym_eqb t "like" then match d_expr a, d_list d_patelem b with Some x, Some p => Some (Like x p) | _, _ => None end
          else if sym_eqb t "is" then match d_expr a, d_name b with Some x, Some n => Some (Is x n) | _, _ => None end
          else if sym_eqb t "unknown" then match a, d_opt d_rtype b with SS n, Some ty => Some (Unknown n ty) | _, _ => None end
          else None
      | [a; b; c] =>
          if sym_eqb t "if" then
            match d_expr a, d_expr b, d_expr c with Some x, Some y, Some z => Some (If x y z) | _, _, _ => None end
          else if sym_eqb t "binop" then
            match d_binop a, d_expr b, d_expr c with Some o, Some y, Some z => Some (BinApp o y z) | _, _, _ => None end
          else None
      | _ => None
      end
  | _ => None
  end.

Definition d_ext (s : sexp) : option ext :=
  match s with
  | SL [SY t; SI z] =>
      if sym_eqb t "decimal" then Some (EDecimal z)
      else if sym_eqb t "datetime" then Some (EDatetime z)
      else if sym_eqb t "duration" then Some (EDuration z) else None
  | SL [SY "ip"; v6; SI a; SI p] =>
      match d_bool v6 with Some b => Some (EIp (mkIp b (Z.to_N a) (Z.to_N p))) | None => None end
  | _ => None
  end.

Fixpoint d_value (s : sexp) : option value :=
  match s with
  | SL [SY t; a] =>
      if sym_eqb t "prim" then option_map VPrim (d_prim a)
      else if sym_eqb t "ext" then option_map VExt (d_ext a)
      else if sym_eqb t "set" then
        match a with
        | SL items =>
            option_map VSet
              ((fix dl (l : list sexp) : option (list value) :=
                  match l with
                  | [] => Some []
                  | x :: l' => match d_value x, dl l' with
                               | Some e, Some es => Some (e :: es) | _, _ => None end
                  end) items)
        | _ => None
        end
      else if sym_eqb t "record" then
        match a with
        | SL items =>
            option_map (fun r => VRecord (sort_assoc r))
              ((fix dr (l : list sexp) : option (list (str * value)) :=
                  match l with
                  | [] => Some []
                  | SL [SS k; x] :: l' => match d_value x, dr l' with
                                          | Some e, Some es => Some ((k, e) :: es) | _, _ => None end
                  | _ => None
                  end) items)
        | _ => None
        end
      else None
  | _ => None
  end.

Definition d_attrs (s : sexp) : option (list (str * value)) :=
  match d_value (SL [SY "record"; s]) with Some (VRecord r) => Some r | _ => None end.

Definition d_entity (s : sexp) : option (uid * edata) :=
  match s with
  | SL [SY "entity"; u; attrs; tags; ancs] =>
      match d_uid u, d_attrs attrs, d_attrs tags, d_list d_uid ancs with
      | Some u, Some a, Some t, Some n => Some (u, mkEdata a t n)
      | _, _, _, _ => None
      end
  | _ => None
  end.

Definition d_entities (s : sexp) : option entities := d_list d_entity s.

Definition d_request (s : sexp) : option request :=
  match s with
  | SL [SY "request"; p; a; r; c] =>
      match d_uid p, d_uid a, d_uid r, d_attrs c with
      | Some p, Some a, Some r, Some c => Some (mkRequest p a r c)
      | _, _, _, _ => None
      end
  | _ => None
  end.

Definition d_slotenv (s : sexp) : option slotenv :=
  d_list (fun x => match x with
                   | SL [sl; u] => match d_slot sl, d_uid u with
                                   | Some a, Some b => Some (a, b) | _, _ => None end
                   | _ => None end) s.

Definition d_effect (s : sexp) : option effect :=
  match s with
  | SY t => if sym_eqb t "permit" then Some Permit else if sym_eqb t "forbid" then Some Forbid else None
  | _ => None
  end.

Definition d_eref (s : sexp) : option eref :=
  match s with
  | SY "slot" => Some RefSlot
  | _ => option_map RefUid (d_uid s)
  end.

Definition d_prconstraint (s : sexp) : option prconstraint :=
  match s with
  | SY "any" => Some CAny
  | SL [SY t; a] =>
      if sym_eqb t "eq" then option_map CEq (d_eref a)
      else if sym_eqb t "in" then option_map CIn (d_eref a)
      else if sym_eqb t "is" then option_map CIs (d_name a)
      else None
  | SL [SY "isin"; n; r] =>
      match d_name n, d_eref r with Some n, Some r => Some (CIsIn n r) | _, _ => None end
  | _ => None
  end.

Definition d_aconstraint (s : sexp) : option aconstraint :=
  match s with
  | SY "any" => Some AAny
  | SL [SY t; a] =>
      if sym_eqb t "eq" then option_map AEq (d_uid a)
      else if sym_eqb t "in" then option_map AIn (d_list d_uid a)
      else None
  | _ => None
  end.

Definition d_annotations (s : sexp) : option annotations :=
  d_list (fun x => match x with SL [SS k; SS v] => Some (k, v) | _ => None end) s.

Definition d_template (s : sexp) : option template :=
  match s with
  | SL [SY "template"; SS id; ann; eff; pc; ac; rc; body] =>
      match d_annotations ann, d_effect eff, d_prconstraint pc, d_aconstraint ac,
            d_prconstraint rc, d_opt d_expr body with
      | Some ann, Some eff, Some pc, Some ac, Some rc, Some body =>
          Some (mkTemplate id ann eff pc ac rc body)
      | _, _, _, _, _, _ => None
      end
  | _ => None
  end.

Definition d_policy (s : sexp) : option policy :=
  match s with
  | SL [SY "policy"; t; link; env] =>
      match d_template t, d_opt d_str link, d_slotenv env with
      | Some t, Some l, Some env => Some (mkPolicy t l env)
      | _, _, _ => None
      end
  | _ => None
  end.

(* ---- encoders ---- *)
Definition e_name (n : name) : sexp := e_list SS n.
Definition e_uid (u : uid) : sexp := SL [SY "uid"; e_name (uty u); SS (ueid u)].
Definition e_prim (p : prim) : sexp :=
  match p with
  | PBool b => SL [SY "bool"; e_bool b]
  | PLong z => SL [SY "long"; SI z]
  | PString s => SL [SY "string"; SS s]
  | PEntity u => SL [SY "entity"; e_uid u]
  end.
Definition e_ext (x : ext) : sexp :=
  match x with
  | EDecimal z => SL [SY "decimal"; SI z]
  | EDatetime z => SL [SY "datetime"; SI z]
  | EDuration z => SL [SY "duration"; SI z]
  | EIp ip => SL [SY "ip"; e_bool (ip_v6 ip); SI (Z.of_N (ip_addr ip)); SI (Z.of_N (ip_prefix ip))]
  end.
Fixpoint e_value (v : value) : sexp :=
  match v with
  | VPrim p => SL [SY "prim"; e_prim p]
  | VExt x => SL [SY "ext"; e_ext x]
  | VSet l => SL [SY "set"; SL (map e_value l)]
  | VRecord l => SL [SY "record"; SL (map (fun kv => SL [SS (fst kv); e_value (snd kv)]) l)]
  end.

Definition e_decision (d : decision) : sexp := SY (match d with Allow => "allow" | Deny => "deny" end).
Definition e_response (r : response) : sexp :=
  SL [SY "response"; e_decision (rdecision r); e_list SS (rreasons r);
      e_list (fun ie => SL [SS (fst ie); e_err (snd ie)]) (rerrors r)].
