(* Ffi.v — C19: the stateful front end of cedar_policy::ffi as a state machine, the id assignment
   performed by input assembly, and the CLI exit-code table.  Definitions only.

   Transcribed from cedar-policy/src/ffi/is_authorized.rs
     thread_local PREPARSED_POLICY_SETS : HashMap<String, PolicySet>
     thread_local PREPARSED_SCHEMAS     : HashMap<String, Schema>
     preparse_policy_set(name, src)  = match src.parse() { Ok(p) => insert(name,p); Success | Err => Failure }
     preparse_schema(name, src)      = likewise
     StatefulAuthorizationCall::parse: schema looked up iff a name is given (missing -> error pushed),
        policy set looked up (missing -> error pushed), then principal/action/resource, early return
        if anything failed; then context / request / entities exactly as AuthorizationCall::parse.
   from cedar-policy/src/ffi/utils.rs (StaticPolicySet::parse: Concatenated / Set / Map) and
   cedar-policy-core parser (ids `policy<i>` by position), and cedar-policy-cli/src/lib.rs
   (CedarExitCode::report).

   The parsers and everything that happens after the two look-ups (uid/context/request/entities
   parsing and Authorizer::is_authorized) are Section variables: the reference for them is the Rust
   API itself, not the model evaluator.  One thread only (thread-local storage across threads and
   the wasm bindings are outside the model). *)
From Coq Require Import Decimal DecimalN.
From Cedar Require Export Sexp.

Definition cname := str.

(* HashMap<String, V> observed through get/insert only *)
Definition cmap (V : Type) := list (cname * V).
Fixpoint cget {V} (n : cname) (m : cmap V) : option V :=
  match m with
  | [] => None
  | (k, v) :: m' => if str_eqb n k then Some v else cget n m'
  end.
Definition cinsert {V} (n : cname) (v : V) (m : cmap V) : cmap V := (n, v) :: m.

Section Cache.
  Variables src pset schema call answer : Type.
  Variable parse_pset : src -> option pset.
  Variable parse_schema : src -> option schema.
  (* everything after policies and schema are available: identical code in
     AuthorizationCall::parse and StatefulAuthorizationCall::parse, then the authorizer *)
  Variable authorize : pset -> option schema -> call -> answer.

  Record state := mkState { psets : cmap pset; schemas : cmap schema }.
  Definition empty_state : state := mkState [] [].

  Inductive op :=
  | PreparsePset (n : cname) (s : src)
  | PreparseSchema (n : cname) (s : src)
  | StatefulAuth (sn : option cname) (pn : cname) (c : call).

  Inductive ans :=
  | AParse (ok : bool)                              (* CheckParseAnswer::Success / Failure *)
  | AAuth (a : answer)                              (* what the shared tail of the call returns *)
  | ANotFound (schema_missing pset_missing : bool). (* Failure carrying the "not found" errors *)

  Definition is_none {A} (o : option A) : bool := match o with None => true | Some _ => false end.

  (* StatefulAuthorizationCall::parse up to the early return + the shared tail *)
  Definition stateful (st : state) (sn : option cname) (pn : cname) (c : call) : ans :=
    let maybe_schema : option (option schema) :=
      match sn with
      | None => Some None
      | Some n => match cget n (schemas st) with Some s => Some (Some s) | None => None end
      end in
    let maybe_policies := cget pn (psets st) in
    match maybe_schema, maybe_policies with
    | Some so, Some ps => AAuth (authorize ps so c)
    | so, po => ANotFound (is_none so) (is_none po)
    end.

  Definition step (st : state) (o : op) : state * ans :=
    match o with
    | PreparsePset n s =>
        match parse_pset s with
        | Some p => (mkState (cinsert n p (psets st)) (schemas st), AParse true)
        | None => (st, AParse false)
        end
    | PreparseSchema n s =>
        match parse_schema s with
        | Some x => (mkState (psets st) (cinsert n x (schemas st)), AParse true)
        | None => (st, AParse false)
        end
    | StatefulAuth sn pn c => (st, stateful st sn pn c)
    end.

  Definition run (h : list op) : state := fold_left (fun st o => fst (step st o)) h empty_state.

  (* the answers of a whole history, in order *)
  Fixpoint trace_from (st : state) (h : list op) : list ans :=
    match h with
    | [] => []
    | o :: h' => let (st', a) := step st o in a :: trace_from st' h'
    end.
  Definition trace (h : list op) : list ans := trace_from empty_state h.

  (* ---- the specification side: the stateless call on SOURCES ---- *)

  (* the source last successfully registered under a name *)
  Definition reg_pset (h : list op) (n : cname) : option src :=
    fold_left (fun acc o =>
                 match o with
                 | PreparsePset n' s => if str_eqb n n' && negb (is_none (parse_pset s)) then Some s else acc
                 | _ => acc
                 end) h None.
  Definition reg_schema (h : list op) (n : cname) : option src :=
    fold_left (fun acc o =>
                 match o with
                 | PreparseSchema n' s => if str_eqb n n' && negb (is_none (parse_schema s)) then Some s else acc
                 | _ => acc
                 end) h None.

  (* the stateless entry point given policy and schema SOURCES (AuthorizationCall::parse followed
     by the authorizer), on inputs whose sources parse; a parse failure is a Failure answer that
     the theorems never reach (registered sources parse) *)
  Inductive sans := SAuth (a : answer) | SParseFailure.
  Definition stateless (ps : src) (ss : option src) (c : call) : sans :=
    match parse_pset ps with
    | None => SParseFailure
    | Some p =>
        match ss with
        | None => SAuth (authorize p None c)
        | Some s => match parse_schema s with
                    | None => SParseFailure
                    | Some x => SAuth (authorize p (Some x) c)
                    end
        end
    end.

  (* what a stateful call must answer after history h *)
  Inductive spec :=
  | SpecStateless (ps : src) (ss : option src)   (* = stateless ps ss call *)
  | SpecNotFound (schema_missing pset_missing : bool).
  Definition spec_of (h : list op) (sn : option cname) (pn : cname) : spec :=
    let so : option (option src) :=
      match sn with
      | None => Some None
      | Some n => match reg_schema h n with Some s => Some (Some s) | None => None end
      end in
    match so, reg_pset h pn with
    | Some ss, Some ps => SpecStateless ps ss
    | so', po => SpecNotFound (is_none so') (is_none po)
    end.

  Definition meets (a : ans) (sp : spec) (c : call) : Prop :=
    match sp with
    | SpecStateless ps ss => exists r, stateless ps ss c = SAuth r /\ a = AAuth r
    | SpecNotFound sm pm => a = ANotFound sm pm
    end.
End Cache.

Arguments PreparsePset {src call} n s.
Arguments PreparseSchema {src call} n s.
Arguments StatefulAuth {src call} sn pn c.
Arguments AParse {answer} ok.
Arguments AAuth {answer} a.
Arguments ANotFound {answer} schema_missing pset_missing.

(* ------------------------------------------------------------------ id assignment *)

Fixpoint uint_cps (u : Decimal.uint) : str :=
  match u with
  | Nil => []
  | D0 u => 48%N :: uint_cps u | D1 u => 49%N :: uint_cps u | D2 u => 50%N :: uint_cps u
  | D3 u => 51%N :: uint_cps u | D4 u => 52%N :: uint_cps u | D5 u => 53%N :: uint_cps u
  | D6 u => 54%N :: uint_cps u | D7 u => 55%N :: uint_cps u | D8 u => 56%N :: uint_cps u
  | D9 u => 57%N :: uint_cps u
  end.

(* "policy" *)
Definition policy_prefix : str := [112; 111; 108; 105; 99; 121]%N.
(* parser: the i-th policy of a text gets PolicyID "policy{i}" *)
Definition policy_id (i : N) : str := policy_prefix ++ uint_cps (N.to_uint i).

Fixpoint ids_from (i : N) (n : nat) : list str :=
  match n with
  | O => []
  | S n' => policy_id i :: ids_from (N.succ i) n'
  end.

(* the three shapes of `staticPolicies`; `B` is a policy body *)
Inductive static_src (B : Type) :=
| Concatenated (ps : list B)            (* one text: policies in textual order *)
| SetOf (ps : list (bool * B))          (* JSON array: each parsed with id None; true = JSON policy *)
| MapOf (m : list (str * B)).           (* JSON object id -> policy *)
Arguments Concatenated {B} ps.
Arguments SetOf {B} ps.
Arguments MapOf {B} m.

Fixpoint mem_str (x : str) (l : list str) : bool :=
  match l with [] => false | y :: l' => str_eqb x y || mem_str x l' end.
Fixpoint nodup_strs (l : list str) : bool :=
  match l with [] => true | x :: l' => negb (mem_str x l') && nodup_strs l' end.

(* "JSON policy": the default id of Policy::from_json(None, _) *)
Definition json_policy_id : str := [74; 83; 79; 78; 32; 112; 111; 108; 105; 99; 121]%N.
Definition default_id (is_json : bool) : str := if is_json then json_policy_id else policy_id 0.

(* ids attached to the bodies before PolicySet::add; Policy::parse(None, _) gives "policy0",
   Policy::from_json(None, _) gives "JSON policy" *)
Definition assign_ids {B} (s : static_src B) : list (str * B) :=
  match s with
  | Concatenated ps => combine (ids_from 0 (length ps)) ps
  | SetOf ps => map (fun kb => (default_id (fst kb), snd kb)) ps
  | MapOf m => m
  end.

(* PolicySet::add / from_policies: a duplicate id is an error (AlreadyDefined) *)
Definition assemble {B} (s : static_src B) : option (list (str * B)) :=
  let l := assign_ids s in
  if nodup_strs (map fst l) then Some l else None.

(* ------------------------------------------------------------------ CLI exit status *)

(* cedar-policy-cli/src/lib.rs: CedarExitCode and Termination::report *)
Inductive exit_class := ExSuccess | ExFailure | ExAuthorizeDeny | ExValidationFailure | ExUnknown.
Definition exit_code (c : exit_class) : N :=
  match c with
  | ExSuccess => 0 | ExFailure => 1 | ExAuthorizeDeny => 2 | ExValidationFailure => 3 | ExUnknown => 4
  end%N.

(* command/authorize.rs: Ok(Allow) -> Success, Ok(Deny) -> AuthorizeDeny, Err -> Failure *)
Inductive auth_outcome := AoAllow | AoDeny | AoError.
Definition authorize_exit (o : auth_outcome) : exit_class :=
  match o with AoAllow => ExSuccess | AoDeny => ExAuthorizeDeny | AoError => ExFailure end.

(* command/validate.rs: input errors -> Failure; !passed || (deny_warnings && warnings) ->
   ValidationFailure; else Success *)
Inductive validate_outcome := VoInputError | VoResult (passed has_warnings : bool).
Definition validate_exit (deny_warnings : bool) (o : validate_outcome) : exit_class :=
  match o with
  | VoInputError => ExFailure
  | VoResult passed warns =>
      if negb passed || (deny_warnings && warns) then ExValidationFailure else ExSuccess
  end.
