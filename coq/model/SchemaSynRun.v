(* SchemaSynRun.v — S-expression codec and run commands of the `schema_syn` family (drivers only).

   fragment : ((ns-name commons entities actions) ...)
     ns-name  = ([..] ...)                       () = the empty namespace
     commons  = (([id] type) ...)
     entities = (([id] (enum ([eid] ...))) | ([id] (std (name ...) type none|(some type))) ...)
     actions  = (([id] none|(some ((none|(some name) [eid]) ...)) none|(some ((name ...) (name ...) type))) ...)
     type     = (prim long|string|bool) | (ext [id]) | (set type) | (record (([attr] type required) ...) open)
              | (entity name) | (common name) | (eoc name)
   commands:
     (schema_resolve fragment)              -> (ok (schema ...)) | (err Class)
     (schema_cedar_roundtrip fragment)      -> (refused) | (ok (schema ...)) | (err Class)   resolve of the fragment
                                               after a trip through the Cedar syntax (cedar_roundtrip)
   schema answer: (schema ((name attrs open tags descendants enum) ...) ((uid principals resources context descendants) ...)) *)
From Coq Require Import String.
From Cedar Require Export Codec SchemaSyn.
Open Scope string_scope.

Fixpoint d_tyx (s : sexp) : option tyx :=
  match s with
  | SL [SY "prim"; SY p] =>
      if sym_eqb p "long" then Some (XPrim PLong)
      else if sym_eqb p "string" then Some (XPrim PString)
      else if sym_eqb p "bool" then Some (XPrim PBool) else None
  | SL [SY "ext"; SS n] => Some (XExt n)
  | SL [SY "set"; e] => option_map XSet (d_tyx e)
  | SL [SY "record"; SL items; o] =>
      match (fix dr (l : list sexp) : option (list (str * (tyx * bool))) :=
               match l with
               | [] => Some []
               | SL [SS k; t; r] :: l' =>
                   match d_tyx t, d_bool r, dr l' with
                   | Some t, Some r, Some rest => Some ((k, (t, r)) :: rest)
                   | _, _, _ => None
                   end
               | _ => None
               end) items, d_bool o with
      | Some a, Some o => Some (XRecord a o)
      | _, _ => None
      end
  | SL [SY "entity"; n] => option_map XEntity (d_name n)
  | SL [SY "common"; n] => option_map XCommon (d_name n)
  | SL [SY "eoc"; n] => option_map XEoc (d_name n)
  | _ => None
  end.

Definition d_common (s : sexp) : option (str * tyx) :=
  match s with
  | SL [SS id; t] => option_map (fun t => (id, t)) (d_tyx t)
  | _ => None
  end.

Definition d_entdecl (s : sexp) : option (str * entdecl) :=
  match s with
  | SL [SS id; SL [SY "enum"; ch]] => option_map (fun c => (id, EEnum c)) (d_list d_str ch)
  | SL [SS id; SL [SY "std"; ps; shape; tags]] =>
      match d_list d_name ps, d_tyx shape, d_opt d_tyx tags with
      | Some ps, Some sh, Some tg => Some (id, EStd ps sh tg)
      | _, _, _ => None
      end
  | _ => None
  end.

Definition d_aref (s : sexp) : option (option name * str) :=
  match s with
  | SL [t; SS id] => option_map (fun t => (t, id)) (d_opt d_name t)
  | _ => None
  end.

Definition d_applies (s : sexp) : option (list name * list name * tyx) :=
  match s with
  | SL [ps; rs; c] =>
      match d_list d_name ps, d_list d_name rs, d_tyx c with
      | Some ps, Some rs, Some c => Some (ps, rs, c)
      | _, _, _ => None
      end
  | _ => None
  end.

Definition d_actdecl (s : sexp) : option (str * actdecl) :=
  match s with
  | SL [SS id; mo; ap] =>
      match d_opt (d_list d_aref) mo, d_opt d_applies ap with
      | Some mo, Some ap => Some (id, mkActDecl mo ap)
      | _, _ => None
      end
  | _ => None
  end.

Definition d_nsdef (s : sexp) : option nsdef :=
  match s with
  | SL [n; cs; es; acts] =>
      match d_name n, d_list d_common cs, d_list d_entdecl es, d_list d_actdecl acts with
      | Some n, Some cs, Some es, Some acts => Some (mkNs n cs es acts)
      | _, _, _, _ => None
      end
  | _ => None
  end.

Definition d_fragment (s : sexp) : option fragment := d_list d_nsdef s.

(* ---- answers *)
Fixpoint e_ty (t : ty) : sexp :=
  match t with
  | TNever => SY "never"
  | TBool BAny => SL [SY "bool"; SY "any"]
  | TBool BTrue => SL [SY "bool"; SY "true"]
  | TBool BFalse => SL [SY "bool"; SY "false"]
  | TLong => SY "long"
  | TString => SY "string"
  | TSet None => SL [SY "set"; SY "none"]
  | TSet (Some e) => SL [SY "set"; SL [SY "some"; e_ty e]]
  | TEntity AnyEntity => SL [SY "entity"; SY "any"]
  | TEntity (ELub ts) => SL [SY "entity"; SL [SY "lub"; e_list e_name ts]]
  | TRecord attrs o =>
      SL [SY "record";
          SL ((fix go (l : attrs_ty) : list sexp :=
                 match l with
                 | [] => []
                 | (k, (a, r)) :: l' => SL [SS k; e_ty a; e_bool r] :: go l'
                 end) attrs);
          e_bool o]
  | TExt n => SL [SY "ext"; e_name n]
  end.

Definition e_opt9 {A} (f : A -> sexp) (o : option A) : sexp :=
  match o with None => SY "none" | Some x => SL [SY "some"; f x] end.

Definition e_attrs_ty (a : attrs_ty) : sexp :=
  match e_ty (TRecord a false) with SL [_; items; _] => items | x => x end.

Definition e_schema (s : schema) : sexp :=
  SL [SY "schema";
      e_list (fun ni => let '(n, i) := ni in
                        SL [e_name n; e_attrs_ty (et_attrs i); e_bool (et_open i); e_opt9 e_ty (et_tags i);
                            e_list e_name (et_descendants i); e_opt9 (e_list SS) (et_enum i)]) (s_etypes s);
      e_list (fun ui => let '(u, i) := ui in
                        SL [e_uid u; e_list e_name (ai_principals i); e_list e_name (ai_resources i);
                            e_ty (ai_context i); e_list e_uid (ai_descendants i)]) (s_actions s)].

Definition e_serr (e : serr) : sexp :=
  SY (match e with
      | SDuplicate => "Duplicate" | SParseReject => "ParseReject"
      | SActionEntityTypeDeclared => "ActionEntityTypeDeclared"
      | STypeShadowing => "TypeShadowing" | SActionShadowing => "ActionShadowing"
      | STypeNotDefined => "TypeNotDefined" | SActionNotDefined => "ActionNotDefined"
      | SCycleInCommonTypes => "CycleInCommonTypeReferences"
      | SUnknownExtensionType => "UnknownExtensionType"
      | SNotRecord => "ContextOrShapeNotRecord"
      | SCycleInActionHierarchy => "CycleInActionHierarchy"
      | SUndeclaredEntityTypes => "UndeclaredEntityTypes"
      | SReservedName => "ReservedName" | SInvariant => "Invariant" | SOutOfFuel => "OutOfFuel"
      end).

Definition e_sres (r : sres schema) : sexp :=
  match r with SOk s => SL [SY "ok"; e_schema s] | SErr e => SL [SY "err"; e_serr e] end.

Definition run_schema_syn (cmd : string) (args : list sexp) : option sexp :=
  if sym_eqb cmd "schema_resolve" then
    Some (match args with
          | [f] => match d_fragment f with Some f => e_sres (resolve f) | None => bad_input end
          | _ => bad_input
          end)
  else if sym_eqb cmd "schema_cedar_roundtrip" then
    Some (match args with
          | [f] => match d_fragment f with
                   | Some f => match cedar_roundtrip f with
                               | Some f' => e_sres (resolve f')
                               | None => SL [SY "refused"]
                               end
                   | None => bad_input
                   end
          | _ => bad_input
          end)
  else None.
