(* Schema.v — the RESOLVED validator schema as data.  Shared foundation.  Definitions only.

   Mirrors cedar-policy-core/src/validator/schema.rs (ValidatorSchema: entity_types,
   action_ids, actions), schema/entity_type.rs (ValidatorEntityType, ValidatorEntityTypeKind),
   schema/action.rs (ValidatorActionId, ValidatorApplySpec) and the views of
   validator/coreschema.rs (CoreSchema, EntityTypeDescription).

   "Resolved" = after namespace resolution, common-type inlining and the transitive closure of
   both hierarchies: `et_descendants` / `ai_descendants` are what the Rust structures hold
   after ValidatorSchema construction (compute_tc), i.e. ALL descendants.  Schema construction
   itself (json_schema -> ValidatorSchema) is not modelled; the Python resolver that produces
   this structure is cross-checked against a dump of Rust's ValidatorSchema on every run. *)
From Coq Require Import String.
From Cedar Require Export Types Entities.

(* ValidatorEntityType *)
Record etype_info := mkEtypeInfo {
  et_attrs : attrs_ty;              (* attributes (always [] for enumerated types) *)
  et_open : bool;                   (* open_attributes().is_open() (false for enumerated types) *)
  et_tags : option ty;              (* tag_type() (None for enumerated types) *)
  et_descendants : list etype;      (* descendants, transitively closed *)
  et_enum : option (list str)       (* kind = Enum(choices): the declared entity ids *)
}.

(* ValidatorActionId.  (4.12 has no action attributes: UnsupportedFeature::ActionAttributes;
   action entities always have empty attrs and tags.) *)
Record action_info := mkActionInfo {
  ai_principals : list etype;       (* applies_to.principal_apply_spec *)
  ai_resources : list etype;        (* applies_to.resource_apply_spec *)
  ai_context : ty;                  (* context: always a closed record type *)
  ai_descendants : list uid         (* descendants, transitively closed *)
}.

Record schema := mkSchema {
  s_etypes : list (etype * etype_info);
  s_actions : list (uid * action_info)
}.

(* ValidatorSchema::get_entity_type *)
Fixpoint find_etype_in (t : etype) (l : list (etype * etype_info)) : option etype_info :=
  match l with
  | [] => None
  | (n, i) :: l' => if name_eqb t n then Some i else find_etype_in t l'
  end.
Definition find_etype (sch : schema) (t : etype) : option etype_info := find_etype_in t (s_etypes sch).

(* ValidatorSchema::get_action_id *)
Fixpoint find_action_in (u : uid) (l : list (uid * action_info)) : option action_info :=
  match l with
  | [] => None
  | (a, i) :: l' => if uid_eqb u a then Some i else find_action_in u l'
  end.
Definition find_action (sch : schema) (u : uid) : option action_info := find_action_in u (s_actions sch).

(* EntityType::is_action: the BASENAME is `Action`, whatever the namespace *)
Definition action_basename : str := s2str "Action".
Fixpoint basename (n : name) : str :=
  match n with
  | [] => []
  | [b] => b
  | _ :: n' => basename n'
  end.
Definition is_action_type (t : etype) : bool := str_eqb (basename t) action_basename.

(* ValidatorSchema::is_known_entity_type / is_known_action_id *)
Definition known_etype (sch : schema) (t : etype) : bool :=
  is_action_type t || match find_etype sch t with Some _ => true | None => false end.
Definition known_action (sch : schema) (u : uid) : bool :=
  match find_action sch u with Some _ => true | None => false end.

(* EntityTypeDescription::new: allowed_parent_types = every declared type that lists `t` among
   its (transitively closed) descendants; = ValidatorSchema::ancestors *)
Definition allowed_parent_types (sch : schema) (t : etype) : list etype :=
  map fst (filter (fun ni => existsb (name_eqb t) (et_descendants (snd ni))) (s_etypes sch)).

(* ValidatorSchema::get_entity_types_in *)
Definition etypes_in (sch : schema) (t : etype) : list etype :=
  match find_etype sch t with Some i => et_descendants i ++ [t] | None => [t] end.

(* EntityTypeDescription::required_attrs *)
Definition required_attrs (i : etype_info) : list str :=
  map fst (filter (fun e => snd (snd e)) (et_attrs i)).

(* ValidatorSchema::action_entities_iter: the ancestor set of an action = every action that
   lists it among its descendants *)
Definition action_ancestors (sch : schema) (a : uid) : list uid :=
  map fst (filter (fun ui => existsb (uid_eqb a) (ai_descendants (snd ui))) (s_actions sch)).

(* CoreSchema::action: the action entity contributed by the schema (no attributes, no tags) *)
Definition action_entity (sch : schema) (a : uid) : option edata :=
  match find_action sch a with
  | Some _ => Some (mkEdata [] [] (action_ancestors sch a))
  | None => None
  end.

(* CoreSchema::action_entities *)
Definition action_entities (sch : schema) : entities :=
  map (fun ui => (fst ui, mkEdata [] [] (action_ancestors sch (fst ui)))) (s_actions sch).

(* ValidatorActionId::is_applicable_{principal,resource}_type *)
Definition applies_principal (i : action_info) (t : etype) : bool := existsb (name_eqb t) (ai_principals i).
Definition applies_resource (i : action_info) (t : etype) : bool := existsb (name_eqb t) (ai_resources i).

(* ValidatorSchema::get_actions_in_set (single action) *)
Definition actions_in (sch : schema) (a : uid) : option (list uid) :=
  match find_action sch a with Some i => Some (ai_descendants i ++ [a]) | None => None end.

(* Every declared attribute / tag / context type is one a schema can produce (Types.schema_ty);
   the Rust code relies on this when it `expect`s the conversion to SchemaType. *)
Definition etype_info_ok (i : etype_info) : bool :=
  schema_attrs (et_attrs i) && match et_tags i with Some t => schema_ty t | None => true end.
Definition schema_ok (sch : schema) : bool :=
  forallb (fun ni => etype_info_ok (snd ni)) (s_etypes sch) &&
  forallb (fun ui => schema_ty (ai_context (snd ui))) (s_actions sch).
