(* NoPanic.v — C20: index-level ("checked") transcriptions of Rust functions whose panic freedom rests on a local
   invariant asserted in prose (`#[expect(clippy::indexing_slicing, reason = ...)]`).  Gallina is total, so a Rust
   panic is made an explicit outcome: every slice index, every `usize`/`u8` subtraction and every plain shift goes
   through a checked primitive that yields `Panic site` exactly where the Rust operation would panic (index out of
   bounds, subtraction underflow with overflow checks on, shift by >= the bit width).  props/C20_NoPanic.v proves
   that no input reaches a `Panic`; the correspondence runs these definitions against the implementation.

   Sites:  fuzzy_match.rs  levenshtein_distance / fuzzy_search_limited      (matrix[j][i], w1[i-1], w2[j-1])
           ast/pattern.rs  Pattern::wildcard_match                          (pattern[j], text[i], pattern_len - 1)
           extensions/ipaddr.rs  IPAddr::is_in_range                        (PREFIX_MAX_LEN - prefix, checked_shl/shr)
           est/expr.rs     display_cedarvaluejson, FnAndArgs::Multi         (method-style receiver = first argument)   *)
From Coq Require Import String.
From Cedar Require Export ExtParse Like Print.
Open Scope string_scope.
Open Scope list_scope.

Inductive pres (A : Type) := POk (a : A) | Panic (site : string).
Arguments POk {A} a.
Arguments Panic {A} site.

Definition pbind {A B} (r : pres A) (f : A -> pres B) : pres B :=
  match r with POk a => f a | Panic s => Panic s end.
Notation "'pdo' x <- r ; k" := (pbind r (fun x => k)) (at level 200, x name, r at level 100, k at level 200).

Definition no_panic {A} (r : pres A) : bool := match r with POk _ => true | Panic _ => false end.

(* slice[i] *)
Definition idx {A} (l : list A) (i : nat) (site : string) : pres A :=
  match nth_error l i with Some x => POk x | None => Panic site end.
(* slice[i] = v *)
Definition upd {A} (l : list A) (i : nat) (v : A) (site : string) : pres (list A) :=
  if Nat.ltb i (List.length l) then POk (firstn i l ++ v :: skipn (S i) l) else Panic site.
(* a - b on an unsigned machine integer, overflow checks on *)
Definition psub (a b : nat) (site : string) : pres nat :=
  if Nat.leb b a then POk (a - b)%nat else Panic site.

(* `for i in range { body }` with an early panic *)
Fixpoint pfold {S} (f : S -> nat -> pres S) (l : list nat) (s : S) : pres S :=
  match l with
  | [] => POk s
  | i :: l' => pdo s' <- f s i; pfold f l' s'
  end.

(* ------------------------------------------------------------------ fuzzy_match.rs *)
Definition matrix := list (list N).
Definition get2 (m : matrix) (j i : nat) : pres N :=
  pdo row <- idx m j "levenshtein: matrix row"; idx row i "levenshtein: matrix column".
Definition set2 (m : matrix) (j i : nat) (v : N) : pres matrix :=
  pdo row <- idx m j "levenshtein: matrix row";
  pdo row' <- upd row i v "levenshtein: matrix column";
  upd m j row' "levenshtein: matrix row".

(* 1..n *)
Definition range1 (n : nat) : list nat := seq 1 (n - 1).

Definition lev_cell (w1 w2 : str) (j : nat) (m : matrix) (i : nat) : pres matrix :=
  pdo i1 <- psub i 1 "levenshtein: i - 1";
  pdo j1 <- psub j 1 "levenshtein: j - 1";
  pdo c1 <- idx w1 i1 "levenshtein: w1[i - 1]";
  pdo c2 <- idx w2 j1 "levenshtein: w2[j - 1]";
  pdo x <- (if N.eqb c1 c2 then get2 m j1 i1
            else pdo a <- get2 m j i1; pdo b <- get2 m j1 i; pdo c <- get2 m j1 i1;
                 POk (1 + N.min (N.min a b) c)%N);
  set2 m j i x.

Definition levenshtein (w1 w2 : str) : pres N :=
  let l1 := S (List.length w1) in
  let l2 := S (List.length w2) in
  let m0 : matrix := repeat (repeat 0%N l1) l2 in
  pdo m1 <- pfold (fun m i => set2 m 0 i (N.of_nat i)) (range1 l1) m0;
  pdo m2 <- pfold (fun m j => set2 m j 0 (N.of_nat j)) (range1 l2) m1;
  pdo m3 <- pfold (fun m j => pfold (lev_cell w1 w2 j) (range1 l1) m) (range1 l2) m2;
  pdo j <- psub l2 1 "levenshtein: word2_length - 1";
  pdo i <- psub l1 1 "levenshtein: word1_length - 1";
  get2 m3 j i.

Definition usize_max : N := 18446744073709551615%N.

(* fuzzy_search_limited(key, lst, max_distance): the first word at minimal distance *)
Fixpoint fuzzy_fold (key : str) (lst : list str) (acc : N * str) : pres (N * str) :=
  match lst with
  | [] => POk acc
  | w :: lst' =>
      pdo e <- levenshtein key w;
      fuzzy_fold key lst' (if N.ltb e (fst acc) then (e, w) else acc)
  end.

Definition fuzzy_search_limited (key : str) (lst : list str) (maxd : option N) : pres (option str) :=
  match key, lst with
  | [], _ | _, [] => POk None
  | _, _ =>
      pdo t <- fuzzy_fold key lst (usize_max, []);
      match maxd with
      | Some th => POk (if N.leb (fst t) th then Some (snd t) else None)
      | None => POk (Some (snd t))
      end
  end.

(* ------------------------------------------------------------------ ast/pattern.rs, index level *)
Record wstate := mkW { w_i : nat; w_j : nat; w_star : nat; w_tmp : nat; w_has : bool }.

Inductive wout := WRun (s : wstate) | WDone (b : bool).

(* `while j < pattern_len && pattern[j].is_wildcard() { j += 1 }  j == pattern_len` *)
Fixpoint wskip (pat : pattern) (fuel j : nat) : pres wout :=
  let pl := List.length pat in
  match fuel with
  | O => POk (WDone (Nat.eqb j pl))
  | S f => if Nat.ltb j pl
           then pdo e <- idx pat j "wildcard_match: pattern[j] (trailing)";
                if is_star e then wskip pat f (S j) else POk (WDone (Nat.eqb j pl))
           else POk (WDone (Nat.eqb j pl))
  end.

(* one evaluation of the `while` condition and, if it holds, of the loop body *)
Definition wstep (pat : pattern) (text : str) (s : wstate) : pres wout :=
  let tl := List.length text in
  let pl := List.length pat in
  pdo pl1 <- psub pl 1 "wildcard_match: pattern_len - 1";
  if Nat.ltb (w_i s) tl && (negb (w_has s) || negb (Nat.eqb (w_star s) pl1)) then
    pdo star <- (if Nat.ltb (w_j s) pl
                 then pdo e <- idx pat (w_j s) "wildcard_match: pattern[j]"; POk (is_star e)
                 else POk false);
    if star then POk (WRun (mkW (w_i s) (S (w_j s)) (w_j s) (w_i s) true))
    else
      pdo m <- (if Nat.ltb (w_j s) pl
                then pdo e <- idx pat (w_j s) "wildcard_match: pattern[j]";
                     pdo c <- idx text (w_i s) "wildcard_match: text[i]";
                     POk (match e with PChar x => N.eqb x c | PStar => false end)
                else POk false);
      if m then POk (WRun (mkW (S (w_i s)) (S (w_j s)) (w_star s) (w_tmp s) (w_has s)))
      else if w_has s then POk (WRun (mkW (S (w_tmp s)) (S (w_star s)) (w_star s) (S (w_tmp s)) true))
      else POk (WDone false)
  else
    wskip pat (S pl) (w_j s).     (* second loop: skip trailing stars from j *)

Fixpoint wrun (fuel : nat) (pat : pattern) (text : str) (s : wstate) : pres (option bool) :=
  match fuel with
  | O => POk None
  | S f => pdo o <- wstep pat text s;
           match o with WDone b => POk (Some b) | WRun s' => wrun f pat text s' end
  end.

Definition wildcard_indexed (pat : pattern) (text : str) : pres (option bool) :=
  match pat with
  | [] => POk (Some (match text with [] => true | _ => false end))
  | _ => wrun (wl_fuel pat text) pat text (mkW 0 0 0 0 false)
  end.

(* ------------------------------------------------------------------ extensions/ipaddr.rs *)
(* uN::MAX.checked_shl(PREFIX_MAX_LEN - prefix).unwrap_or(0): the u8 subtraction can panic, the shift cannot *)
Definition netmask_checked (v6 : bool) (prefix : N) : pres N :=
  pdo sh <- psub (N.to_nat (ip_width v6)) (N.to_nat prefix) "is_in_range: PREFIX_MAX_LEN - prefix";
  let sh := N.of_nat sh in
  POk (if (ip_width v6 <=? sh)%N then 0%N else N.land (N.shiftl (ip_max v6) sh) (ip_max v6)).

Definition ip_is_in_range_checked (a b : ipaddr) : pres bool :=
  if Bool.eqb (ip_v6 a) (ip_v6 b) then
    let v6 := ip_v6 a in
    pdo na <- netmask_checked v6 (ip_prefix a);
    pdo nb <- netmask_checked v6 (ip_prefix b);
    let a_net := N.land (ip_addr a) na in
    let b_net := N.land (ip_addr b) nb in
    let a_bc := N.lor (ip_addr a) (hostmask v6 (ip_prefix a)) in
    let b_bc := N.lor (ip_addr b) (hostmask v6 (ip_prefix b)) in
    POk ((b_net <=? a_net)%N && (a_bc <=? b_bc)%N)
  else POk false.

(* ip("..").isInRange(ip("..")) from strings: what the evaluator does after both constructors succeeded *)
Definition ip_in_range_strs (s1 s2 : str) : pres (option bool) :=
  match ip_parse s1, ip_parse s2 with
  | Some a, Some b => pdo r <- ip_is_in_range_checked a b; POk (Some r)
  | _, _ => POk None
  end.

(* ------------------------------------------------------------------ est/expr.rs display of {"__extn": {fn, args}} *)
Inductive extn_layout (A : Type) :=
| LMethod (receiver : A) (rest : list A)       (* receiver.fn(rest, ...) *)
| LFunction (args : list A).                   (* fn(args, ...) *)
Arguments LMethod {A} receiver rest.
Arguments LFunction {A} args.

(* the code as repaired by 3dd4acc: `match (style, args.split_first())` *)
Definition extn_multi_layout {A} (method_style : bool) (args : list A) : pres (extn_layout A) :=
  match method_style, args with
  | true, r :: rest => POk (LMethod r rest)
  | _, _ => POk (LFunction args)
  end.

(* the code before 3dd4acc: `args[0]` and `args[1..]` in the method-style arm *)
Definition extn_multi_layout_old {A} (method_style : bool) (args : list A) : pres (extn_layout A) :=
  if method_style then
    pdo r <- idx args 0 "display_cedarvaluejson: args[0]";
    POk (LMethod r (skipn 1 args))
  else POk (LFunction args).

(* rendering of a layout whose arguments are already rendered *)
Fixpoint join_comma (l : list str) : str :=
  match l with
  | [] => []
  | [x] => x
  | x :: l' => x ++ s2str ", " ++ join_comma l'
  end.
Definition render_layout (fn : str) (l : extn_layout str) : str :=
  match l with
  | LMethod r rest => r ++ s2str "." ++ fn ++ s2str "(" ++ join_comma rest ++ s2str ")"
  | LFunction args => fn ++ s2str "(" ++ join_comma args ++ s2str ")"
  end.

Definition display_extn_multi (fn : str) (args : list str) : pres str :=
  pdo l <- extn_multi_layout (existsb (str_eqb fn) method_style_fns) args;
  POk (render_layout fn l).
