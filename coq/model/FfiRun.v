(* FfiRun.v — run commands of family `ffi` (C19).
   (ffi_history (op ...))   op ::= (pset NAME SRCID OK) | (schema NAME SRCID OK)
                                 | (auth none|(some NAME) NAME)
       the parser oracle is instantiated with the success bits reported by the Rust harness:
       a source is (SRCID, OK), parse (i, ok) = if ok then Some i else None; the tail of the call
       returns the pair of registrations it was handed.
       answer per op: (parse true|false) | (used P none|(some S)) | (notfound SM PM)
   (ffi_ids text N) | (ffi_ids set (BOOL ...))   ids assigned to N policies given as one text / to an
       array whose elements are JSON (true) or text (false), and whether assembly succeeds
   (ffi_exit authorize allow|deny|error) | (ffi_exit validate DENYW input_error|(result PASSED WARNS)) *)
From Coq Require Import String.
From Cedar Require Export Ffi.

Definition rsrc := (N * bool)%type.
Definition rparse (s : rsrc) : option N := if snd s then Some (fst s) else None.
Definition rauth (p : N) (s : option N) (_ : unit) : N * option N := (p, s).

Definition rop := op rsrc unit.

Definition d_opt_name (s : sexp) : option (option cname) :=
  match s with
  | SY y => if sym_eqb y "none" then Some None else None
  | SL [SY y; SS n] => if sym_eqb y "some" then Some (Some n) else None
  | _ => None
  end.

Definition d_op (s : sexp) : option rop :=
  match s with
  | SL [SY t; SS n; SI i; b] =>
      match d_bool b with
      | Some ok =>
          if sym_eqb t "pset" then Some (PreparsePset n (Z.to_N i, ok))
          else if sym_eqb t "schema" then Some (PreparseSchema n (Z.to_N i, ok))
          else None
      | None => None
      end
  | SL [SY t; sn; SS pn] =>
      if sym_eqb t "auth" then
        match d_opt_name sn with Some o => Some (StatefulAuth o pn tt) | None => None end
      else None
  | _ => None
  end.

Definition e_ans (a : ans (N * option N)) : sexp :=
  match a with
  | AParse ok => SL [SY "parse"; e_bool ok]
  | AAuth (p, s) =>
      SL [SY "used"; SI (Z.of_N p);
          match s with None => SY "none" | Some x => SL [SY "some"; SI (Z.of_N x)] end]
  | ANotFound sm pm => SL [SY "notfound"; e_bool sm; e_bool pm]
  end.

Definition e_exit (c : exit_class) : sexp := SI (Z.of_N (exit_code c)).

Definition run_ffi (cmd : string) (args : list sexp) : option sexp :=
  if sym_eqb cmd "ffi_history" then
    Some (match args with
          | [h] => match d_list d_op h with
                   | Some ops => e_list e_ans (trace rsrc N N unit (N * option N) rparse rparse rauth ops)
                   | None => bad_input
                   end
          | _ => bad_input
          end)
  else if sym_eqb cmd "ffi_ids" then
    Some (match args with
          | [SY k; SI n] =>
              let bodies := repeat tt (Z.to_nat n) in
              if sym_eqb k "text" then
                let s := Concatenated bodies in
                SL [e_list SS (map fst (assign_ids s));
                    e_bool (match assemble s with Some _ => true | None => false end)]
              else bad_input
          | [SY k; kinds] =>
              (* (ffi_ids set (true false ...)) : true = element given in JSON form *)
              if sym_eqb k "set" then
                match d_list d_bool kinds with
                | Some ks =>
                    let s := SetOf (map (fun b => (b, tt)) ks) in
                    SL [e_list SS (map fst (assign_ids s));
                        e_bool (match assemble s with Some _ => true | None => false end)]
                | None => bad_input
                end
              else bad_input
          | _ => bad_input
          end)
  else if sym_eqb cmd "ffi_exit" then
    Some (match args with
          | [SY k; SY o] =>
              if sym_eqb k "authorize" then
                if sym_eqb o "allow" then e_exit (authorize_exit AoAllow)
                else if sym_eqb o "deny" then e_exit (authorize_exit AoDeny)
                else if sym_eqb o "error" then e_exit (authorize_exit AoError)
                else bad_input
              else bad_input
          | [SY k; dw; o] =>
              if sym_eqb k "validate" then
                match d_bool dw, o with
                | Some dw, SY y => if sym_eqb y "input_error" then e_exit (validate_exit dw VoInputError) else bad_input
                | Some dw, SL [SY y; p; w] =>
                    match d_bool p, d_bool w with
                    | Some p, Some w => if sym_eqb y "result" then e_exit (validate_exit dw (VoResult p w)) else bad_input
                    | _, _ => bad_input
                    end
                | _, _ => bad_input
                end
              else bad_input
          | _ => bad_input
          end)
  else None.
