(* SchemaJson.v — the JSON schema format at the level of JSON TREES: fragment <-> tree.  Definitions only.

   Mirrors the serde shapes of cedar-policy-core/src/validator/json_schema.rs:
     Fragment (map namespace -> NamespaceDefinition), NamespaceDefinition {commonTypes, entityTypes, actions},
     EntityType {memberOfTypes, shape, tags} | {enum}, ActionType {memberOf, appliesTo {principalTypes,
     resourceTypes, context}}, ActionEntityUID {id, type?},
     Type: {"type": "Long"|"String"|"Boolean"} | {"type":"Set","element"} |
           {"type":"Record","attributes", "additionalAttributes"?} | {"type":"Entity","name"} |
           {"type":"EntityOrCommon","name"} | {"type":"Extension","name"} | {"type": <common type name>},
     TypeOfAttribute = Type flattened + "required"? (default true).
   The tree is what serde_json hands to the deserialisers; TEXT (string escapes, numbers, `A::B` name syntax,
   duplicate keys, key order) is not modelled: a name is a leaf `JName` holding its components, objects with the
   fixed keys of the format (`JObj`) are kept apart from objects keyed by user strings (`JMap`, `JNsMap`), and
   the decoder reads the fixed keys in the order the encoder writes them. *)
From Coq Require Import String.
From Cedar Require Export SchemaSyn.
Open Scope string_scope.

Inductive json :=
| JBool (b : bool)
| JStr (s : str)
| JName (n : name)
| JArr (l : jlist)
| JObj (fs : jfields)
| JMap (es : jentries)
| JNsMap (ns : jnsentries)
with jlist := LNil | LCons (j : json) (l : jlist)
with jfields := FNil | FCons (k : string) (v : json) (fs : jfields)
with jentries := ENil | ECons (k : str) (v : json) (es : jentries)
with jnsentries := NNil | NCons (k : name) (v : json) (ns : jnsentries).

Fixpoint mkl (l : list json) : jlist := match l with [] => LNil | j :: l' => LCons j (mkl l') end.
Fixpoint mkf (l : list (string * json)) : jfields := match l with [] => FNil | (k, v) :: l' => FCons k v (mkf l') end.
Fixpoint mke (l : list (str * json)) : jentries := match l with [] => ENil | (k, v) :: l' => ECons k v (mke l') end.
Fixpoint mkn (l : list (name * json)) : jnsentries := match l with [] => NNil | (k, v) :: l' => NCons k v (mkn l') end.

Definition kw (s : string) : name := [s2str s].
(* the values of "type" that the deserialiser (TypeVisitor::build_schema_type) does not read as a common-type name *)
Definition type_keywords : list string :=
  ["String"; "Long"; "Boolean"; "Set"; "Record"; "Entity"; "EntityOrCommon"; "Extension"].
Definition is_type_keyword (n : name) : bool := existsb (fun k => name_eqb n (kw k)) type_keywords.

(* ------------------------------------------------------------------------------------------ encoder *)
Fixpoint enc_fields (t : tyx) : list (string * json) :=
  match t with
  | XPrim PLong => [("type", JName (kw "Long"))]
  | XPrim PString => [("type", JName (kw "String"))]
  | XPrim PBool => [("type", JName (kw "Boolean"))]
  | XExt n => [("type", JName (kw "Extension")); ("name", JStr n)]
  | XSet e => [("type", JName (kw "Set")); ("element", JObj (mkf (enc_fields e)))]
  | XRecord attrs o =>
      ("type", JName (kw "Record")) ::
      ("attributes",
       JMap (mke ((fix go (l : list (str * (tyx * bool))) : list (str * json) :=
                     match l with
                     | [] => []
                     | (k, (a, r)) :: l' =>
                         (k, JObj (mkf ((if r then [] else [("required", JBool false)]) ++ enc_fields a))) :: go l'
                     end) attrs))) ::
      (if o then [("additionalAttributes", JBool true)] else [])
  | XEntity n => [("type", JName (kw "Entity")); ("name", JName n)]
  | XCommon n => [("type", JName n)]
  | XEoc n => [("type", JName (kw "EntityOrCommon")); ("name", JName n)]
  end.

Definition enc_ty (t : tyx) : json := JObj (mkf (enc_fields t)).

Definition enc_names (l : list name) : json := JArr (mkl (map JName l)).
Definition enc_strs (l : list str) : json := JArr (mkl (map JStr l)).

Definition enc_entdecl (e : entdecl) : json :=
  match e with
  | EEnum ch => JObj (mkf [("enum", enc_strs ch)])
  | EStd ps shape tags =>
      JObj (mkf (("memberOfTypes", enc_names ps) :: ("shape", enc_ty shape) ::
                 match tags with Some t => [("tags", enc_ty t)] | None => [] end))
  end.

Definition enc_aref (r : option name * str) : json :=
  JObj (mkf (("id", JStr (snd r)) :: match fst r with Some t => [("type", JName t)] | None => [] end)).

Definition enc_actdecl (a : actdecl) : json :=
  JObj (mkf ((match ad_member_of a with Some l => [("memberOf", JArr (mkl (map enc_aref l)))] | None => [] end) ++
             (match ad_applies a with
              | Some (ps, rs, ctx) =>
                  [("appliesTo", JObj (mkf [("principalTypes", enc_names ps); ("resourceTypes", enc_names rs);
                                            ("context", enc_ty ctx)]))]
              | None => []
              end))).

Definition enc_nsdef (ns : nsdef) : json :=
  JObj (mkf [("commonTypes", JMap (mke (map (fun c => (fst c, enc_ty (snd c))) (ns_commons ns))));
             ("entityTypes", JMap (mke (map (fun e => (fst e, enc_entdecl (snd e))) (ns_entities ns))));
             ("actions", JMap (mke (map (fun a => (fst a, enc_actdecl (snd a))) (ns_actions ns))))]).

Definition fragment_to_json (f : fragment) : json :=
  JNsMap (mkn (map (fun ns => (ns_name ns, enc_nsdef ns)) f)).

(* ------------------------------------------------------------------------------------------ decoder *)
Definition dec_leaf (n : name) : option tyx :=
  if name_eqb n (kw "Long") then Some (XPrim PLong)
  else if name_eqb n (kw "String") then Some (XPrim PString)
  else if name_eqb n (kw "Boolean") then Some (XPrim PBool)
  else if is_type_keyword n then None           (* Set / Record / Entity / .. without their fields: missing_field *)
  else Some (XCommon n).

Fixpoint dec_ty (j : json) : option tyx :=
  match j with
  | JObj fs => dec_tf fs
  | _ => None
  end
with dec_tf (fs : jfields) : option tyx :=
  match fs with
  | FCons k1 (JName n) rest =>
      if negb (String.eqb k1 "type") then None else
      match rest with
      | FNil => dec_leaf n
      | FCons k2 v FNil =>
          if String.eqb k2 "element" then
            if name_eqb n (kw "Set") then option_map XSet (dec_ty v) else None
          else if String.eqb k2 "name" then
            match v with
            | JStr s => if name_eqb n (kw "Extension") then Some (XExt s) else None
            | JName m => if name_eqb n (kw "Entity") then Some (XEntity m)
                         else if name_eqb n (kw "EntityOrCommon") then Some (XEoc m) else None
            | _ => None
            end
          else if String.eqb k2 "attributes" then
            match v with
            | JMap es => if name_eqb n (kw "Record") then option_map (fun a => XRecord a false) (dec_attrs es) else None
            | _ => None
            end
          else None
      | FCons k2 (JMap es) (FCons k3 (JBool o) FNil) =>
          if String.eqb k2 "attributes" && String.eqb k3 "additionalAttributes" && name_eqb n (kw "Record")
          then option_map (fun a => XRecord a o) (dec_attrs es) else None
      | _ => None
      end
  | _ => None
  end
with dec_attrs (es : jentries) : option (list (str * (tyx * bool))) :=
  match es with
  | ENil => Some []
  | ECons k v rest =>
      match dec_attr v, dec_attrs rest with
      | Some tr, Some l => Some ((k, tr) :: l)
      | _, _ => None
      end
  end
with dec_attr (j : json) : option (tyx * bool) :=
  match j with
  | JObj (FCons k (JBool b) rest) =>
      if String.eqb k "required" then option_map (fun t => (t, b)) (dec_tf rest) else None
  | JObj fs => option_map (fun t => (t, true)) (dec_tf fs)
  | _ => None
  end.

Fixpoint dec_names (l : jlist) : option (list name) :=
  match l with
  | LNil => Some []
  | LCons (JName n) l' => option_map (cons n) (dec_names l')
  | LCons _ _ => None
  end.
Fixpoint dec_strs (l : jlist) : option (list str) :=
  match l with
  | LNil => Some []
  | LCons (JStr s) l' => option_map (cons s) (dec_strs l')
  | LCons _ _ => None
  end.

Definition dec_entdecl (j : json) : option entdecl :=
  match j with
  | JObj (FCons k1 (JArr l) FNil) =>
      if String.eqb k1 "enum" then option_map EEnum (dec_strs l) else None
  | JObj (FCons k1 (JArr ps) (FCons k2 shape rest)) =>
      if String.eqb k1 "memberOfTypes" && String.eqb k2 "shape" then
        match dec_names ps, dec_ty shape, rest with
        | Some ps, Some sh, FNil => Some (EStd ps sh None)
        | Some ps, Some sh, FCons k3 t FNil =>
            if String.eqb k3 "tags" then option_map (fun t => EStd ps sh (Some t)) (dec_ty t) else None
        | _, _, _ => None
        end
      else None
  | _ => None
  end.

Definition dec_aref (j : json) : option (option name * str) :=
  match j with
  | JObj (FCons k1 (JStr id) FNil) => if String.eqb k1 "id" then Some (None, id) else None
  | JObj (FCons k1 (JStr id) (FCons k2 (JName t) FNil)) =>
      if String.eqb k1 "id" && String.eqb k2 "type" then Some (Some t, id) else None
  | _ => None
  end.

Fixpoint dec_arefs (l : jlist) : option (list (option name * str)) :=
  match l with
  | LNil => Some []
  | LCons j l' => match dec_aref j, dec_arefs l' with Some r, Some rs => Some (r :: rs) | _, _ => None end
  end.

Definition dec_applies (j : json) : option (list name * list name * tyx) :=
  match j with
  | JObj (FCons k1 (JArr ps) (FCons k2 (JArr rs) (FCons k3 c FNil))) =>
      if String.eqb k1 "principalTypes" && String.eqb k2 "resourceTypes" && String.eqb k3 "context" then
        match dec_names ps, dec_names rs, dec_ty c with
        | Some ps, Some rs, Some c => Some (ps, rs, c)
        | _, _, _ => None
        end
      else None
  | _ => None
  end.

Definition dec_actdecl (j : json) : option actdecl :=
  match j with
  | JObj FNil => Some (mkActDecl None None)
  | JObj (FCons k1 v FNil) =>
      if String.eqb k1 "memberOf" then
        match v with JArr l => option_map (fun m => mkActDecl (Some m) None) (dec_arefs l) | _ => None end
      else if String.eqb k1 "appliesTo" then option_map (fun a => mkActDecl None (Some a)) (dec_applies v)
      else None
  | JObj (FCons k1 (JArr l) (FCons k2 v FNil)) =>
      if String.eqb k1 "memberOf" && String.eqb k2 "appliesTo" then
        match dec_arefs l, dec_applies v with
        | Some m, Some a => Some (mkActDecl (Some m) (Some a))
        | _, _ => None
        end
      else None
  | _ => None
  end.

Fixpoint dec_entries {A} (f : json -> option A) (es : jentries) : option (list (str * A)) :=
  match es with
  | ENil => Some []
  | ECons k v rest =>
      match f v, dec_entries f rest with
      | Some a, Some l => Some ((k, a) :: l)
      | _, _ => None
      end
  end.

Definition dec_nsdef (n : name) (j : json) : option nsdef :=
  match j with
  | JObj (FCons k1 (JMap cs) (FCons k2 (JMap es) (FCons k3 (JMap acts) FNil))) =>
      if String.eqb k1 "commonTypes" && String.eqb k2 "entityTypes" && String.eqb k3 "actions" then
        match dec_entries dec_ty cs, dec_entries dec_entdecl es, dec_entries dec_actdecl acts with
        | Some cs, Some es, Some acts => Some (mkNs n cs es acts)
        | _, _, _ => None
        end
      else None
  | _ => None
  end.

Fixpoint dec_nss (l : jnsentries) : option fragment :=
  match l with
  | NNil => Some []
  | NCons n v rest =>
      match dec_nsdef n v, dec_nss rest with
      | Some ns, Some f => Some (ns :: f)
      | _, _ => None
      end
  end.

Definition json_to_fragment (j : json) : option fragment :=
  match j with JNsMap l => dec_nss l | _ => None end.

(* ------------------------------------------------------------------------------------------ well-formedness:
   a must-be-common reference {"type": n} is only expressible when n is not one of the keywords *)
Fixpoint wf_ty (t : tyx) : bool :=
  match t with
  | XPrim _ | XExt _ | XEntity _ | XEoc _ => true
  | XSet e => wf_ty e
  | XRecord attrs _ =>
      (fix go (l : list (str * (tyx * bool))) : bool :=
         match l with [] => true | (_, (a, _)) :: l' => wf_ty a && go l' end) attrs
  | XCommon n => negb (is_type_keyword n)
  end.

Definition wf_entdecl (e : entdecl) : bool :=
  match e with
  | EEnum _ => true
  | EStd _ shape tags => wf_ty shape && match tags with Some t => wf_ty t | None => true end
  end.
Definition wf_actdecl (a : actdecl) : bool :=
  match ad_applies a with Some (_, _, ctx) => wf_ty ctx | None => true end.
Definition wf_nsdef (ns : nsdef) : bool :=
  forallb (fun c => wf_ty (snd c)) (ns_commons ns) &&
  forallb (fun e => wf_entdecl (snd e)) (ns_entities ns) &&
  forallb (fun a => wf_actdecl (snd a)) (ns_actions ns).
Definition wf_fragment (f : fragment) : bool := forallb wf_nsdef f.
