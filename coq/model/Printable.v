(* Printable.v — C05: the ASTs the lowering of cst_to_ast can produce (printable), the fragment for
   which the token-level round trip is proved (in_fragment), and the special form in which the
   parser returns a printed expression (sp = ExprOrSpecial before into_expr). Definitions only. *)
From Coq Require Import String.
From Cedar Require Export Parse PrintToks.
Open Scope N_scope.

Definition ident_ok (s : str) : bool :=
  match s with
  | [] => false
  | c :: s' => is_ident_start c && forallb is_ident_char s' && unreserved s
  end.
Definition name_ok (n : name) : bool :=
  match n with [] => false | _ => forallb ident_ok n end.

Definition both_bool (a b : expr) : bool :=
  match a, b with Lit (PBool _), Lit (PBool _) => true | _, _ => false end.

Definition ext_ok (fn : name) (args : list expr) : bool :=
  is_function_name fn || (is_method_style fn && match args with [] => false | _ => true end).

Fixpoint sorted_keys {V} (l : list (str * V)) : bool :=
  match l with
  | [] => true
  | (k, _) :: l' => match l' with
                    | [] => true
                    | (k', _) :: _ => str_ltb k k' && sorted_keys l'
                    end
  end.

Fixpoint printable (e : expr) : bool :=
  match e with
  | Lit (PBool _) => true
  | Lit (PLong z) => in_i64 z
  | Lit (PString s) => wf_str s
  | Lit (PEntity u) => name_ok (uty u) && wf_str (ueid u)
  | Var _ | Slot _ => true
  | Unknown _ _ => false
  | If c t f => printable c && printable t && printable f
  | And a b => printable a && printable b && negb (both_bool a b)
  | Or a b => printable a && printable b && negb (both_bool a b)
  | UnApp _ a => printable a
  | BinApp _ a b => printable a && printable b
  | ExtCall fn args => ext_ok fn args && forallb printable args
  | GetAttr a k => printable a && wf_str k
  | HasAttr a k => printable a && wf_str k
  | Like a p => printable a && wf_pattern p
  | Is a t => printable a && name_ok t
  | SetE items => forallb printable items
  | RecordE items =>
      forallb (fun kv => wf_str (fst kv) && printable (snd kv)) items && sorted_keys items
  end.

(* The fragment of c05_expr_roundtrip_partial.  Excluded (round trip checked by the correspondence
   only): a left operand that is the SAME left-associative operator (printed without parentheses:
   a && b && c, a + b + c, ...), method calls (contains .. hasTag, isEmpty), extension calls, sets and
   records. *)
Fixpoint in_fragment (e : expr) : bool :=
  match e with
  | Lit _ | Var _ | Slot _ => true
  | Unknown _ _ => false
  | If c t f => in_fragment c && in_fragment t && in_fragment f
  | And a b | Or a b | BinApp _ a b => in_fragment a && in_fragment b
  | UnApp _ a | GetAttr a _ | HasAttr a _ | Like a _ | Is a _ => in_fragment a
  | ExtCall _ args | SetE args => forallb in_fragment args
  | RecordE items => forallb (fun kv => in_fragment (snd kv)) items
  end.

Section Special.
  Variable np : N -> bool.
  Variable ge : N -> bool.
  Definition sp (e : expr) : eos :=
    match e with
    | Lit (PBool b) => EBool b
    | Lit (PString s) => EStr (escape_debug np ge s)
    | Var v => EVar v
    | _ => EExpr e
    end.
End Special.

(* grammar levels: 0 Expr, 1 Or, 2 And, 3 Relation, 4 Add, 5 Mult, 6 Unary, 7 Member *)
Definition level (e : expr) : nat :=
  match e with
  | If _ _ _ => 0%nat
  | Or _ _ => 1%nat
  | And _ _ => 2%nat
  | BinApp (BEq | BLess | BLessEq | BIn) _ _ | HasAttr _ _ | Like _ _ | Is _ _ => 3%nat
  | BinApp (BAdd | BSub) _ _ => 4%nat
  | BinApp BMul _ _ => 5%nat
  | UnApp (UNot | UNeg) _ => 6%nat
  | _ => 7%nat
  end.

(* the level whose loop would consume a token that follows a complete operand *)
Definition cont_level (t : token) : option nat :=
  match t with
  | TOrOr => Some 1%nat
  | TAndAnd => Some 2%nat
  | TLt | TLe | TGe | TGt | TNeq | TEqEq | TEq => Some 3%nat
  | TIdent s => if kw "in" s then Some 3%nat
                else if kw "has" s || kw "like" s || kw "is" s then Some 3%nat else None
  | TPlus | TMinus => Some 4%nat
  | TStar | TSlash | TPercent => Some 5%nat
  | TDot | TLParen | TLBrack | TColon2 => Some 7%nat
  | _ => None
  end.
Definition follow_ok (L : nat) (rest : list token) : bool :=
  match rest with
  | [] => true
  | t :: _ => match cont_level t with None => true | Some l => Nat.ltb l L end
  end.

Definition parse_at (L : nat) (rec : list token -> pres) (fuel : nat) : list token -> pres :=
  match L with
  | 0%nat => parse_expr_body rec fuel
  | 1%nat => parse_or rec fuel
  | 2%nat => parse_and rec fuel
  | 3%nat => parse_rel rec fuel
  | 4%nat => parse_add rec fuel
  | 5%nat => parse_mul rec fuel
  | 6%nat => parse_unary rec fuel
  | _ => parse_member rec fuel
  end.

(* fuel that suffices to parse the printed form (at most the number of printed tokens) *)
Fixpoint need (e : expr) : nat :=
  match e with
  | If c t f => S (need c + need t + need f)
  | And a b | Or a b | BinApp _ a b => S (need a + need b)
  | GetAttr a _ => S (S (need a))
  | UnApp UIsEmpty a => S (S (need a))
  | UnApp _ a | HasAttr a _ | Like a _ | Is a _ => S (need a)
  | ExtCall _ args | SetE args =>
      S ((fix go (l : list expr) : nat := match l with [] => O | x :: l' => (S (need x) + go l')%nat end) args)
  | RecordE items =>
      S ((fix go (l : list (str * expr)) : nat :=
            match l with [] => O | kv :: l' => (S (need (snd kv)) + go l')%nat end) items)
  | _ => 1%nat
  end.
Fixpoint needs (l : list expr) : nat := match l with [] => O | x :: l' => (S (need x) + needs l')%nat end.
Fixpoint needs_r (l : list (str * expr)) : nat :=
  match l with [] => O | kv :: l' => (S (need (snd kv)) + needs_r l')%nat end.
