(* EntJson.v — the entity / context JSON layer (C10), transcribed from
   cedar-policy-core/src/entities/json/value.rs (CedarValueJson, its untagged deserialisation and
   the special-casing of one-key objects, into_expr, from_expr/from_value with
   check_for_reserved_keys, EntityUidJson, ExtnValueJson, ValueParser::val_into_restricted_expr)
   and context.rs.  Definitions only.

   Data are *restricted expressions* (what the JSON layer produces and consumes): an extension
   value is the constructor call it carries (`RCall`), exactly as RepresentableExtensionValue
   keeps `func` and `args` for serialisation.  Evaluating the call (C07) is outside this model;
   `rval_evaluable` only states which calls the evaluator can accept at all.
   Entity type names and function names are kept as the strings written in JSON together with
   the validity test Name::from_normalized_str applies (`valid_name`).
   Objects of a JSON tree are key-sorted association lists (serde_json::Map / BTreeMap order);
   the generators send them sorted, so "iteration in BTreeMap order" is list order here. *)
From Cedar Require Export JsonTree.
From Coq Require Import String.

(* ---------------------------------------------------------------- data *)
Record juid := mkJuid { jty : str; jid : str }.

Inductive rval :=
| RBool (b : bool)
| RLong (z : Z)
| RString (s : str)
| REntity (u : juid)
| RSet (l : list rval)
| RRecord (l : list (str * rval))
| RCall (fn : str) (args : list rval).

Inductive jerr :=
| ESerde | EParseEscape | EExprTag | ENull | EExpectedEntityRef | EMissingImplied | EArgCount
| EFnLookup | EUnexpectedRecordAttr | EMissingRequiredRecordAttr | ETypeMismatch
| EReservedKey | ECall0 | ENotARecord | EEval.

Inductive jr (A : Type) := JOk (a : A) | JErr (e : jerr).
Arguments JOk {A} a.
Arguments JErr {A} e.
Definition jbind {A B} (r : jr A) (f : A -> jr B) : jr B :=
  match r with JOk a => f a | JErr e => JErr e end.
Notation "'dj' x <- r ; k" := (jbind r (fun x => k)) (at level 200, x name, r at level 100, k at level 200).

Definition jmapM {A B} (f : A -> jr B) : list A -> jr (list B) :=
  fix go (l : list A) : jr (list B) :=
    match l with
    | [] => JOk []
    | x :: l' => dj y <- f x; dj ys <- go l'; JOk (y :: ys)
    end.

(* the same over the values of an association list *)
Definition jmapV {A B} (f : A -> jr B) : list (str * A) -> jr (list (str * B)) :=
  jmapM (fun kv => dj y <- f (snd kv); JOk (fst kv, y)).

(* ---------------------------------------------------------------- names *)
Definition k_entity : str := s2str "__entity".
Definition k_extn : str := s2str "__extn".
Definition k_expr : str := s2str "__expr".
Definition k_type : str := s2str "type".
Definition k_id : str := s2str "id".
Definition k_fn : str := s2str "fn".
Definition k_arg : str := s2str "arg".
Definition k_args : str := s2str "args".

(* check_for_reserved_keys *)
Definition reserved_key (k : str) : bool :=
  str_eqb k k_entity || str_eqb k k_extn || str_eqb k k_expr.

Definition is_ident_start (c : N) : bool :=
  ((65 <=? c) && (c <=? 90) || (97 <=? c) && (c <=? 122) || (c =? 95))%N.
Definition is_ident_char (c : N) : bool := (is_ident_start c || (48 <=? c) && (c <=? 57))%N.
Definition is_ident (s : str) : bool :=
  match s with
  | [] => false
  | c :: r => is_ident_start c && forallb is_ident_char r
  end.
Definition keywords : list str :=
  map s2str ["true"; "false"; "if"; "then"; "else"; "in"; "is"; "like"; "has"; "__cedar"]%string.
Definition is_id (s : str) : bool := is_ident s && negb (existsb (str_eqb s) keywords).

(* split on "::" (58 58); a lone ':' makes the name invalid *)
Fixpoint split_path (s : str) (cur : str) : option (list str) :=
  match s with
  | [] => Some [rev cur]
  | 58%N :: 58%N :: r => option_map (cons (rev cur)) (split_path r [])
  | c :: r => if (c =? 58)%N then None else split_path r (c :: cur)
  end.

(* Name::from_normalized_str: a `::`-separated path of identifiers, no whitespace, no keyword *)
Definition valid_name (s : str) : bool :=
  match split_path s [] with
  | Some comps => forallb is_id comps
  | None => false
  end.

(* ---------------------------------------------------------------- serialisation *)
(* CedarValueJson::from_expr / from_value followed by serde_json::to_value *)
Definition juid_json (u : juid) : json := JObj [(k_type, JStr (jty u)); (k_id, JStr (jid u))].

Fixpoint value_to_json (v : rval) : jr json :=
  match v with
  | RBool b => JOk (JBool b)
  | RLong z => JOk (JInt z)
  | RString s => JOk (JStr s)
  | REntity u => JOk (JObj [(k_entity, juid_json u)])
  | RSet l =>
      dj js <- jmapM value_to_json l; JOk (JArr js)
  | RRecord l =>
      if existsb reserved_key (map fst l) then JErr EReservedKey else
      dj js <- jmapV value_to_json l; JOk (JObj js)
  | RCall fn args =>
      match args with
      | [] => JErr ECall0
      | [a] => dj j <- value_to_json a; JOk (JObj [(k_extn, JObj [(k_fn, JStr fn); (k_arg, j)])])
      | _ =>
          dj js <- jmapM value_to_json args;
          JOk (JObj [(k_extn, JObj [(k_fn, JStr fn); (k_args, JArr js)])])
      end
  end.

(* Context::to_json_value: check_for_reserved_keys on the top-level keys (as for any nested record;
   /repo 4b26962), then the record is serialised entry by entry *)
Definition context_to_json (pairs : list (str * rval)) : jr json :=
  if existsb reserved_key (map fst pairs) then JErr EReservedKey else
  dj js <- jmapV value_to_json pairs; JOk (JObj js).

(* ---------------------------------------------------------------- CedarValueJson *)
Inductive cvj :=
| CExpr (s : str)
| CEntity (ty id : str)
| CExtn (fn : str) (args : list cvj)
| CBool (b : bool)
| CLong (z : Z)
| CString (s : str)
| CSet (l : list cvj)
| CRecord (l : list (str * cvj))
| CNull.

(* Deserialize for CedarValueJson = RawCedarValueJson (untagged) then From<Raw>.
   Any number outside i64 makes every untagged variant fail. *)
Fixpoint json_to_cvj (j : json) : jr cvj :=
  match j with
  | JNull => JOk CNull
  | JBool b => JOk (CBool b)
  | JInt z => if in_i64 z then JOk (CLong z) else JErr ESerde
  | JStr s => JOk (CString s)
  | JArr l =>
      dj cs <- jmapM json_to_cvj l; JOk (CSet cs)
  | JObj l =>
      dj cs <- jmapV json_to_cvj l;
      (* From<RawCedarValueJson>: only one-key records are looked at *)
      JOk (match cs with
           | [(k, CRecord r)] =>
               if str_eqb k k_extn && Nat.leb 2 (List.length r) then
                 match lookup k_fn r with
                 | Some (CString f) =>
                     match lookup k_arg r with
                     | Some a => CExtn f [a]
                     | None => match lookup k_args r with
                               | Some (CSet args) => CExtn f args
                               | _ => CRecord cs
                               end
                     end
                 | _ => CRecord cs
                 end
               else if str_eqb k k_entity && Nat.leb 2 (List.length r) then
                 match lookup k_type r, lookup k_id r with
                 | Some (CString t), Some (CString i) => CEntity t i
                 | _, _ => CRecord cs
                 end
               else CRecord cs
           | [(k, CString s)] => if str_eqb k k_expr then CExpr s else CRecord cs
           | _ => CRecord cs
           end)
  end.

(* CedarValueJson::into_expr / FnAndArgs::into_expr *)
Fixpoint cvj_to_rval (c : cvj) : jr rval :=
  match c with
  | CBool b => JOk (RBool b)
  | CLong z => JOk (RLong z)
  | CString s => JOk (RString s)
  | CSet l =>
      dj vs <- jmapM cvj_to_rval l; JOk (RSet vs)
  | CRecord l =>
      dj vs <- jmapV cvj_to_rval l; JOk (RRecord vs)
  | CEntity t i => if valid_name t then JOk (REntity (mkJuid t i)) else JErr EParseEscape
  | CExtn f args =>
      if valid_name f then
        dj vs <- jmapM cvj_to_rval args; JOk (RCall f vs)
      else JErr EParseEscape
  | CExpr _ => JErr EExprTag
  | CNull => JErr ENull
  end.

(* "ordinary, non-schema-based parsing" *)
Definition parse_generic (j : json) : jr rval := dj c <- json_to_cvj j; cvj_to_rval c.

(* ---------------------------------------------------------------- schema types *)
Inductive sty :=
| STBool | STLong | STString
| STSet (e : sty)
| STEmptySet
| STRecord (attrs : list (str * (sty * bool))) (open : bool)   (* key-sorted; bool = required *)
| STEntity (ty : str)
| STExt (n : str).

(* serde-derived struct deserialisers used by the untagged enums: a struct VARIANT of an untagged
   enum is read from a map only (unknown fields ignored); the plain struct TypeAndId is also read
   from a sequence of exactly its two fields (observed on the implementation: ["T","x"] is accepted
   where an entity reference is expected, ["1 + 1"] is not an `__expr` escape) *)
Definition as_string (j : json) : option str := match j with JStr s => Some s | _ => None end.

(* `{ __expr: String }` *)
Definition is_expr_escape (j : json) : bool :=
  match j with
  | JObj o => match lookup k_expr o with Some (JStr _) => true | _ => false end
  | _ => false
  end.

(* TypeAndId *)
Definition as_type_and_id (j : json) : option (str * str) :=
  match j with
  | JObj o => match lookup k_type o, lookup k_id o with
              | Some (JStr t), Some (JStr i) => Some (t, i)
              | _, _ => None
              end
  | JArr [JStr t; JStr i] => Some (t, i)
  | _ => None
  end.

(* a one-field wrapper struct `{ key: T }` *)
Definition field_of (key : str) (j : json) : option json :=
  match j with
  | JObj o => lookup key o
  | _ => None
  end.

(* EntityUidJson (untagged) followed by into_euid *)
Definition parse_entity_ref (j : json) : jr juid :=
  if is_expr_escape j then JErr EExprTag else
  let tid := match field_of k_entity j with
             | Some x => match as_type_and_id x with Some p => Some p | None => as_type_and_id j end
             | None => as_type_and_id j
             end in
  match tid with
  | Some (t, i) => if valid_name t then JOk (mkJuid t i) else JErr EParseEscape
  | None => JErr EExpectedEntityRef
  end.

(* FnAndArgs (untagged: Single then Multi); the arguments are CedarValueJson *)
Definition jr_opt {A} (r : jr A) : option A := match r with JOk a => Some a | JErr _ => None end.

Definition as_fn_and_args (j : json) : option (str * list cvj) :=
  let from (f : option json) (a : option json) (as_ : option json) :=
    match f with
    | Some (JStr fn) =>
        match match a with Some x => jr_opt (json_to_cvj x) | None => None end with
        | Some c => Some (fn, [c])
        | None =>
            match as_ with
            | Some (JArr l) => match jr_opt (json_to_cvj (JArr l)) with
                               | Some (CSet cs) => Some (fn, cs)
                               | _ => None
                               end
            | _ => None
            end
        end
    | _ => None
    end in
  match j with
  | JObj o => from (lookup k_fn o) (lookup k_arg o) (lookup k_args o)
  | _ => None
  end.

(* the extension functions the model knows: the four one-string constructors.
   (name, argument count).  Every other name is "not found". *)
Definition ext_constructors : list (str * str) :=   (* type name, constructor *)
  [ (s2str "decimal", s2str "decimal"); (s2str "ipaddr", s2str "ip")
  ; (s2str "datetime", s2str "datetime"); (s2str "duration", s2str "duration") ]%string.
Definition known_fn (f : str) : bool := existsb (fun p => str_eqb (snd p) f) ext_constructors.

(* ExtnValueJson (untagged) and the Extension case of val_into_restricted_expr.
   All known functions take one String argument, so the recursive call on an argument is the
   ordinary parse of that argument. *)
Definition parse_ext (tyname : str) (j : json) : jr rval :=
  if is_expr_escape j then JErr EExprTag else
  let fa := match field_of k_extn j with
            | Some x => match as_fn_and_args x with Some p => Some p | None => as_fn_and_args j end
            | None => as_fn_and_args j
            end in
  match fa with
  | Some (fn, args) =>
      if valid_name fn then
        if known_fn fn then
          match args with
          | [a] => dj v <- cvj_to_rval a; JOk (RCall fn [v])
          | _ => JErr EArgCount
          end
        else JErr EFnLookup
      else JErr EParseEscape
  | None =>
      dj c <- json_to_cvj j;
      match lookup tyname ext_constructors with
      | Some ctor => dj v <- cvj_to_rval c; JOk (RCall ctor [v])
      | None => JErr EMissingImplied
      end
  end.

(* ValueParser::val_into_restricted_expr with Some(expected_ty).  (The `unknown` escape that is
   tried first is outside the model: the generators never write fn = "unknown".) *)
Fixpoint parse_ty (t : sty) (j : json) {struct t} : jr rval :=
  match t with
  | STEntity _ => dj u <- parse_entity_ref j; JOk (REntity u)
  | STExt n => parse_ext n j
  | STSet e =>
      match j with
      | JArr l => dj vs <- jmapM (parse_ty e) l; JOk (RSet vs)
      | _ => dj _v <- parse_generic j; JErr ETypeMismatch
      end
  | STRecord attrs open =>
      match j with
      | JObj o =>
          dj vs <- (fix go (l : list (str * (sty * bool))) : jr (list (str * rval)) :=
                      match l with
                      | [] => JOk []
                      | (k, (t', req)) :: l' =>
                          match lookup k o with
                          | Some x => dj v <- parse_ty t' x; dj vs <- go l'; JOk ((k, v) :: vs)
                          | None => if req then JErr EMissingRequiredRecordAttr else go l'
                          end
                      end) attrs;
          if negb open && existsb (fun kv => negb (has_key (fst kv) attrs)) o
          then JErr EUnexpectedRecordAttr
          else JOk (RRecord vs)
      | _ => dj _v <- parse_generic j; JErr ETypeMismatch
      end
  | _ => parse_generic j
  end.

Definition json_to_value (ty : option sty) (j : json) : jr rval :=
  match ty with
  | None => parse_generic j
  | Some t => parse_ty t j
  end.

(* what RestrictedEvaluator can accept at all: every call is one of the four constructors applied
   to one string (whether the string is well formed is C07's subject) *)
Fixpoint rval_evaluable (v : rval) : bool :=
  match v with
  | RSet l => forallb rval_evaluable l
  | RRecord l => forallb (fun kv => rval_evaluable (snd kv)) l
  | RCall fn [RString _] => known_fn fn
  | RCall _ _ => false
  | _ => true
  end.

(* ContextJsonParser::from_json_value followed by Context::from_expr *)
Definition context_from_json (ty : option sty) (j : json) : jr (list (str * rval)) :=
  dj v <- json_to_value ty j;
  match v with
  | RRecord l => if rval_evaluable v then JOk l else JErr EEval
  | _ => JErr ENotARecord
  end.

(* ================================================================ entity level *)
(* entities.rs: EntityJson, EntityJson::from_entity, EntityJsonParser::parse_ejson.
   `je_anc`: for an entity taken from a store these are ALL its ancestors (from_entity writes
   entity.ancestors() under "parents"); the parser stores what it reads as the parents. *)
Record jentity := mkJentity {
  je_uid : juid;
  je_attrs : list (str * rval);
  je_tags : list (str * rval);
  je_anc : list juid }.

Definition k_uid : str := s2str "uid".
Definition k_attrs : str := s2str "attrs".
Definition k_parents : str := s2str "parents".
Definition k_tags : str := s2str "tags".

(* EntityJson::from_entity + Serialize (tags skipped when empty).  Field order of the tree: key-sorted *)
Definition entity_to_json (e : jentity) : jr json :=
  dj attrs <- jmapV value_to_json (je_attrs e);
  dj tags <- jmapV value_to_json (je_tags e);
  JOk (JObj ([(k_attrs, JObj attrs); (k_parents, JArr (map juid_json (je_anc e)))]
             ++ (match tags with [] => [] | _ => [(k_tags, JObj tags)] end)
             ++ [(k_uid, juid_json (je_uid e))])).

(* what the schema says about one entity type (EntityTypeDescription) *)
Record einfo := mkEinfo {
  ei_attrs : list (str * (sty * bool));
  ei_open : bool;
  ei_tags : option sty }.

Definition eschema := list (str * einfo).     (* by entity type name *)

(* EntityType::is_action: the basename is `Action` *)
Definition is_action_type (t : str) : bool :=
  match split_path t [] with
  | Some comps => str_eqb (last comps []) (s2str "Action")
  | None => false
  end.

(* additional error classes of the entity level are mapped onto jerr: *)
(*   EUnexpectedRecordAttr is NOT reused: entity-level classes are separate constructors *)
Inductive eerr :=
| EJ (e : jerr)                 (* an error of the value layer *)
| EUnexpectedEntityType | EUnexpectedEntityAttr | EUnexpectedEntityTag | EActionParent.

Inductive er (A : Type) := EOk (a : A) | EErr (e : eerr).
Arguments EOk {A} a.
Arguments EErr {A} e.
Definition ebind {A B} (r : er A) (f : A -> er B) : er B :=
  match r with EOk a => f a | EErr e => EErr e end.
Notation "'de' x <- r ; k" := (ebind r (fun x => k)) (at level 200, x name, r at level 100, k at level 200).
Definition lift {A} (r : jr A) : er A := match r with JOk a => EOk a | JErr e => EErr (EJ e) end.

Definition emapM {A B} (f : A -> er B) : list A -> er (list B) :=
  fix go (l : list A) : er (list B) :=
    match l with
    | [] => EOk []
    | x :: l' => de y <- f x; de ys <- go l'; EOk (y :: ys)
    end.

(* how the attributes / tags of this entity are parsed *)
Inductive einfo_sel := NoSchemaInfo | NonAction (i : einfo).

Definition parse_attr (sel : einfo_sel) (kv : str * json) : er (str * rval) :=
  match sel with
  | NoSchemaInfo => de v <- lift (parse_generic (snd kv)); EOk (fst kv, v)
  | NonAction i =>
      match lookup (fst kv) (ei_attrs i) with
      | Some (t, _) => de v <- lift (parse_ty t (snd kv)); EOk (fst kv, v)
      | None => if ei_open i then de v <- lift (parse_generic (snd kv)); EOk (fst kv, v)
                else EErr EUnexpectedEntityAttr
      end
  end.

Definition parse_tag (sel : einfo_sel) (kv : str * json) : er (str * rval) :=
  match sel with
  | NoSchemaInfo => de v <- lift (parse_generic (snd kv)); EOk (fst kv, v)
  | NonAction i =>
      match ei_tags i with
      | Some t => de v <- lift (parse_ty t (snd kv)); EOk (fst kv, v)
      | None => EErr EUnexpectedEntityTag
      end
  end.

Definition parse_parent (uid : juid) (pj : json) : er juid :=
  de p <- lift (parse_entity_ref pj);
  if is_action_type (jty uid) && negb (is_action_type (jty p)) then EErr EActionParent else EOk p.

(* Deserialize for EntityJson (a map; unknown fields ignored; uid, attrs, parents required, tags
   optional) followed by parse_ejson and Entity::new (evaluation of the attribute expressions).
   The attribute / tag maps are hash maps in the code: the model goes through them in tree order,
   so only accept/reject and the value are deterministic, not WHICH error is reported first. *)
Definition entity_from_json (schema : option eschema) (j : json) : er jentity :=
  match j with
  | JObj o =>
      match lookup k_uid o, lookup k_attrs o, lookup k_parents o with
      | Some uj, Some (JObj aj), Some (JArr pj) =>
          match match lookup k_tags o with
                | None => Some []
                | Some (JObj tj) => Some tj
                | Some _ => None
                end with
          | None => EErr (EJ ESerde)
          | Some tj =>
              de uid <- lift (parse_entity_ref uj);
              de sel <- match schema with
                        | None => EOk NoSchemaInfo
                        | Some sch =>
                            if is_action_type (jty uid) then EOk NoSchemaInfo
                            else match lookup (jty uid) sch with
                                 | Some i => EOk (NonAction i)
                                 | None => EErr EUnexpectedEntityType
                                 end
                        end;
              de attrs <- emapM (parse_attr sel) aj;
              de tags <- emapM (parse_tag sel) tj;
              de parents <- emapM (parse_parent uid) pj;
              if forallb (fun kv => rval_evaluable (snd kv)) attrs && forallb (fun kv => rval_evaluable (snd kv)) tags
              then EOk (mkJentity uid attrs tags parents)
              else EErr (EJ EEval)
          end
      | _, _, _ => EErr (EJ ESerde)
      end
  | _ => EErr (EJ ESerde)
  end.

(* ================================================================ store level *)
(* Entities::to_json_value / EntityJsonParser::from_json_value + Entities::from_entities with
   TCComputation::ComputeNow.  Conformance validation against the schema (C11) is not part of
   this model; `actions` are the schema's action entities (Schema::action_entities). *)
Definition juid_eqb (a b : juid) : bool := str_eqb (jty a) (jty b) && str_eqb (jid a) (jid b).
Definition juid_mem (u : juid) (l : list juid) : bool := existsb (juid_eqb u) l.
Fixpoint juid_dedup (l : list juid) : list juid :=
  match l with
  | [] => []
  | u :: l' => if juid_mem u l' then juid_dedup l' else u :: juid_dedup l'
  end.

Definition find_entity (u : juid) (st : list jentity) : option jentity :=
  find (fun e => juid_eqb (je_uid e) u) st.

Definition store_to_json (st : list jentity) : jr json :=
  dj js <- jmapM entity_to_json st; JOk (JArr js).

(* one round of "ancestors of my ancestors are my ancestors" *)
Definition anc_step (st : list jentity) (a : list juid) : list juid :=
  juid_dedup (a ++ flat_map (fun p => match find_entity p st with Some e => je_anc e | None => [] end) a).

Fixpoint anc_iter (n : nat) (st : list jentity) (a : list juid) : list juid :=
  match n with O => a | S n' => anc_iter n' st (anc_step st a) end.

Inductive serr := SE (e : eerr) | SDuplicate | SCycle.
Inductive sr (A : Type) := SOk (a : A) | SErr (e : serr).
Arguments SOk {A} a.
Arguments SErr {A} e.

Fixpoint has_dup_uid (l : list jentity) : bool :=
  match l with
  | [] => false
  | e :: l' => existsb (fun e' => juid_eqb (je_uid e) (je_uid e')) l' || has_dup_uid l'
  end.

(* compute_tc with enforce_dag: every entity gets the closure of its parents through the
   entities present; an entity that reaches itself is a cycle *)
Definition close_store (st : list jentity) : sr (list jentity) :=
  let closed := map (fun e => mkJentity (je_uid e) (je_attrs e) (je_tags e)
                                 (anc_iter (List.length st) st (juid_dedup (je_anc e)))) st in
  if existsb (fun e => juid_mem (je_uid e) (je_anc e)) closed then SErr SCycle else SOk closed.

Definition store_from_json (schema : option eschema) (actions : list jentity) (j : json) : sr (list jentity) :=
  match j with
  | JArr l =>
      match emapM (entity_from_json schema) l with
      | EErr e => SErr (SE e)
      | EOk es =>
          (* create_entity_map (duplicates), compute_tc, then entity_map.extend(schema actions):
             an action entity of the schema replaces an equal-uid entity of the document (which the
             conformance check, not modelled here, has required to be equal to it) *)
          if has_dup_uid es then SErr SDuplicate else
          match close_store es with
          | SErr e => SErr e
          | SOk closed =>
              match schema with
              | None => SOk closed
              | Some _ =>
                  SOk (filter (fun e => negb (existsb (fun a => juid_eqb (je_uid e) (je_uid a)) actions)) closed
                       ++ actions)
              end
          end
      end
  | _ => SErr (SE (EJ ESerde))
  end.
