(* Sexp.v — the generic S-expression carrier used by the correspondence drivers.
   Text form:  (sym arg ...) | 123 | -5 | [104 105] (a str as scalar values) | sym *)
From Coq Require Export String.
From Cedar Require Export Base.

Inductive sexp :=
| SI (z : Z)
| SS (s : str)
| SY (s : string)
| SL (l : list sexp).

Definition sym_eqb (a b : string) : bool := String.eqb a b.

(* Common decoders *)
Definition d_int (s : sexp) : option Z := match s with SI z => Some z | _ => None end.
Definition d_nat (s : sexp) : option nat := match s with SI z => Some (Z.to_nat z) | _ => None end.
Definition d_N (s : sexp) : option N := match s with SI z => Some (Z.to_N z) | _ => None end.
Definition d_str (s : sexp) : option str := match s with SS x => Some x | _ => None end.
Definition d_bool (s : sexp) : option bool :=
  match s with
  | SY y => if sym_eqb y "true" then Some true else if sym_eqb y "false" then Some false else None
  | _ => None
  end.
Definition d_list {A} (f : sexp -> option A) (s : sexp) : option (list A) :=
  match s with SL l => omapM f l | _ => None end.

Definition e_bool (b : bool) : sexp := SY (if b then "true" else "false")%string.
Definition e_list {A} (f : A -> sexp) (l : list A) : sexp := SL (map f l).
Definition e_tag (t : string) (args : list sexp) : sexp := SL (SY t :: args).
Definition e_err (e : err) : sexp :=
  SY (match e with
      | ErrType => "ErrType" | ErrEntityMissing => "ErrEntityMissing"
      | ErrAttrMissing => "ErrAttrMissing" | ErrOverflow => "ErrOverflow" | ErrExt => "ErrExt"
      | ErrArity => "ErrArity" | ErrUnknownFn => "ErrUnknownFn"
      | ErrUnlinkedSlot => "ErrUnlinkedSlot" | ErrNonValue => "ErrNonValue"
      end)%string.
Definition e_res {A} (f : A -> sexp) (r : res A) : sexp :=
  match r with Ok a => e_tag "ok" [f a] | Err e => e_tag "err" [e_err e] end.

Definition bad_input : sexp := SY "bad_input"%string.
