(* Manifest.v — entity manifests (validator/entity_manifest.rs: EntityManifest, RootAccessTrie,
   AccessTrie, EntityRoot), slicing a store by a manifest (entity_manifest/loader.rs load_entities,
   find_remaining_entities*, merge_entities, compute_ancestors_request; slicing.rs EntitySlicer,
   AccessTrie::{slice_entity, slice_val}) and an independent checker of manifests against typed
   expressions (`adequate`) used as a validator of the Rust analysis output (analysis.rs is NOT
   transcribed).  Definitions only. *)
From Coq Require Import String.
From Cedar Require Export TExpr.
Open Scope string_scope.
Open Scope list_scope.

(* ---------------------------------------------------------------- data *)
Inductive root := RLit (u : uid) | RVar (v : var).

Definition var_eqb (a b : var) : bool :=
  match a, b with
  | Principal, Principal | Action, Action | Resource, Resource | Context, Context => true
  | _, _ => false
  end.

Definition root_eqb (a b : root) : bool :=
  match a, b with
  | RLit u, RLit v => uid_eqb u v
  | RVar x, RVar y => var_eqb x y
  | _, _ => false
  end.

(* AccessTrie: children (Fields), ancestors_trie (a RootAccessTrie), is_ancestor.  node_type is not
   serialised and is not part of the model: see slice_val for the one place the code consults it. *)
Inductive trie := Trie (children : list (str * trie)) (anc : list (root * trie)) (is_anc : bool).

Definition rtrie := list (root * trie).           (* RootAccessTrie *)

Definition t_children (t : trie) := match t with Trie c _ _ => c end.
Definition t_anc (t : trie) : rtrie := match t with Trie _ a _ => a end.
Definition t_is_anc (t : trie) := match t with Trie _ _ b => b end.

Record reqtype := mkReqType { rt_principal : etype; rt_action : uid; rt_resource : etype }.
Definition reqtype_eqb (a b : reqtype) : bool :=
  name_eqb (rt_principal a) (rt_principal b) && uid_eqb (rt_action a) (rt_action b)
  && name_eqb (rt_resource a) (rt_resource b).

Definition manifest := list (reqtype * rtrie).     (* EntityManifest.per_action *)

Fixpoint lookup_root (r : root) (m : rtrie) : option trie :=
  match m with
  | [] => None
  | (r', t) :: m' => if root_eqb r r' then Some t else lookup_root r m'
  end.

Fixpoint lookup_reqtype (k : reqtype) (m : manifest) : option rtrie :=
  match m with
  | [] => None
  | (k', t) :: m' => if reqtype_eqb k k' then Some t else lookup_reqtype k m'
  end.

Definition request_type (q : request) : reqtype :=
  mkReqType (uty (rprincipal q)) (raction q) (uty (rresource q)).

(* ---------------------------------------------------------------- slicing values (slicing.rs) *)
Inductive serr := SEIncompatible | SEPanic | SEFuel.
Inductive sres (A : Type) := SOk (a : A) | SErr (e : serr).
Arguments SOk {A} a.
Arguments SErr {A} e.

Definition is_nil {A} (l : list A) : bool := match l with [] => true | _ => false end.

(* AccessTrie::slice_val.  On an entity uid the code asserts that the (pruned) trie has no children;
   pruning (prune_child_entity_dereferences) removes the children of every node whose node_type is an
   entity type, which on conformant data are exactly the nodes that meet an entity uid: the model
   keeps the uid.  Records: keep the fields the trie lists (BTreeMap: key order). *)
Fixpoint slice_val (t : trie) (v : value) {struct v} : sres value :=
  match v with
  | VPrim (PEntity _) => SOk v
  | VPrim _ | VSet _ | VExt _ => if is_nil (t_children t) then SOk v else SErr SEIncompatible
  | VRecord r =>
      match (fix go (l : list (str * value)) : sres (list (str * value)) :=
               match l with
               | [] => SOk []
               | (k, x) :: l' =>
                   match lookup k (t_children t) with
                   | None => go l'
                   | Some t' => match slice_val t' x, go l' with
                                | SOk x', SOk r' => SOk ((k, x') :: r')
                                | SErr e, _ => SErr e
                                | _, SErr e => SErr e
                                end
                   end
               end) r with
      | SOk r' => SOk (VRecord r')
      | SErr e => SErr e
      end
  end.

(* AccessTrie::slice_entity: the attributes the trie lists, no tags, no ancestors (added later) *)
Definition slice_attrs (t : trie) (attrs : list (str * value)) : sres (list (str * value)) :=
  match slice_val t (VRecord attrs) with
  | SOk (VRecord r) => SOk r
  | SOk _ => SErr SEPanic
  | SErr e => SErr e
  end.

Definition slice_entity (t : trie) (d : edata) : sres edata :=
  match slice_attrs t (eattrs d) with
  | SOk r => SOk (mkEdata r [] [])
  | SErr e => SErr e
  end.

(* ---------------------------------------------------------------- loader.rs *)
Definition ereq := (uid * trie)%type.             (* EntityRequestRef *)

Definition is_entity_val (v : value) := match v with VPrim (PEntity _) => true | _ => false end.
Definition is_set_val (v : value) := match v with VSet _ => true | _ => false end.
Definition rtrie_is_empty (m : rtrie) : bool := is_nil m.

Fixpoint entity_uids (l : list value) : option (list uid) :=
  match l with
  | [] => Some []
  | VPrim (PEntity u) :: l' => option_map (cons u) (entity_uids l')
  | _ => None
  end.

(* find_remaining_entities_value: entity requests below a value, and the uids of sets marked
   is_ancestor; None = one of the code's assertions / panics fires *)
Fixpoint remaining_val (t : trie) (v : value) {struct v} : option (list ereq * list uid) :=
  if negb (rtrie_is_empty (t_anc t) || is_entity_val v) then None
  else if negb (negb (t_is_anc t) || is_entity_val v || is_set_val v) then None
  else
  match v with
  | VPrim (PEntity u) => Some ([(u, t)], [])
  | VPrim _ | VExt _ => Some ([], [])
  | VSet l => if t_is_anc t then option_map (fun us => ([], us)) (entity_uids l) else Some ([], [])
  | VRecord r =>
      (fix go (l : list (str * value)) : option (list ereq * list uid) :=
         match l with
         | [] => Some ([], [])
         | (k, x) :: l' =>
             match lookup k (t_children t) with
             | None => go l'
             | Some t' => match remaining_val t' x, go l' with
                          | Some (a, b), Some (c, d) => Some (a ++ c, b ++ d)
                          | _, _ => None
                          end
             end
         end) r
  end.

(* find_remaining_entities / find_remaining_entities_context: over the attributes of a loaded
   entity (resp. the context record); ancestors trie / is_ancestor of the node itself are not consulted *)
Definition remaining_attrs (t : trie) (attrs : list (str * value)) : option (list ereq * list uid) :=
  remaining_val (Trie (t_children t) [] false) (VRecord attrs).

Definition root_uid (q : request) (r : root) : option uid :=
  match r with
  | RLit u => Some u
  | RVar Principal => Some (rprincipal q)
  | RVar Action => Some (raction q)
  | RVar Resource => Some (rresource q)
  | RVar Context => None
  end.

(* initial_entities_to_load *)
Definition initial_requests (m : rtrie) (q : request) : option (list ereq * list uid) :=
  match (match lookup_root (RVar Context) m with
         | Some t => remaining_attrs t (rcontext q)
         | None => Some ([], [])
         end) with
  | None => None
  | Some (reqs, ancs) =>
      Some (reqs ++ flat_map (fun rt => match root_uid q (fst rt) with
                                        | Some u => [(u, snd rt)]
                                        | None => []
                                        end) m, ancs)
  end.

(* merge_values / merge_entities (attributes only) *)
Fixpoint merge_val (a b : value) {struct a} : value :=
  match a, b with
  | VRecord r1, VRecord r2 =>
      VRecord (sort_assoc
        ((fix go (l : list (str * value)) : list (str * value) :=
            match l with
            | [] => []
            | (k, x) :: l' => (k, match lookup k r2 with Some y => merge_val x y | None => x end) :: go l'
            end) r1
         ++ filter (fun kv => negb (has_key (fst kv) r1)) r2))
  | _, _ => a
  end.

Definition merge_attrs (a b : list (str * value)) : list (str * value) :=
  match merge_val (VRecord a) (VRecord b) with VRecord r => r | _ => a end.

Fixpoint store_insert (u : uid) (d : edata) (es : entities) : entities :=
  match es with
  | [] => [(u, d)]
  | (u', d') :: es' =>
      if uid_eqb u u' then (u', mkEdata (merge_attrs (eattrs d') (eattrs d)) (etags d') (eancestors d')) :: es'
      else (u', d') :: store_insert u d es'
  end.

(* one batch of the main loop of load_entities: EntitySlicer::load_entities on every request, insert
   (merge) the loaded entities, collect the next batch *)
Fixpoint load_batch (es : entities) (todo : list ereq) (acc : entities) : sres (entities * list ereq) :=
  match todo with
  | [] => SOk (acc, [])
  | (u, t) :: todo' =>
      match find_entity u es with
      | None => load_batch es todo' acc
      | Some d =>
          match slice_entity t d with
          | SErr e => SErr e
          | SOk loaded =>
              match remaining_attrs t (eattrs loaded) with
              | None => SErr SEPanic
              | Some (next, _) =>
                  match load_batch es todo' (store_insert u loaded acc) with
                  | SOk (acc', next') => SOk (acc', next ++ next')
                  | SErr e => SErr e
                  end
              end
          end
      end
  end.

(* the main loop; `seen` accumulates every request of every batch (to_find_ancestors) *)
Fixpoint load_loop (fuel : nat) (es : entities) (todo seen : list ereq) (acc : entities)
  : sres (entities * list ereq) :=
  match todo with
  | [] => SOk (acc, seen)
  | _ =>
      match fuel with
      | O => SErr SEFuel
      | S f => match load_batch es todo acc with
               | SErr e => SErr e
               | SOk (acc', next) => load_loop f es next (seen ++ todo) acc'
               end
      end
  end.

(* compute_ancestors_request: walk the ancestors trie through the LOADED entities *)
Fixpoint anc_step (loaded : entities) (todo : list ereq) : option (list ereq * list uid) :=
  match todo with
  | [] => Some ([], [])
  | (u, t) :: todo' =>
      let here := if t_is_anc t then [u] else [] in
      match (match find_entity u loaded with
             | Some d => remaining_attrs t (eattrs d)
             | None => Some ([], [])
             end), anc_step loaded todo' with
      | Some (n1, a1), Some (n2, a2) => Some (n1 ++ n2, here ++ a1 ++ a2)
      | _, _ => None
      end
  end.

Fixpoint anc_loop (fuel : nat) (loaded : entities) (todo : list ereq) (acc : list uid) : sres (list uid) :=
  match todo with
  | [] => SOk acc
  | _ => match fuel with
         | O => SErr SEFuel
         | S f => match anc_step loaded todo with
                  | None => SErr SEPanic
                  | Some (next, a) => anc_loop f loaded next (acc ++ a)
                  end
         end
  end.

Definition ancestors_request (fuel : nat) (loaded : entities) (q : request) (at_ : rtrie) : sres (list uid) :=
  match initial_requests at_ q with
  | None => SErr SEPanic
  | Some (todo, a0) => anc_loop fuel loaded todo a0
  end.

(* EntitySlicer::load_ancestors for one request + Entity::add_parent on the loaded entity *)
Definition kept_ancestors (es : entities) (u : uid) (required : list uid) : list uid :=
  match find_entity u es with
  | Some d => filter (is_descendant_of d) required
  | None => []
  end.

Fixpoint nodup_uids (l : list uid) : list uid :=
  match l with
  | [] => []
  | x :: l' => if existsb (uid_eqb x) l' then nodup_uids l' else x :: nodup_uids l'
  end.

Fixpoint add_ancestors (u : uid) (ancs : list uid) (loaded : entities) : entities :=
  match loaded with
  | [] => []
  | (u', d) :: l' =>
      if uid_eqb u u'
      then (u', mkEdata (eattrs d) (etags d)
                        (eancestors d ++ filter (fun a => negb (existsb (uid_eqb a) (eancestors d))) (nodup_uids ancs))) :: l'
      else (u', d) :: add_ancestors u ancs l'
  end.

Fixpoint ancestors_phase (fuel : nat) (es : entities) (q : request) (seen : list ereq) (loaded0 loaded : entities)
  : sres entities :=
  match seen with
  | [] => SOk loaded
  | (u, t) :: seen' =>
      match ancestors_request fuel loaded0 q (t_anc t) with
      | SErr e => SErr e
      | SOk required => ancestors_phase fuel es q seen' loaded0 (add_ancestors u (kept_ancestors es u required) loaded)
      end
  end.

(* load_entities + EntityManifest::slice_entities *)
Definition slice_by_rtrie (fuel : nat) (m : rtrie) (q : request) (es : entities) : sres entities :=
  match initial_requests m q with
  | None => SErr SEPanic
  | Some (todo, _) =>
      match load_loop fuel es todo [] [] with
      | SErr e => SErr e
      | SOk (loaded, seen) => ancestors_phase fuel es q seen loaded loaded
      end
  end.

Definition slice_by_manifest (fuel : nat) (m : manifest) (q : request) (es : entities) : sres entities :=
  match lookup_reqtype (request_type q) m with
  | None => SOk []
  | Some rt => slice_by_rtrie fuel rt q es
  end.

(* ---------------------------------------------------------------- the manifest validator
   Independent of analysis.rs: syntactic access paths of the typed expression.
   A *direct path* is a chain of GetAttr over a variable, an entity literal or a slot; a slot stands for
   the entity the template is linked with (`sl` = the link's slot environment), exactly as the
   evaluator reads it.  (The pinned implementation read a slot as the variable it constrains — finding
   F-C17-a: manifests of `in ?slot` links are rejected here and fail the oracle.) *)
Definition apath := (root * list str)%type.

Fixpoint direct_path (sl : slotenv) (e : texpr) : option apath :=
  match e with
  | TEVar v _ => Some (RVar v, [])
  | TESlot s _ => option_map (fun u => (RLit u, [])) (slot_lookup s sl)
  | TELit (PEntity u) _ => Some (RLit u, [])
  | TEGetAttr e' a _ => match direct_path sl e' with Some (r, p) => Some (r, p ++ [a]) | None => None end
  | _ => None
  end.

Fixpoint walk (t : trie) (p : list str) : option trie :=
  match p with
  | [] => Some t
  | a :: p' => match lookup a (t_children t) with Some t' => walk t' p' | None => None end
  end.

Definition node_at (m : rtrie) (p : apath) : option trie :=
  match lookup_root (fst p) m with
  | Some t => walk t (snd p)
  | None => None
  end.

(* a path is covered: the empty path needs nothing (to_root_access_trie_with_leaf inserts nothing) *)
Definition covers (m : rtrie) (p : apath) : bool :=
  match snd p with
  | [] => true
  | _ => match node_at m p with Some _ => true | None => false end
  end.

(* the right operand of `in`: a direct path, or a set literal of direct paths *)
Definition in_targets (sl : slotenv) (e : texpr) : option (list apath) :=
  match e with
  | TESet items _ => omapM (direct_path sl) items
  | _ => option_map (fun p => [p]) (direct_path sl e)
  end.

Definition anc_marked (m : rtrie) (p : apath) : bool :=
  match node_at m p with Some t => t_is_anc t | None => false end.

Definition covers_in (m : rtrie) (lhs : apath) (targets : list apath) : bool :=
  match node_at m lhs with
  | Some t => forallb (anc_marked (t_anc t)) targets
  | None => false
  end.

Definition typed_false (e : texpr) : bool :=
  match ty_of e with Some (TBool BFalse) => true | _ => false end.

(* what this node itself requires of the manifest *)
Definition here_ok (sl : slotenv) (m : rtrie) (e : texpr) : bool :=
  match e with
  | TEGetAttr _ _ _ => match direct_path sl e with Some p => covers m p | None => true end
  | TEHasAttr e' a _ =>
      (* `x has a`: the path x.a unless the typechecker proved the test False (to_typed drops
         attributes the schema does not declare) *)
      if typed_false e then true
      else match direct_path sl e' with Some (r, p) => covers m (r, p ++ [a]) | None => true end
  | TEBinApp BIn a b _ =>
      match direct_path sl a, in_targets sl b with
      | Some pa, Some ts => covers_in m pa ts
      | _, _ => true
      end
  | _ => true
  end.

(* every GetAttr / has chain read by the expression is in the trie, and every `a in b` over direct paths
   has b's paths marked in the ancestors trie of a's node *)
Fixpoint adequate (sl : slotenv) (m : rtrie) (e : texpr) {struct e} : bool :=
  here_ok sl m e &&
  match e with
  | TELit _ _ | TEVar _ _ | TESlot _ _ | TEUnknown _ _ _ => true
  | TEIf c a b _ => adequate sl m c && adequate sl m a && adequate sl m b
  | TEAnd a b _ | TEOr a b _ | TEBinApp _ a b _ => adequate sl m a && adequate sl m b
  | TEUnApp _ a _ | TEGetAttr a _ _ | TEHasAttr a _ _ | TELike a _ _ | TEIs a _ _ => adequate sl m a
  | TEExtCall _ args _ | TESet args _ => forallb (adequate sl m) args
  | TERecord items _ => forallb (fun kv => adequate sl m (snd kv)) items
  end.

(* the paths the validator misses (for the report) *)
Definition here_missing (sl : slotenv) (m : rtrie) (e : texpr) : list apath :=
  if here_ok sl m e then []
  else match e with
       | TEGetAttr _ _ _ => match direct_path sl e with Some p => [p] | None => [] end
       | TEHasAttr e' a _ => match direct_path sl e' with Some (r, p) => [(r, p ++ [a])] | None => [] end
       | TEBinApp BIn a _ _ => match direct_path sl a with Some pa => [pa] | None => [] end
       | _ => []
       end.

Fixpoint missing (sl : slotenv) (m : rtrie) (e : texpr) {struct e} : list apath :=
  here_missing sl m e ++
  match e with
  | TELit _ _ | TEVar _ _ | TESlot _ _ | TEUnknown _ _ _ => []
  | TEIf c a b _ => missing sl m c ++ missing sl m a ++ missing sl m b
  | TEAnd a b _ | TEOr a b _ | TEBinApp _ a b _ => missing sl m a ++ missing sl m b
  | TEUnApp _ a _ | TEGetAttr a _ _ | TEHasAttr a _ _ | TELike a _ _ | TEIs a _ _ => missing sl m a
  | TEExtCall _ args _ | TESet args _ => flat_map (missing sl m) args
  | TERecord items _ => flat_map (fun kv => missing sl m (snd kv)) items
  end.
