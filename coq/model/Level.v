(* Level.v — level validation (RFC 76) and the level-n entity slice.  Property C16.

   Mirrors cedar-policy-core/src/validator/level_validate.rs:
     LevelChecker::check_expr_level                 = lv None
     LevelChecker::check_entity_deref_target_level  = lv (Some access_path)
   on the type-annotated expression (TExpr.texpr = ast::Expr<Option<Type>>) the typechecker
   produced for ONE request environment.  The two Rust functions are mutually recursive; here
   they are one structurally recursive function with a mode argument (None = check_expr_level,
   Some path = check_entity_deref_target_level with that access path; the head of the list is
   the LAST element of the Rust Vec, so push = cons and pop = head).  The result is the pair
   (dereference level of the target, errors inserted into level_checking_errors) — the level
   component is meaningful only in mode Some.

   The slice is not in /repo: `slice_at_level` is the definition pinned in DESIGN.md C16
   (level 0 = nothing; level 1 = the request's principal, action, resource and the uids
   mentioned in the context; each further level adds the uids mentioned anywhere inside the
   attribute and tag values of the previous level; every kept entity keeps its attributes,
   tags and full ancestor set).  Definitions only; proofs in proofs/LevelProofs.v. *)
From Coq Require Import String.
From Cedar Require Export TExpr TExprRun.
Open Scope string_scope.
Open Scope list_scope.

Inductive lerr :=
| LMax (actual : N)      (* EntityDerefViolationKind::MaximumLevelExceeded { actual_level } *)
| LLiteral               (* EntityDerefViolationKind::LiteralDerefTarget *)
| LInternal.             (* InternalInvariantViolation *)

(* expr.data() matches Some(Type::Entity(EntityKind::Entity { .. })) / Some(Type::Record { .. }) *)
Definition is_entity_oty (t : oty) : bool :=
  match t with Some (TEntity (ELub _)) => true | _ => false end.
Definition is_record_oty (t : oty) : bool :=
  match t with Some (TRecord _ _) => true | _ => false end.

Definition is_deref_binop (op : binop) : bool :=
  match op with BHasTag | BGetTag | BIn => true | _ => false end.

(* The Record arm of check_entity_deref_target_level on the per-attribute results
   (key, (errors of check_expr_level on the attribute, result of the deref-target check on it)):
   `attrs.get_key_value(a)`; every OTHER attribute goes through check_expr_level, the accessed one
   through check_entity_deref_target_level; no such attribute: InternalInvariantViolation. *)
Definition rec_result := (list lerr * (N * list lerr))%type.
Fixpoint rec_others (a : str) (rs : list (str * rec_result)) : list lerr :=
  match rs with
  | [] => []
  | (k, (o, _)) :: l => if str_eqb a k then rec_others a l else o ++ rec_others a l
  end.
Definition rec_pick (a : str) (rs : list (str * rec_result)) : N * list lerr :=
  match lookup a rs with
  | Some (_, ra) => (fst ra, rec_others a rs ++ snd ra)
  | None => (0%N, [LInternal])
  end.

Section Level.
  Variable action : uid.       (* env.action_entity_uid() of a DeclaredAction environment *)
  Variable maxl : N.           (* max_level *)

  (* `if deref_target_lvl >= self.max_level { insert maximum_level_exceeded(.., lvl.increment()) }` *)
  Definition over (l : N) : list lerr := if N.leb maxl l then [LMax (N.succ l)] else [].

  Fixpoint lv (m : option (list str)) (e : texpr) {struct e} : N * list lerr :=
    match m with
    | Some path =>
        (* check_entity_deref_target_level *)
        match e with
        | TEVar _ _ => (0%N, [])
        | TESlot _ _ => (0%N, [LLiteral])
        | TELit (PEntity u) _ => (0%N, if uid_eqb u action then [] else [LLiteral])
        | TEIf c a b _ =>
            let ec := snd (lv None c) in
            let ra := lv (Some path) a in
            let rb := lv (Some path) b in
            (N.max (fst ra) (fst rb), ec ++ snd ra ++ snd rb)
        | TEGetAttr x a _ =>
            if is_entity_oty (ty_of x) then
              let r := lv (Some path) x in (N.succ (fst r), snd r)
            else if is_record_oty (ty_of x) then lv (Some (a :: path)) x
            else (0%N, [LInternal])
        | TEBinApp BGetTag a b _ =>
            let ra := lv (Some path) a in
            (N.succ (fst ra), snd ra ++ snd (lv None b))
        | TERecord items _ =>
            match path with
            | a :: path' =>
                rec_pick a (map (fun kv => (fst kv, (snd (lv None (snd kv)), lv (Some path') (snd kv)))) items)
            | [] => (0%N, [LInternal])
            end
        | _ => (0%N, [LInternal])
        end
    | None =>
        (* check_expr_level *)
        match e with
        | TELit _ _ | TEVar _ _ | TESlot _ _ | TEUnknown _ _ _ => (0%N, [])
        | TEIf c a b _ => (0%N, snd (lv None c) ++ snd (lv None a) ++ snd (lv None b))
        | TEAnd a b _ | TEOr a b _ => (0%N, snd (lv None a) ++ snd (lv None b))
        | TEUnApp _ a _ => (0%N, snd (lv None a))
        | TEBinApp op a b _ =>
            if is_deref_binop op then
              let ra := lv (Some []) a in
              (0%N, snd ra ++ over (fst ra) ++ snd (lv None b))
            else (0%N, snd (lv None a) ++ snd (lv None b))
        | TEExtCall _ args _ =>
            (0%N, concat (map (fun x => snd (lv None x)) args))
        | TEHasAttr x _ _ | TEGetAttr x _ _ =>
            if is_entity_oty (ty_of x) then
              let ra := lv (Some []) x in (0%N, snd ra ++ over (fst ra))
            else if is_record_oty (ty_of x) then (0%N, snd (lv None x))
            else (0%N, [LInternal])
        | TELike x _ _ => (0%N, snd (lv None x))
        | TEIs x _ _ => (0%N, snd (lv None x))
        | TESet items _ =>
            (0%N, concat (map (fun x => snd (lv None x)) items))
        | TERecord items _ =>
            (0%N, concat (map (fun kv => snd (lv None (snd kv))) items))
        end
    end.

  Definition level_errors (e : texpr) : list lerr := snd (lv None e).
  Definition level_ok (e : texpr) : bool := match level_errors e with [] => true | _ => false end.
End Level.

(* ------------------------------------------------------------------ the level-n slice *)
Fixpoint value_uids (v : value) : list uid :=
  match v with
  | VPrim (PEntity u) => [u]
  | VPrim _ => []
  | VSet l => (fix go (l : list value) : list uid :=
                 match l with [] => [] | x :: l' => value_uids x ++ go l' end) l
  | VRecord l => (fix go (l : list (str * value)) : list uid :=
                    match l with [] => [] | (_, x) :: l' => value_uids x ++ go l' end) l
  | VExt _ => []
  end.

Definition attrs_uids (l : list (str * value)) : list uid := flat_map (fun kv => value_uids (snd kv)) l.

(* uids one attribute/tag hop away from the entity *)
Definition edata_uids (d : edata) : list uid := attrs_uids (eattrs d) ++ attrs_uids (etags d).

Definition request_roots (q : request) : list uid :=
  [rprincipal q; raction q; rresource q] ++ attrs_uids (rcontext q).

Definition hop (es : entities) (us : list uid) : list uid :=
  flat_map (fun u => match find_entity u es with Some d => edata_uids d | None => [] end) us.

(* uids needed at level n: nothing at 0; the frontier and n-1 further hops otherwise *)
Fixpoint reach (es : entities) (n : nat) (front : list uid) : list uid :=
  match n with
  | O => []
  | S k => front ++ reach es k (hop es front)
  end.

Definition uid_mem (u : uid) (l : list uid) : bool := existsb (uid_eqb u) l.

Definition slice_at_level (n : nat) (q : request) (es : entities) : entities :=
  filter (fun ud => uid_mem (fst ud) (reach es n (request_roots q))) es.

(* ------------------------------------------------------------------ run commands *)
Definition e_lerr (x : lerr) : sexp :=
  match x with
  | LMax a => SL [SY "max"; SI (Z.of_N a)]
  | LLiteral => SY "literal"
  | LInternal => SY "internal"
  end.

Definition d_small_nat (s : sexp) : option nat :=
  match s with
  | SI z => if (0 <=? z)%Z && (z <=? 64)%Z then Some (Z.to_nat z) else None
  | _ => None
  end.

(* (level <reqenv> <texpr> n) -> (lerrs (...)) ;  (slice n <request> <entities>) -> (slice (uid..)) *)
Definition run_level (cmd : string) (args : list sexp) : option sexp :=
  if sym_eqb cmd "level" then
    Some (match args with
          | [env; t; SI n] =>
              match d_reqenv env, d_texpr t with
              | Some env, Some te =>
                  if (0 <=? n)%Z then
                    SL [SY "lerrs"; SL (map e_lerr (level_errors (re_action env) (Z.to_N n) te))]
                  else bad_input
              | _, _ => bad_input
              end
          | _ => bad_input
          end)
  else if sym_eqb cmd "slice" then
    Some (match args with
          | [n; q; es] =>
              match d_small_nat n, d_request q, d_entities es with
              | Some n, Some q, Some es => SL [SY "slice"; SL (map (fun ud => e_uid (fst ud)) (slice_at_level n q es))]
              | _, _, _ => bad_input
              end
          | _ => bad_input
          end)
  else None.
