(* ManifestSpec.v — declarative side of C17 (definitions only):
     * `good_slice m q es es'`: what a store es' must retain of es for the root access trie m
       (the contract slice_by_manifest is meant to establish; see notes/C17.md for how it is tied
       to the executable slice),
     * `frag sl m e`: the *visible fragment* of typed expressions together with the manifest
       requirements the soundness theorem uses (a fragment-restricted, stricter `adequate`). *)
From Cedar Require Export Manifest.

Section Spec.
  Variable q : request.
  Variables es es' : entities.

  Definition root_val (r : root) : value :=
    match r with RLit u => VEntity u | RVar v => eval_var q v end.

  (* the value of an access path, read in store st *)
  Fixpoint path_from (st : entities) (v : value) (p : list str) : res value :=
    match p with
    | [] => Ok v
    | a :: p' => do x <- get_attr st v a; path_from st x p'
    end.

  Definition path_val (st : entities) (p : apath) : res value := path_from st (root_val (fst p)) (snd p).

  (* the entity uids an ancestors-trie node marked is_ancestor stands for *)
  Definition targets (v : value) : list uid :=
    match v with
    | VPrim (PEntity u) => [u]
    | VSet l => flat_map (fun x => match x with VPrim (PEntity u) => [u] | _ => [] end) l
    | _ => []
    end.

  (* the requested ancestors of an entity are kept exactly *)
  Definition anc_ok (at_ : rtrie) (d d' : edata) : Prop :=
    forall r t0 p t1 v x,
      lookup_root r at_ = Some t0 -> walk t0 p = Some t1 -> t_is_anc t1 = true ->
      path_from es (root_val r) p = Ok v -> In x (targets v) ->
      is_descendant_of d' x = is_descendant_of d x.

  (* v' (read in es') represents v (read in es) as far as trie t asks *)
  Fixpoint agree (t : trie) (v v' : value) {struct t} : Prop :=
    match t with
    | Trie ch anc _ =>
        let kids :=
          fix kids (l : list (str * trie)) (get get' : str -> option value) : Prop :=
            match l with
            | [] => True
            | (a, t') :: l' =>
                match get a, get' a with
                | None, None => True
                | Some x, Some x' => agree t' x x'
                | _, _ => False
                end /\ kids l' get get'
            end in
        match v with
        | VPrim (PEntity u) =>
            v' = v /\
            match find_entity u es, find_entity u es' with
            | None, None => True
            | Some d, Some d' =>
                kids ch (fun a => lookup a (eattrs d)) (fun a => lookup a (eattrs d')) /\ anc_ok anc d d'
            | _, _ => False
            end
        | VRecord r => exists r', v' = VRecord r' /\ kids ch (fun a => lookup a r) (fun a => lookup a r')
        | _ => v' = v
        end
    end.

  Definition good_slice (m : rtrie) : Prop :=
    forall r t, lookup_root r m = Some t -> agree t (root_val r) (root_val r).
End Spec.

(* ---------------------------------------------------------------- the visible fragment *)
Inductive kind := KExact | KSim.
Definition kind_meet (a b : kind) : kind := match a, b with KExact, KExact => KExact | _, _ => KSim end.

(* expressions that never evaluate to a record *)
Definition nonrec (e : texpr) : bool :=
  match e with
  | TELit _ _ | TESlot _ _ => true
  | TEVar Context _ => false
  | TEVar _ _ => true
  | _ => false
  end.

Definition node_covered (m : rtrie) (p : apath) : bool :=
  match node_at m p with Some _ => true | None => false end.

Definition all_exact (ks : list (option kind)) : bool :=
  forallb (fun k => match k with Some KExact => true | _ => false end) ks.

(* Some KExact: evaluation on a good slice gives the SAME result; Some KSim: the same error, or values
   equal up to records being sliced; None: outside the fragment / manifest requirement not met *)
Fixpoint frag (sl : slotenv) (m : rtrie) (e : texpr) {struct e} : option kind :=
  match e with
  | TELit _ _ | TEVar _ _ | TESlot _ _ | TEUnknown _ _ _ => Some KExact
  | TEIf c a b _ =>
      match frag sl m c, frag sl m a, frag sl m b with
      | Some _, Some ka, Some kb => Some (kind_meet ka kb)
      | _, _, _ => None
      end
  | TEAnd a b _ | TEOr a b _ =>
      match frag sl m a, frag sl m b with Some _, Some _ => Some KExact | _, _ => None end
  | TEUnApp _ a _ | TELike a _ _ | TEIs a _ _ =>
      match frag sl m a with Some _ => Some KExact | None => None end
  | TEBinApp op a b _ =>
      match op with
      | BLess | BLessEq | BAdd | BSub | BMul | BContainsAll | BContainsAny =>
          match frag sl m a, frag sl m b with Some _, Some _ => Some KExact | _, _ => None end
      | BEq =>
          match frag sl m a, frag sl m b with
          | Some KExact, Some KExact => Some KExact
          | Some _, Some _ => if nonrec a || nonrec b then Some KExact else None
          | _, _ => None
          end
      | BContains =>
          match frag sl m a, frag sl m b with Some _, Some KExact => Some KExact | _, _ => None end
      | BIn =>
          match direct_path sl a, in_targets sl b with
          | Some pa, Some ts => if covers_in m pa ts && forallb (covers m) ts then Some KExact else None
          | _, _ => None
          end
      | BGetTag | BHasTag => None
      end
  | TEExtCall _ args _ => if all_exact (map (frag sl m) args) then Some KExact else None
  | TEGetAttr _ _ _ =>
      match direct_path sl e with
      | Some p => if node_covered m p then Some KSim else None
      | None => None
      end
  | TEHasAttr e' a _ =>
      match direct_path sl e' with
      | Some (r, p) => if node_covered m (r, p ++ [a]) then Some KExact else None
      | None => None
      end
  | TESet items _ => if all_exact (map (frag sl m) items) then Some KExact else None
  | TERecord items _ => if all_exact (map (fun kv => frag sl m (snd kv)) items) then Some KExact else None
  end.
