(* EstPolicy.v — the JSON policy format (EST), whole policies / templates.
   Mirrors cedar-policy-core/src/est.rs (struct Policy, From<ast::Template> for Policy,
   try_into_ast_policy_or_template), est/scope_constraints.rs (serde shapes of
   Principal/Action/ResourceConstraint, From<ast::..Constraint>, TryFrom<..Constraint>),
   est/annotation.rs, entities/json/value.rs (EntityUidJson, TypeAndId).
   serde contract as in Est.v: duplicate keys are rejected everywhere (json_nodup, checked once);
   `struct Policy` and PrincipalOrResourceIsConstraint deny unknown fields; the untagged
   Eq/In constraints and TypeAndId ignore them.  Definitions only. *)
From Coq Require Import String.
From Cedar Require Export Est.
Open Scope Z_scope.

(* ---- AST -> EST ---- *)
Definition effect_str (e : effect) : str := K (match e with Permit => "permit" | Forbid => "forbid" end).

Definition eref_fields (s : slot) (r : eref) : list (str * json) :=
  match r with
  | RefUid u => [(K "entity", uid_json u)]
  | RefSlot => [(K "slot", JStr (slot_str s))]
  end.

Definition pr_to_est (s : slot) (c : prconstraint) : json :=
  match c with
  | CAny => JObj [(K "op", JStr (K "All"))]
  | CEq r => JObj ((K "op", JStr (K "==")) :: eref_fields s r)
  | CIn r => JObj ((K "op", JStr (K "in")) :: eref_fields s r)
  | CIs t => JObj [(K "op", JStr (K "is")); (K "entity_type", JStr (print_name t))]
  | CIsIn t r => JObj [(K "op", JStr (K "is")); (K "entity_type", JStr (print_name t));
                       (K "in", JObj (eref_fields s r))]
  end.

Definition ac_to_est (c : aconstraint) : json :=
  match c with
  | AAny => JObj [(K "op", JStr (K "All"))]
  | AEq u => JObj [(K "op", JStr (K "==")); (K "entity", uid_json u)]
  | AIn [u] => JObj [(K "op", JStr (K "in")); (K "entity", uid_json u)]
  | AIn us => JObj [(K "op", JStr (K "in")); (K "entities", JArr (map uid_json us))]
  end.

Definition annotations_to_est (a : annotations) : list (str * json) :=
  match a with
  | [] => []
  | _ => [(K "annotations", JObj (map (fun kv => (fst kv, JStr (snd kv))) a))]
  end.

Definition template_to_est (t : template) : json :=
  JObj ([(K "effect", JStr (effect_str (teffect t)));
         (K "principal", pr_to_est SlotPrincipal (tprincipal t));
         (K "action", ac_to_est (taction t));
         (K "resource", pr_to_est SlotResource (tresource t));
         (K "conditions", ast_to_est_conditions (tbody t))]
        ++ annotations_to_est (tannot t)).

(* ---- EST -> AST ---- *)
(* TypeAndId -> EntityUID *)
Definition type_and_id (fs : list (str * json)) : option (res uid) :=
  match jget (K "type") fs, jget (K "id") fs with
  | Some (JStr t), Some (JStr i) =>
      Some (match parse_name t with Some n => Ok (mkUid n i) | None => bad end)
  | _, _ => None
  end.

(* EntityUidJson (untagged: __expr | __entity | implicit | anything else) + into_euid *)
Definition uidjson_to_uid (j : json) : res uid :=
  match j with
  | JObj fs =>
      match jget (K "__expr") fs with
      | Some (JStr _) => bad
      | _ =>
          match (match jget (K "__entity") fs with
                 | Some (JObj r) => type_and_id r
                 | _ => None
                 end) with
          | Some r => r
          | None => match type_and_id fs with Some r => r | None => bad end
          end
      end
  | _ => bad
  end.

(* untagged {entity} | {slot}; the slot must be the one of this scope position *)
Definition eref_of (s : slot) (fs : list (str * json)) : res eref :=
  match jget (K "entity") fs with
  | Some e => do u <- uidjson_to_uid e; Ok (RefUid u)
  | None =>
      match jget (K "slot") fs with
      | Some (JStr x) =>
          match slot_of x with
          | Some s' => if slot_eqb s s' then Ok RefSlot else bad
          | None => bad
          end
      | _ => bad
      end
  end.

Definition op_all (o : str) : bool := str_eqb o (K "All") || str_eqb o (K "all").

Definition est_to_pr (s : slot) (j : json) : res prconstraint :=
  match j with
  | JObj fs =>
      match jget (K "op") fs with
      | Some (JStr o) =>
          if op_all o then Ok CAny  (* unit variant: other fields are ignored *)
          else if str_eqb o (K "==") then do r <- eref_of s fs; Ok (CEq r)
          else if str_eqb o (K "in") then do r <- eref_of s fs; Ok (CIn r)
          else if str_eqb o (K "is") then
            if keys_exact ["op"; "entity_type"; "in"]%string fs then
              match jget (K "entity_type") fs with
              | Some (JStr t) =>
                  match parse_name t with
                  | Some ty =>
                      match jget (K "in") fs with
                      | None | Some JNull => Ok (CIs ty)
                      | Some (JObj r) => do x <- eref_of s r; Ok (CIsIn ty x)
                      | Some _ => bad
                      end
                  | None => bad
                  end
              | _ => bad
              end
            else bad
          else bad
      | _ => bad
      end
  | _ => bad
  end.

(* EntityType::is_action: the basename is `Action` *)
Definition is_action_uid (u : uid) : bool :=
  match rev (uty u) with b :: _ => str_eqb b (K "Action") | [] => false end.

Definition est_to_ac (j : json) : res aconstraint :=
  match j with
  | JObj fs =>
      match jget (K "op") fs with
      | Some (JStr o) =>
          if op_all o then Ok AAny
          else if str_eqb o (K "==") then
            match jget (K "entity") fs with
            | Some e => do u <- uidjson_to_uid e; if is_action_uid u then Ok (AEq u) else bad
            | None => bad
            end
          else if str_eqb o (K "in") then
            match jget (K "entity") fs with
            | Some e => do u <- uidjson_to_uid e; if is_action_uid u then Ok (AIn [u]) else bad
            | None =>
                match jget (K "entities") fs with
                | Some (JArr l) =>
                    do us <- mapM uidjson_to_uid l;
                    if forallb is_action_uid us then Ok (AIn us) else bad
                | _ => bad
                end
            end
          else bad
      | _ => bad
      end
  | _ => bad
  end.

(* AnyId::from_normalized_str: identifier syntax, reserved words allowed *)
Definition anyid_ok (s : str) : bool :=
  match s with [] => false | c :: s' => is_alpha_ c && forallb is_alnum_ s' end.

Fixpoint est_to_annotation_list (l : list (str * json)) : res annotations :=
  match l with
  | [] => Ok []
  | (k, v) :: l' =>
      if anyid_ok k then
        do rest <- est_to_annotation_list l';
        match v with
        | JStr s => Ok ((k, s) :: rest)
        | JNull => Ok ((k, []) :: rest)
        | _ => bad
        end
      else bad
  end.

(* BTreeMap<AnyId, _>: key order *)
Definition est_to_annotations (o : option json) : res annotations :=
  match o with
  | None => Ok []
  | Some (JObj l) => do a <- est_to_annotation_list l; Ok (sort_assoc a)
  | Some _ => bad
  end.

Definition effect_of (j : json) : res effect :=
  match j with
  | JStr s => if str_eqb s (K "permit") then Ok Permit
              else if str_eqb s (K "forbid") then Ok Forbid else bad
  | _ => bad
  end.

Definition conditions_to_ast (j : json) : res (option expr) :=
  match j with
  | JArr l => do es <- mapM clause_to_ast l; Ok (fold_conditions es)
  | _ => bad
  end.

Definition reqj (k : string) (fs : list (str * json)) : res json :=
  match jget (K k) fs with Some j => Ok j | None => bad end.

(* serde (struct Policy, deny_unknown_fields) + try_into_ast_policy_or_template; the order of
   the conversions is that of the Rust function: conditions, annotations, principal, action,
   resource (only the error/no-error outcome is modelled) *)
Definition est_to_template_nocheck (id : str) (j : json) : res template :=
  match j with
  | JObj fs =>
      if keys_exact ["effect"; "principal"; "action"; "resource"; "conditions"; "annotations"]%string fs then
        do ej <- reqj "effect" fs; do pj <- reqj "principal" fs; do aj <- reqj "action" fs;
        do rj <- reqj "resource" fs; do cj <- reqj "conditions" fs;
        do eff <- effect_of ej;
        do body <- conditions_to_ast cj;
        do ann <- est_to_annotations (jget (K "annotations") fs);
        do pc <- est_to_pr SlotPrincipal pj;
        do ac <- est_to_ac aj;
        do rc <- est_to_pr SlotResource rj;
        Ok (mkTemplate id ann eff pc ac rc body)
      else bad
  | _ => bad
  end.

Definition est_to_template (id : str) (j : json) : res template :=
  if json_nodup j then est_to_template_nocheck id j else bad.

(* ---- slots of a template (Template::slots) ---- *)
Definition pr_has_slot (c : prconstraint) : bool :=
  match c with CEq RefSlot | CIn RefSlot | CIsIn _ RefSlot => true | _ => false end.
Definition template_slots (t : template) : list slot :=
  (if pr_has_slot (tprincipal t) then [SlotPrincipal] else []) ++
  (if pr_has_slot (tresource t) then [SlotResource] else []).
