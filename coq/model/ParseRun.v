(* ParseRun.v — run commands of the C05 family (drivers only). *)
From Coq Require Import String.
From Cedar Require Export Codec Unescape Print Lexer Parse PrintToks ParsePolicy.
Open Scope string_scope.

Definition e_ures {A} (f : A -> sexp) (r : ures A) : sexp :=
  match r with UOk a => e_tag "ok" [f a] | UErr => SY "err" | UFuel => SY "fuel" end.
Definition e_patelem (pe : patelem) : sexp :=
  match pe with PChar c => SI (Z.of_N c) | PStar => SY "star" end.
Definition in_set (l : list N) (c : N) : bool := existsb (N.eqb c) l.

(* (c05_escape <np> <ge> <s>): np / ge = the scalar values of s the implementation's table puts in
   the "not printable" / "Grapheme_Extend" class; s is used both as a string to escape and as the
   raw inside of a literal to unescape *)
Definition run_c05_escape (args : list sexp) : sexp :=
  match args with
  | [np; ge; SS s] =>
      match d_list d_N np, d_list d_N ge with
      | Some np, Some ge =>
          SL [SS (escape_debug (in_set np) (in_set ge) s);
              SS (show_pattern (in_set np) (in_set ge) (map PChar s));
              e_ures SS (to_unescaped_string s);
              e_ures (e_list e_patelem) (to_pattern s)]
      | _, _ => bad_input
      end
  | _ => bad_input
  end.

(* (c05_print_expr <np> <ge> <expr>)  /  (c05_print_template <np> <ge> <template>) *)
Definition run_c05_print_expr (args : list sexp) : sexp :=
  match args with
  | [np; ge; e] =>
      match d_list d_N np, d_list d_N ge, d_expr e with
      | Some np, Some ge, Some e => SS (show_expr (in_set np) (in_set ge) e)
      | _, _, _ => bad_input
      end
  | _ => bad_input
  end.
Definition run_c05_print_template (args : list sexp) : sexp :=
  match args with
  | [np; ge; t] =>
      match d_list d_N np, d_list d_N ge, d_template t with
      | Some np, Some ge, Some t => SS (show_template (in_set np) (in_set ge) t)
      | _, _, _ => bad_input
      end
  | _ => bad_input
  end.

(* ---- expression encoder (same syntax as the harness dump / vp/cedar.py::expr_sx) ---- *)
Definition e_var (v : var) : sexp :=
  SY (match v with Principal => "principal" | Action => "action" | Resource => "resource" | Context => "context" end).
Definition e_unop (o : unop) : sexp := SY (match o with UNot => "not" | UNeg => "neg" | UIsEmpty => "isEmpty" end).
Definition e_binop (o : binop) : sexp :=
  SY (match o with
      | BEq => "eq" | BLess => "less" | BLessEq => "lesseq" | BAdd => "add" | BSub => "sub" | BMul => "mul"
      | BIn => "in" | BContains => "contains" | BContainsAll => "containsAll" | BContainsAny => "containsAny"
      | BGetTag => "getTag" | BHasTag => "hasTag"
      end).
Fixpoint e_expr (e : expr) : sexp :=
  match e with
  | Lit p => SL [SY "lit"; e_prim p]
  | Var v => SL [SY "var"; e_var v]
  | Slot SlotPrincipal => SL [SY "slot"; SY "principal"]
  | Slot SlotResource => SL [SY "slot"; SY "resource"]
  | Unknown n _ => SL [SY "unknown"; SS n; SY "none"]
  | If c t f => SL [SY "if"; e_expr c; e_expr t; e_expr f]
  | And a b => SL [SY "and"; e_expr a; e_expr b]
  | Or a b => SL [SY "or"; e_expr a; e_expr b]
  | UnApp o a => SL [SY "unop"; e_unop o; e_expr a]
  | BinApp o a b => SL [SY "binop"; e_binop o; e_expr a; e_expr b]
  | ExtCall fn args => SL [SY "ext"; e_name fn; SL (map e_expr args)]
  | GetAttr a k => SL [SY "getattr"; e_expr a; SS k]
  | HasAttr a k => SL [SY "hasattr"; e_expr a; SS k]
  | Like a p => SL [SY "like"; e_expr a; SL (map e_patelem p)]
  | Is a t => SL [SY "is"; e_expr a; e_name t]
  | SetE items => SL [SY "set"; SL (map e_expr items)]
  | RecordE items =>
      SL [SY "record";
          SL ((fix go (l : list (str * expr)) : list sexp :=
                 match l with [] => [] | (k, v) :: l' => SL [SS k; e_expr v] :: go l' end) items)]
  end.

(* (c05_parse_expr <text>) -> (ok <expr>) | reject | lexerr *)
Definition run_c05_parse_expr (args : list sexp) : sexp :=
  match args with
  | [SS text] =>
      match lex_text text with
      | None => SY "lexerr"
      | Some ts => match parse_expr_toks ts with Some e => e_tag "ok" [e_expr e] | None => SY "reject" end
      end
  | _ => bad_input
  end.

(* (c05_toks_check <np> <ge> <expr>) -> (<lex (show_expr e) = print_toks e> <parse (print_toks e) = e>) *)
Definition run_c05_toks_check (args : list sexp) : sexp :=
  match args with
  | [np; ge; e] =>
      match d_list d_N np, d_list d_N ge, d_expr e with
      | Some np, Some ge, Some e =>
          let ts := print_toks (in_set np) (in_set ge) e in
          SL [e_bool (match lex_text (show_expr (in_set np) (in_set ge) e) with
                      | Some ts' => tokens_eqb ts ts' | None => false end);
              match parse_expr_toks ts with Some e' => e_tag "ok" [e_expr e'] | None => SY "reject" end]
      | _, _, _ => bad_input
      end
  | _ => bad_input
  end.

(* ---- policies ---- *)
Definition e_eref (r : eref) : sexp := match r with RefSlot => SY "slot" | RefUid u => e_uid u end.
Definition e_prc (c : prconstraint) : sexp :=
  match c with
  | CAny => SY "any"
  | CEq r => SL [SY "eq"; e_eref r]
  | CIn r => SL [SY "in"; e_eref r]
  | CIs t => SL [SY "is"; e_name t]
  | CIsIn t r => SL [SY "isin"; e_name t; e_eref r]
  end.
Definition e_ac (c : aconstraint) : sexp :=
  match c with
  | AAny => SY "any"
  | AEq u => SL [SY "eq"; e_uid u]
  | AIn us => SL [SY "in"; SL (map e_uid us)]
  end.
Definition e_template (t : template) : sexp :=
  SL [SY "template"; SS []; SL (map (fun kv => SL [SS (fst kv); SS (snd kv)]) (tannot t));
      SY (match teffect t with Permit => "permit" | Forbid => "forbid" end);
      e_prc (tprincipal t); e_ac (taction t); e_prc (tresource t);
      match tbody t with None => SY "none" | Some e => SL [SY "some"; e_expr e] end].

(* (c05_parse_policy <text>) / (c05_parse_policyset <text>) -> (ok ..) | reject | lexerr *)
Definition run_c05_parse_policy (args : list sexp) : sexp :=
  match args with
  | [SS text] =>
      match lex_text text with
      | None => SY "lexerr"
      | Some ts => match parse_policy_toks ts with Some t => e_tag "ok" [e_template t] | None => SY "reject" end
      end
  | _ => bad_input
  end.
Definition run_c05_parse_policyset (args : list sexp) : sexp :=
  match args with
  | [SS text] =>
      match lex_text text with
      | None => SY "lexerr"
      | Some ts => match parse_policyset_toks ts with Some l => e_tag "ok" [SL (map e_template l)] | None => SY "reject" end
      end
  | _ => bad_input
  end.

Definition run_c05 (cmd : string) (args : list sexp) : option sexp :=
  if sym_eqb cmd "c05_escape" then Some (run_c05_escape args)
  else if sym_eqb cmd "c05_print_expr" then Some (run_c05_print_expr args)
  else if sym_eqb cmd "c05_print_template" then Some (run_c05_print_template args)
  else if sym_eqb cmd "c05_parse_expr" then Some (run_c05_parse_expr args)
  else if sym_eqb cmd "c05_toks_check" then Some (run_c05_toks_check args)
  else if sym_eqb cmd "c05_parse_policy" then Some (run_c05_parse_policy args)
  else if sym_eqb cmd "c05_parse_policyset" then Some (run_c05_parse_policyset args)
  else None.
