(* ParseRun.v — run commands of the C05 family (drivers only). *)
From Coq Require Import String.
From Cedar Require Export Codec Unescape Print.
Open Scope string_scope.

Definition e_ures {A} (f : A -> sexp) (r : ures A) : sexp :=
  match r with UOk a => e_tag "ok" [f a] | UErr => SY "err" | UFuel => SY "fuel" end.
Definition e_patelem (pe : patelem) : sexp :=
  match pe with PChar c => SI (Z.of_N c) | PStar => SY "star" end.
Definition in_set (l : list N) (c : N) : bool := existsb (N.eqb c) l.

(* (c05_escape <np> <ge> <s>): np / ge = the scalar values of s the implementation's table puts in
   the "not printable" / "Grapheme_Extend" class; s is used both as a string to escape and as the
   raw inside of a literal to unescape *)
Definition run_c05_escape (args : list sexp) : sexp :=
  match args with
  | [np; ge; SS s] =>
      match d_list d_N np, d_list d_N ge with
      | Some np, Some ge =>
          SL [SS (escape_debug (in_set np) (in_set ge) s);
              SS (show_pattern (in_set np) (in_set ge) (map PChar s));
              e_ures SS (to_unescaped_string s);
              e_ures (e_list e_patelem) (to_pattern s)]
      | _, _ => bad_input
      end
  | _ => bad_input
  end.

(* (c05_print_expr <np> <ge> <expr>)  /  (c05_print_template <np> <ge> <template>) *)
Definition run_c05_print_expr (args : list sexp) : sexp :=
  match args with
  | [np; ge; e] =>
      match d_list d_N np, d_list d_N ge, d_expr e with
      | Some np, Some ge, Some e => SS (show_expr (in_set np) (in_set ge) e)
      | _, _, _ => bad_input
      end
  | _ => bad_input
  end.
Definition run_c05_print_template (args : list sexp) : sexp :=
  match args with
  | [np; ge; t] =>
      match d_list d_N np, d_list d_N ge, d_template t with
      | Some np, Some ge, Some t => SS (show_template (in_set np) (in_set ge) t)
      | _, _, _ => bad_input
      end
  | _ => bad_input
  end.

Definition run_c05 (cmd : string) (args : list sexp) : option sexp :=
  if sym_eqb cmd "c05_escape" then Some (run_c05_escape args)
  else if sym_eqb cmd "c05_print_expr" then Some (run_c05_print_expr args)
  else if sym_eqb cmd "c05_print_template" then Some (run_c05_print_template args)
  else None.
