(* NoPanicUtf8.v — C20: byte-level transcription of extensions/ipaddr.rs contains_at_least_two.
   A Rust &str is UTF-8: `s.find(c)` returns a BYTE index and `s.get(k..)` is None unless k is a char boundary
   (<= len); `.unwrap()` then panics.  The model keeps strings as lists of scalar values and makes byte positions
   explicit: a char boundary is a prefix sum of the chars' UTF-8 lengths.  The source proves this site with Kani for
   strings up to length 6 only; props/C20_NoPanic.v proves it for every string. *)
From Coq Require Import String.
From Cedar Require Export NoPanic.
Open Scope string_scope.
Open Scope list_scope.

(* char::len_utf8 *)
Definition len_utf8 (c : N) : nat :=
  if (c <? 128)%N then 1 else if (c <? 2048)%N then 2 else if (c <? 65536)%N then 3 else 4.

(* <str>::find(c: char): byte index of the first occurrence *)
Fixpoint find_byte_idx (c : N) (s : str) : option nat :=
  match s with
  | [] => None
  | x :: r => if N.eqb x c then Some 0%nat
              else match find_byte_idx c r with Some i => Some (len_utf8 x + i)%nat | None => None end
  end.

(* <str>::get(k..): the text from byte offset k, None when k is not a char boundary or is past the end *)
Fixpoint get_from (s : str) (k : nat) : option str :=
  match k with
  | O => Some s
  | _ => match s with
         | [] => None
         | x :: r => if Nat.ltb k (len_utf8 x) then None else get_from r (k - len_utf8 x)
         end
  end.

Definition contains_at_least_two_checked (s : str) (c : N) : pres bool :=
  match find_byte_idx c s with
  | Some i =>
      match get_from s (i + len_utf8 c) with
      | Some rest => POk (match find_byte_idx c rest with Some _ => true | None => false end)
      | None => Panic "contains_at_least_two: s.get(i + c.len_utf8()..).unwrap()"
      end
  | None => POk false
  end.

(* <IPAddr as FromStr>::from_str with the byte-level helper: `43 < s.len()` first, then both occurrence tests (the
   model evaluates both, the code short-circuits the second: the model can only panic MORE often) *)
Definition ip_parse_checked (s : str) : pres (option ipaddr) :=
  if (43 <? byte_len s)%Z then POk None
  else pdo _a <- contains_at_least_two_checked s 58;
       pdo _b <- contains_at_least_two_checked s 46;
       POk (ip_parse s).

(* ip(s1).isInRange(ip(s2)) from the two strings, every panic site on the way made explicit *)
Definition ip_in_range_strs_checked (s1 s2 : str) : pres (option bool) :=
  pdo a <- ip_parse_checked s1;
  pdo b <- ip_parse_checked s2;
  match a, b with
  | Some a, Some b => pdo r <- ip_is_in_range_checked a b; POk (Some r)
  | _, _ => POk None
  end.
