(* Syntax.v — names, entity uids, literals, operators, expressions, policies.
   Mirrors cedar-policy-core/src/ast/{name,entity,literal,ops,expr,policy}.rs *)
From Cedar Require Export Base.

(* A (possibly namespaced) name: path components, the last one is the basename. *)
Definition name := list str.
Definition name_eqb : name -> name -> bool := strs_eqb.
Definition etype := name.

Record uid := mkUid { uty : etype; ueid : str }.
Definition uid_eqb (a b : uid) : bool := name_eqb (uty a) (uty b) && str_eqb (ueid a) (ueid b).

Inductive prim :=
| PBool (b : bool) | PLong (z : Z) | PString (s : str) | PEntity (u : uid).

Definition prim_eqb (a b : prim) : bool :=
  match a, b with
  | PBool x, PBool y => Bool.eqb x y
  | PLong x, PLong y => Z.eqb x y
  | PString x, PString y => str_eqb x y
  | PEntity x, PEntity y => uid_eqb x y
  | _, _ => false
  end.

Inductive var := Principal | Action | Resource | Context.
Inductive slot := SlotPrincipal | SlotResource.
Definition slot_eqb (a b : slot) : bool :=
  match a, b with SlotPrincipal, SlotPrincipal | SlotResource, SlotResource => true | _, _ => false end.

Inductive unop := UNot | UNeg | UIsEmpty.
Inductive binop :=
| BEq | BLess | BLessEq | BAdd | BSub | BMul | BIn
| BContains | BContainsAll | BContainsAny | BGetTag | BHasTag.

Inductive patelem := PChar (c : N) | PStar.
Definition pattern := list patelem.

(* ast::Type — run-time type tags, used for typed unknowns *)
Inductive rtype :=
| RTBool | RTLong | RTString | RTSet | RTRecord | RTEntity (t : etype) | RTExt (n : name).

Inductive expr :=
| Lit (p : prim)
| Var (v : var)
| Slot (s : slot)
| Unknown (n : str) (ty : option rtype)
| If (c t e : expr)
| And (a b : expr)
| Or (a b : expr)
| UnApp (op : unop) (a : expr)
| BinApp (op : binop) (a b : expr)
| ExtCall (fn : name) (args : list expr)
| GetAttr (e : expr) (a : str)
| HasAttr (e : expr) (a : str)
| Like (e : expr) (p : pattern)
| Is (e : expr) (t : etype)
| SetE (items : list expr)
| RecordE (items : list (str * expr)).   (* key-sorted, duplicate free (a BTreeMap) *)

(* Slot environments *)
Definition slotenv := list (slot * uid).
Fixpoint slot_lookup (s : slot) (env : slotenv) : option uid :=
  match env with
  | [] => None
  | (s', u) :: env' => if slot_eqb s s' then Some u else slot_lookup s env'
  end.

(* The literal-folding builders ExprBuilder::and / ::or (ast/expr.rs) *)
Definition mk_and (a b : expr) : expr :=
  match a, b with
  | Lit (PBool x), Lit (PBool y) => Lit (PBool (x && y))
  | _, _ => And a b
  end.
Definition mk_or (a b : expr) : expr :=
  match a, b with
  | Lit (PBool x), Lit (PBool y) => Lit (PBool (x || y))
  | _, _ => Or a b
  end.

(* Scope constraints *)
Inductive eref := RefUid (u : uid) | RefSlot.            (* EntityReference *)
Inductive prconstraint :=                                  (* PrincipalOrResourceConstraint *)
| CAny | CEq (r : eref) | CIn (r : eref) | CIsIn (t : etype) (r : eref) | CIs (t : etype).
Inductive aconstraint := AAny | AIn (us : list uid) | AEq (u : uid).

Inductive effect := Permit | Forbid.

Definition eref_expr (s : slot) (r : eref) : expr :=
  match r with RefUid u => Lit (PEntity u) | RefSlot => Slot s end.

Definition prconstraint_expr (v : var) (s : slot) (c : prconstraint) : expr :=
  match c with
  | CAny => Lit (PBool true)
  | CEq r => BinApp BEq (Var v) (eref_expr s r)
  | CIn r => BinApp BIn (Var v) (eref_expr s r)
  | CIsIn t r => mk_and (Is (Var v) t) (BinApp BIn (Var v) (eref_expr s r))
  | CIs t => Is (Var v) t
  end.

Definition aconstraint_expr (c : aconstraint) : expr :=
  match c with
  | AAny => Lit (PBool true)
  | AIn us => BinApp BIn (Var Action) (SetE (map (fun u => Lit (PEntity u)) us))
  | AEq u => BinApp BEq (Var Action) (Lit (PEntity u))
  end.

Definition annotations := list (str * str).

(* A template body (ast::TemplateBody) *)
Record template := mkTemplate {
  tid : str;
  tannot : annotations;
  teffect : effect;
  tprincipal : prconstraint;
  taction : aconstraint;
  tresource : prconstraint;
  tbody : option expr            (* non_scope_constraints *)
}.

(* TemplateBody::condition *)
Definition condition (t : template) : expr :=
  mk_and (prconstraint_expr Principal SlotPrincipal (tprincipal t))
    (mk_and (aconstraint_expr (taction t))
       (mk_and (prconstraint_expr Resource SlotResource (tresource t))
          (match tbody t with Some e => e | None => Lit (PBool true) end))).

(* A policy (ast::Policy): template + optional link id + slot values *)
Record policy := mkPolicy {
  ptemplate : template;
  plink : option str;
  penv : slotenv
}.
Definition pid (p : policy) : str :=
  match plink p with Some i => i | None => tid (ptemplate p) end.
Definition peffect (p : policy) : effect := teffect (ptemplate p).
Definition pcondition (p : policy) : expr := condition (ptemplate p).
