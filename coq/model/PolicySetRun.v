(* PolicySetRun.v — run command of the C08 model:
   (pset_history api|ast <entities> (<request> ...) (<op> ...))
   ops: (add T) (addvia T) (add_template T) (link [tid] [new] env) (unlink [id]) (remove_static [id])
        (remove_template [id]) (add_stashed n) (merge true|false (<op> ...))
   answer: one (step result renaming api_policies api_templates ast_links ast_templates t2l responses)
   per operation. *)
From Coq Require Import String.
From Cedar Require Export Codec PolicySet.
Open Scope string_scope.

Definition d_simple_op (s : sexp) : option op :=
  match s with
  | SL [SY c; a] =>
      if sym_eqb c "add" then option_map OpAdd (d_template a)
      else if sym_eqb c "addvia" then option_map OpAddVia (d_template a)
      else if sym_eqb c "add_template" then option_map OpAddTemplate (d_template a)
      else if sym_eqb c "unlink" then option_map OpUnlink (d_str a)
      else if sym_eqb c "remove_static" then option_map OpRemoveStatic (d_str a)
      else if sym_eqb c "remove_template" then option_map OpRemoveTemplate (d_str a)
      else if sym_eqb c "add_stashed" then option_map OpAddStashed (d_nat a)
      else None
  | SL [SY "link"; SS t; SS n; env] => option_map (OpLink t n) (d_slotenv env)
  | _ => None
  end.

Definition d_op (api : bool) (s : sexp) : option op :=
  match s with
  | SL [SY "merge"; b; ops] =>
      match d_bool b, d_list d_simple_op ops with
      | Some b, Some ops =>
          let h := run_ops (if api then api_step else ast_step) ops empty_h in
          Some (if api then OpMergeApi b (h_api h) else OpMergeAst b (a_ast (h_api h)))
      | _, _ => None
      end
  | _ => d_simple_op s
  end.

Definition e_pserr (e : pserr) : sexp :=
  SY (match e with
      | EOccupied => "occupied" | ENoSuchTemplate => "no_such_template" | EArity => "arity"
      | EIdConflict => "id_conflict" | ENotLink => "not_link" | ELinkNonexistent => "link_nonexistent"
      | ETemplateNonexistent => "template_nonexistent" | ETemplateHasLinks => "template_has_links"
      | ENotTemplate => "not_template" | ERmNoLink => "rm_no_link" | ERmNoTemplate => "rm_no_template"
      | EExpectedStatic => "expected_static" | EExpectedTemplate => "expected_template"
      | EPolicyNonexistent => "policy_nonexistent" | EParse => "parse_error" | ESkipped => "skipped"
      | EPanic => "panic"
      end).

Definition e_slot (s : slot) : sexp := SY (match s with SlotPrincipal => "principal" | SlotResource => "resource" end).
Definition e_effect (e : effect) : sexp := SY (match e with Permit => "permit" | Forbid => "forbid" end).
Definition e_annots (a : annotations) : sexp := e_list (fun kv => SL [SS (fst kv); SS (snd kv)]) a.

Definition e_policy_entry (kp : str * policy) : sexp :=
  let p := snd kp in
  SL [SS (fst kp); SS (pid p); e_bool (p_is_static p); SS (tid (ptemplate p));
      e_list (fun su => SL [e_slot (fst su); e_uid (snd su)]) (penv p);
      e_effect (peffect p); e_annots (tannot (ptemplate p))].
Definition e_template_entry (kt : str * template) : sexp :=
  let t := snd kt in
  SL [SS (fst kt); SS (tid t); e_list e_slot (tslots t); e_effect (teffect t); e_annots (tannot t)].

Definition e_step (h : hstate) (r : step_result) (qs : list request) (es : entities) : sexp :=
  let a := a_ast (h_api h) in
  SL [SY "step";
      match fst r with OOk _ => SY "ok" | OErr e => e_pserr e end;
      e_list (fun ab => SL [SS (fst ab); SS (snd ab)]) (snd r);
      e_list e_policy_entry (a_policies (h_api h));
      e_list e_template_entry (a_templates (h_api h));
      e_list e_policy_entry (ps_links a);
      e_list e_template_entry (ps_templates a);
      e_list (fun kl => SL [SS (fst kl); e_list SS (snd kl)]) (ps_t2l a);
      e_list (fun q => e_response (is_authorized (map snd (ps_links a)) q es)) qs].

Fixpoint run_history (stepf : hstate -> op -> hstate * step_result) (qs : list request) (es : entities)
         (ops : list op) (h : hstate) : list sexp :=
  match ops with
  | [] => []
  | o :: ops' => let (h', r) := stepf h o in e_step h' r qs es :: run_history stepf qs es ops' h'
  end.

(* PolicySet::from_json_value: EST -> ast::PolicySet (add each static policy, add_template each
   template, link each template link; first error wins), then from_est = api_of_ast *)
Fixpoint run_init (ops : list op) (h : hstate) : ores hstate :=
  match ops with
  | [] => OOk h
  | o :: ops' => match ast_step h o with
                 | (h', (OOk _, _)) => run_init ops' h'
                 | (_, (OErr e, _)) => OErr e
                 end
  end.

Definition run_pset (cmd : string) (args : list sexp) : option sexp :=
  if sym_eqb cmd "pset_history" then
    Some (match args with
          | [SY lvl; es; qs; ops; init] =>
              match d_entities es, d_list d_request qs, d_list (d_op true) ops, d_list d_simple_op init with
              | Some es, Some qs, Some ops, Some init =>
                  match run_init init empty_h with
                  | OErr e => SL [SY "init_error"; e_pserr e]
                  | OOk h0 =>
                      let h := mkH (api_of_ast (a_ast (h_api h0))) [] in
                      SL (e_step h (OOk tt, []) qs es :: run_history api_step qs es ops h)
                  end
              | _, _, _, _ => bad_input
              end
          | [SY lvl; es; qs; ops] =>
              let api := sym_eqb lvl "api" in
              match d_entities es, d_list d_request qs, d_list (d_op api) ops with
              | Some es, Some qs, Some ops =>
                  SL (run_history (if api then api_step else ast_step) qs es ops empty_h)
              | _, _, _ => bad_input
              end
          | _ => bad_input
          end)
  else None.
