(* Batched.v — C15: the loader loop of cedar-policy-core/src/batched_evaluator.rs
   (is_authorized_batched) with the type-aware partial evaluator ABSTRACTED as Section variables.

   Rust                                              Gallina
   ------------------------------------------------  ------------------------------------------
   Residual (Partial | Concrete | Error)             residual  + classify : residual -> rclass
   Residual::all_literal_uids                        lits
   Evaluator{entities}.interpret(&residual)          reinterp : pstore -> residual -> residual
   PartialEntities (HashMap uid -> PartialEntity)    pstore = list (U * D)
   PartialEntity::try_from(Entity::with_uid(id))     empty_entity
   EntityLoader::load_entities                       loader = list U -> list (U * option D)   (pure)
   `if entities.contains_entity(&id) { continue }`   add_all  (an id that is already loaded is skipped; /repo 6dde98e)
   add_entities / add_entity_trusted                 add_all  (cannot fail any more: Duplicate is unreachable)
   for _ in 0..max_iters { .. break if no Partial }  loop
   tpe::Response::new decision table                 decide
   is_authorized_batched                             batched
   TestEntityLoader                                  loader_of

   Definitions only.  The properties are in proofs/BatchedProofs.v, props/C15_Batched.v. *)
From Coq Require Import List Bool ZArith String.
Import ListNotations.
From Cedar Require Import Base Sexp Syntax Authz.

Inductive rclass := RTrue | RFalse | RError | RPartial.
Inductive boutcome := BOk (d : decision) | BInsufficient.

Definition eff_is_forbid (e : effect) : bool := match e with Forbid => true | Permit => false end.
Definition eff_is_permit (e : effect) : bool := match e with Permit => true | Forbid => false end.
Definition rclass_eqb (a b : rclass) : bool :=
  match a, b with
  | RTrue, RTrue | RFalse, RFalse | RError, RError | RPartial, RPartial => true
  | _, _ => false
  end.

Section Batched.
  Variable U : Type.                       (* entity uids *)
  Variable U_eqb : U -> U -> bool.
  Variable D : Type.                       (* entity data: attributes, ancestors, tags *)
  Variable empty_entity : U -> D.
  Variable residual : Type.
  Variable classify : residual -> rclass.
  Variable lits : residual -> list U.

  Definition pstore := list (U * D).
  Variable reinterp : pstore -> residual -> residual.

  Definition loader := list U -> list (U * option D).

  Definition mem (u : U) (l : list U) : bool := existsb (U_eqb u) l.
  Definition loaded (st : pstore) (u : U) : bool := mem u (map fst st).

  Fixpoint dedup (l : list U) : list U :=
    match l with
    | [] => []
    | u :: l' => if mem u l' then dedup l' else u :: dedup l'
    end.

  Definition rpol := (effect * residual)%type.

  (* `ids` filtered "for already loaded entities", collected into a HashSet *)
  Definition to_load (st : pstore) (rs : list rpol) : list U :=
    dedup (filter (fun u => negb (loaded st u)) (flat_map (fun er => lits (snd er)) rs)).

  (* for (id, e_option) in loaded_entities { if contains_entity(id) { continue } add_entities /
     add_entity_trusted }: an id that is already in the store is skipped (since /repo 6dde98e; before
     that fix the call failed with EntitiesError::Duplicate); a missing entity is added as the
     empty entity *)
  Fixpoint add_all (st : pstore) (ans : list (U * option D)) : pstore :=
    match ans with
    | [] => st
    | (u, e) :: tl =>
        if loaded st u then add_all st tl
        else add_all ((u, match e with Some d => d | None => empty_entity u end) :: st) tl
    end.

  Definition is_partial (r : residual) : bool := rclass_eqb (classify r) RPartial.
  Definition no_partial (rs : list rpol) : bool := forallb (fun er => negb (is_partial (snd er))) rs.

  (* the for-loop; also returns the requested id sets, oldest first (observable through the loader) *)
  Fixpoint loop (l : loader) (fuel : nat) (st : pstore) (rs : list rpol) (calls : list (list U))
    : pstore * list rpol * list (list U) :=
    match fuel with
    | O => (st, rs, calls)
    | S f =>
        let ids := to_load st rs in
        let st' := add_all st (l ids) in
        let rs' := map (fun er => (fst er, reinterp st' (snd er))) rs in
        if no_partial rs' then (st', rs', calls ++ [ids])
        else loop l f st' rs' (calls ++ [ids])
    end.

  Definition has (eff_p : effect -> bool) (c : rclass) (rs : list rpol) : bool :=
    existsb (fun er => eff_p (fst er) && rclass_eqb (classify (snd er)) c) rs.

  (* tpe::response::Response::new *)
  Definition decide (rs : list rpol) : option decision :=
    match has eff_is_forbid RTrue rs, has eff_is_permit RTrue rs,
          has eff_is_permit RPartial rs, has eff_is_forbid RPartial rs with
    | true, _, _, _ => Some Deny
    | _, false, false, _ => Some Deny
    | false, _, _, true => None
    | false, false, true, false => None
    | false, true, _, false => Some Allow
    end.

  (* the typed policy bodies (policy_residual_map) *)
  Variable rs0 : list rpol.
  Definition init : list rpol := map (fun er => (fst er, reinterp [] (snd er))) rs0.

  Definition batched_full (l : loader) (n : nat) : boutcome * list (list U) :=
    match loop l n [] init [] with
    | (_, rs, calls) => (match decide rs with Some d => BOk d | None => BInsufficient end, calls)
    end.
  Definition batched (l : loader) (n : nat) : boutcome := fst (batched_full l n).

  (* TestEntityLoader: exactly the requested ids, None for ids the store does not have *)
  Fixpoint lookup (es : list (U * D)) (u : U) : option D :=
    match es with
    | [] => None
    | (v, d) :: tl => if U_eqb u v then Some d else lookup tl u
    end.
  Definition loader_of (es : list (U * D)) : loader := fun ids => map (fun u => (u, lookup es u)) ids.
  (* a stateless loader that returns the requested ids AND the whole store, every time *)
  Definition loader_all (es : list (U * D)) : loader :=
    fun ids => loader_of es ids ++ map (fun ud => (fst ud, Some (snd ud))) es.
End Batched.

(* ------------------------------------------------------------------ concrete instance 1:
   guarded pointer chains.  An entity has an optional `flag` (absent only for the empty entity that
   stands for a missing one) and an optional `next` reference; the residual CChain u k is
       u has next && u.next has next && ... && u.next^k.flag          (k hops)
   as the partial evaluator sees it: an unloaded entity on the way keeps it Partial (asking for that
   entity), a missing `next` makes it false, a missing `flag` at the end is an evaluation error.
   Each hop needs the previous entity to be loaded: one more iteration per hop. *)
Definition cdata := (option bool * option Z)%type.
Inductive dclass := DTrue | DFalse | DError.
Definition d_rc (c : dclass) : rclass := match c with DTrue => RTrue | DFalse => RFalse | DError => RError end.
Inductive cres := CDone (c : dclass) | CChain (u : Z) (k : nat).
Definition c_classify (r : cres) : rclass := match r with CDone c => d_rc c | CChain _ _ => RPartial end.
Definition c_lits (r : cres) : list Z := match r with CDone _ => [] | CChain u _ => [u] end.
Fixpoint c_follow (st : list (Z * cdata)) (u : Z) (k : nat) : cres :=
  match lookup Z Z.eqb cdata st u with
  | None => CChain u k
  | Some (flag, next) =>
      match k with
      | O => match flag with
             | Some true => CDone DTrue
             | Some false => CDone DFalse
             | None => CDone DError          (* u.flag on the empty entity: evaluation error *)
             end
      | S k' => match next with
                | None => CDone DFalse       (* `u has next` is false *)
                | Some v => c_follow st v k'
                end
      end
  end.
Definition c_reinterp (st : list (Z * cdata)) (r : cres) : cres :=
  match r with CDone c => CDone c | CChain u k => c_follow st u k end.
Definition c_empty (_ : Z) : cdata := (None, None).
Definition c_batched_full (rs0 : list (effect * cres)) (l : loader Z cdata) (n : nat) : boutcome * list (list Z) :=
  batched_full Z Z.eqb cdata c_empty cres c_classify c_lits c_reinterp rs0 l n.
Definition c_batched (rs0 : list (effect * cres)) (es : list (Z * cdata)) (n : nat) : boutcome :=
  fst (c_batched_full rs0 (loader_of Z Z.eqb cdata es) n).

(* ------------------------------------------------------------------ concrete instance 2:
   fact tables (correspondence driver).  The evaluator is a table from the set of loaded ids to
   the (class, literal uids) of each residual slot; the loader is a table from the requested set
   to the answer.  Both tables are filled with what the implementation was observed to do, the
   loop / duplicate check / stop rule / decision table are the model's. *)
Definition tres := (nat * rclass * list Z)%type.         (* slot, class, lits *)
Definition t_classify (r : tres) : rclass := snd (fst r).
Definition t_lits (r : tres) : list Z := snd r.
Definition zmem (u : Z) (l : list Z) : bool := existsb (Z.eqb u) l.
Definition zset_eqb (a b : list Z) : bool :=
  forallb (fun u => zmem u b) a && forallb (fun u => zmem u a) b.
Definition ttable := list (list Z * list (rclass * list Z)).
Fixpoint t_find (t : ttable) (s : list Z) : option (list (rclass * list Z)) :=
  match t with
  | [] => None
  | (k, row) :: tl => if zset_eqb k s then Some row else t_find tl s
  end.
(* a loaded set without a fact: the slot stays partial and asks for the impossible id -1 *)
Definition t_reinterp (t : ttable) (st : list (Z * unit)) (r : tres) : tres :=
  let slot := fst (fst r) in
  match t_classify r with
  | RPartial =>
      match t_find t (map fst st) with
      | Some row => match nth_error row slot with
                    | Some (c, ls) => (slot, c, ls)
                    | None => (slot, RPartial, [(-1)%Z])
                    end
      | None => (slot, RPartial, [(-1)%Z])
      end
  | _ => r                                   (* Concrete / Error residuals are returned as they are *)
  end.
Definition ltable := list (list Z * list (Z * bool)).
Fixpoint l_find (t : ltable) (s : list Z) : option (list (Z * bool)) :=
  match t with
  | [] => None
  | (k, a) :: tl => if zset_eqb k s then Some a else l_find tl s
  end.
Definition t_loader (t : ltable) : loader Z unit :=
  fun ids => match l_find t ids with
             | Some a => map (fun ub : Z * bool => (fst ub, if snd ub then Some tt else @None unit)) a
             | None => map (fun u : Z => (u, @None unit)) ids
             end.
Definition t_batched (effs : list effect) (t : ttable) (lt : ltable) (n : nat) : boutcome * list (list Z) :=
  let rs0 := map (fun ie : nat * effect => (snd ie, ((fst ie, RPartial, @nil Z) : tres))) (combine (seq 0 (length effs)) effs) in
  batched_full Z Z.eqb unit (fun _ => tt) tres t_classify t_lits (t_reinterp t) rs0 (t_loader lt) n.

(* ------------------------------------------------------------------ run commands *)
Open Scope string_scope.
Definition d_rclass (s : sexp) : option rclass :=
  match s with
  | SY y => if sym_eqb y "true" then Some RTrue else if sym_eqb y "false" then Some RFalse
            else if sym_eqb y "error" then Some RError else if sym_eqb y "partial" then Some RPartial else None
  | _ => None
  end.
Definition d_beffect (s : sexp) : option effect :=
  match s with
  | SY y => if sym_eqb y "permit" then Some Permit else if sym_eqb y "forbid" then Some Forbid else None
  | _ => None
  end.
Definition d_pair {A B} (f : sexp -> option A) (g : sexp -> option B) (s : sexp) : option (A * B) :=
  match s with
  | SL [a; b] => match f a, g b with Some x, Some y => Some (x, y) | _, _ => None end
  | _ => None
  end.
Definition e_boutcome (o : boutcome) : sexp :=
  match o with
  | BOk Allow => SL [SY "ok"; SY "allow"]
  | BOk Deny => SL [SY "ok"; SY "deny"]
  | BInsufficient => SY "insufficient"
  end.

(* (batched_trace budget (effect ...) ((loaded-set ((class (lits)) ...)) ...) ((requested-set ((id exists) ...)) ...)) *)
Definition run_batched_trace (args : list sexp) : sexp :=
  match args with
  | [b; effs; t; lt] =>
      match d_nat b, d_list d_beffect effs,
            d_list (d_pair (d_list d_int) (d_list (d_pair d_rclass (d_list d_int)))) t,
            d_list (d_pair (d_list d_int) (d_list (d_pair d_int d_bool))) lt with
      | Some b, Some effs, Some t, Some lt =>
          let r := t_batched effs t lt b in
          SL [e_boutcome (fst r); e_list (e_list SI) (snd r)]
      | _, _, _, _ => bad_input
      end
  | _ => bad_input
  end.

(* (batched_chain budget exact|all ((effect (chain u k) | (done class)) ...) ((u flag|none next|none) ...))
   -> (outcome ((requested ids) ...)) *)
Definition d_cres (s : sexp) : option cres :=
  match s with
  | SL [SY y; SI u; SI k] => if sym_eqb y "chain" then Some (CChain u (Z.to_nat k)) else None
  | SL [SY y; a] => if sym_eqb y "done" then
                      match d_rclass a with
                      | Some RTrue => Some (CDone DTrue) | Some RFalse => Some (CDone DFalse)
                      | Some RError => Some (CDone DError) | _ => None
                      end
                    else None
  | _ => None
  end.
Definition d_optbool (s : sexp) : option (option bool) :=
  match s with
  | SY y => if sym_eqb y "none" then Some None else option_map Some (d_bool s)
  | _ => None
  end.
Definition d_optint (s : sexp) : option (option Z) :=
  match s with
  | SI z => Some (Some z)
  | SY y => if sym_eqb y "none" then Some None else None
  | _ => None
  end.
Definition d_cent (s : sexp) : option (Z * cdata) :=
  match s with
  | SL [SI u; f; nx] => match d_optbool f, d_optint nx with
                        | Some f, Some nx => Some (u, (f, nx))
                        | _, _ => None
                        end
  | _ => None
  end.
Definition run_batched_chain (args : list sexp) : sexp :=
  match args with
  | [b; SY variant; rs; es] =>
      match d_nat b, d_list (d_pair d_beffect d_cres) rs, d_list d_cent es with
      | Some b, Some rs, Some es =>
          let l := if sym_eqb variant "all" then loader_all Z Z.eqb cdata es else loader_of Z Z.eqb cdata es in
          let r := c_batched_full rs l b in
          SL [e_boutcome (fst r); e_list (e_list SI) (snd r)]
      | _, _, _ => bad_input
      end
  | _ => bad_input
  end.

Definition run_batched (cmd : string) (args : list sexp) : option sexp :=
  if sym_eqb cmd "batched_trace" then Some (run_batched_trace args)
  else if sym_eqb cmd "batched_chain" then Some (run_batched_chain args)
  else None.
