(* Authz.v — the authorizer.  Mirrors authorizer.rs (is_authorized_core_internal) and
   authorizer/partial_response.rs (PartialResponse::{decision, must_be_determining, errors},
   From<PartialResponse> for Response), restricted to the concrete case (no residuals;
   residual buckets are added by PE.v). *)
From Cedar Require Export Eval.

Inductive decision := Allow | Deny.

(* The outcome of evaluating one policy, as the authorizer sees it. *)
Inductive outcome := OSat | OUnsat | OErr (e : err).

Definition outcome_of (r : res bool) : outcome :=
  match r with Ok true => OSat | Ok false => OUnsat | Err e => OErr e end.

(* The four concrete buckets + error list, in the order the loop fills them. *)
Record buckets := mkBuckets {
  true_permits : list str;
  true_forbids : list str;
  false_permits : list (str * bool);     (* bool: ErrorState::Error *)
  false_forbids : list (str * bool);
  errors : list (str * err)
}.

Definition empty_buckets : buckets := mkBuckets [] [] [] [] [].

Definition classify (b : buckets) (id : str) (eff : effect) (o : outcome) : buckets :=
  match o, eff with
  | OSat, Permit => mkBuckets (true_permits b ++ [id]) (true_forbids b) (false_permits b) (false_forbids b) (errors b)
  | OSat, Forbid => mkBuckets (true_permits b) (true_forbids b ++ [id]) (false_permits b) (false_forbids b) (errors b)
  | OUnsat, Permit => mkBuckets (true_permits b) (true_forbids b) (false_permits b ++ [(id, false)]) (false_forbids b) (errors b)
  | OUnsat, Forbid => mkBuckets (true_permits b) (true_forbids b) (false_permits b) (false_forbids b ++ [(id, false)]) (errors b)
  (* ErrorHandling::Skip: an erroring policy is recorded as not satisfied *)
  | OErr e, Permit => mkBuckets (true_permits b) (true_forbids b) (false_permits b ++ [(id, true)]) (false_forbids b) (errors b ++ [(id, e)])
  | OErr e, Forbid => mkBuckets (true_permits b) (true_forbids b) (false_permits b) (false_forbids b ++ [(id, true)]) (errors b ++ [(id, e)])
  end.

Record response := mkResponse {
  rdecision : decision;
  rreasons : list str;           (* Diagnostics.reason: determining policy ids *)
  rerrors : list (str * err)     (* Diagnostics.errors *)
}.

(* From<PartialResponse> for Response, concrete case *)
Definition concretize (b : buckets) : response :=
  mkResponse
    (match true_permits b, true_forbids b with
     | _ :: _, [] => Allow
     | _, _ => Deny
     end)
    (match true_forbids b with
     | [] => true_permits b
     | _ => true_forbids b
     end)
    (errors b).

Section Authz.
  (* The evaluator is a parameter here so that the authorizer theorems (C01) do not depend on
     the evaluator theorems (C02). *)
  Variable evalp : policy -> res bool.

  Definition auth_core (ps : list policy) : buckets :=
    fold_left (fun b p => classify b (pid p) (peffect p) (outcome_of (evalp p))) ps empty_buckets.

  Definition authorize_with (ps : list policy) : response := concretize (auth_core ps).
End Authz.

Definition is_authorized (ps : list policy) (q : request) (es : entities) : response :=
  authorize_with (eval_policy q es) ps.
