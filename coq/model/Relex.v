(* Relex.v — C05: the STRINGLIT token regex of grammar.lalrpop: a double quote, then any number of
   (backslash followed by any character but newline | any character but double quote and backslash),
   then a double quote — as a recogniser for the text between the quotes.  Used to state that what the
   printer puts between quotes lexes back as ONE string token. *)
From Cedar Require Export Unescape.
Open Scope N_scope.

Fixpoint stringlit_inside (s : str) : bool :=
  match s with
  | [] => true
  | c :: s' =>
      if c =? 92 then
        match s' with
        | d :: s'' => negb (d =? 10) && stringlit_inside s''
        | [] => false
        end
      else if c =? 34 then false
      else stringlit_inside s'
  end.
