(* TPE.v — type-aware partial evaluation.  Mirrors
     cedar-policy-core/src/tpe/residual.rs   (Residual, try_from_typed_expr, can_error_assuming_well_formed,
                                              is_true/is_false/is_error, From<Residual> for Expr)
     cedar-policy-core/src/tpe/evaluator.rs  (Evaluator::interpret, arm by arm)
     cedar-policy-core/src/tpe/entities.rs   (PartialEntities::{get_attrs, get_ancestors, get_tags},
                                              PartialEntity::check_consistency, PartialEntities::check_consistency)
     cedar-policy-core/src/tpe/request.rs    (PartialRequest::check_consistency)
     cedar-policy-core/src/tpe/response.rs   (Response::new decision table, policies, policy_set,
                                              get_residual_policy, reauthorize)
     cedar-policy/src/api/tpe.rs             (query_resource / query_principal / query_action)
   The type annotation carried by every Rust residual node is never read by `interpret` (it is only copied),
   so the model's residual nodes do not carry it: `of_texpr` (try_from_typed_expr) forgets it.
   `normalize_ext_value` is the identity on the model's canonical extension values.
   `From<Residual> for Expr` followed by the concrete evaluator is the composite `reval`: a concrete value is the
   literal expression that evaluates to itself, `Residual::Error` is a call of the reserved extension function
   `error`, which the evaluator answers with FailedExtensionFunctionLookup (ErrUnknownFn). *)
From Coq Require Import String.
From Cedar Require Export TExpr Authz ExtParse.
Open Scope string_scope.

Inductive residual :=
| RVal (v : value)                                  (* Residual::Concrete *)
| RErr                                              (* Residual::Error *)
| RVar (v : var)                                    (* Residual::Partial { kind: ... } from here on *)
| RIf (c a b : residual)
| RAnd (a b : residual)
| ROr (a b : residual)
| RUn (op : unop) (a : residual)
| RBin (op : binop) (a b : residual)
| RExt (fn : name) (args : list residual)
| RGetAttr (e : residual) (a : str)
| RHasAttr (e : residual) (a : str)
| RLike (e : residual) (p : pattern)
| RIs (e : residual) (t : etype)
| RSet (items : list residual)
| RRecord (items : list (str * residual)).

(* Residual::try_from_typed_expr (None: slot without binding / unknown) *)
Fixpoint of_texpr (sl : slotenv) (e : texpr) : option residual :=
  let ol := fix ol (l : list texpr) : option (list residual) :=
              match l with
              | [] => Some []
              | x :: l' => match of_texpr sl x, ol l' with Some r, Some rs => Some (r :: rs) | _, _ => None end
              end in
  match e with
  | TELit p _ => Some (RVal (VPrim p))
  | TEVar v _ => Some (RVar v)
  | TESlot s _ => match slot_lookup s sl with Some u => Some (RVal (VEntity u)) | None => None end
  | TEUnknown _ _ _ => None
  | TEIf c a b _ => match of_texpr sl c, of_texpr sl a, of_texpr sl b with
                    | Some c, Some a, Some b => Some (RIf c a b) | _, _, _ => None end
  | TEAnd a b _ => match of_texpr sl a, of_texpr sl b with Some a, Some b => Some (RAnd a b) | _, _ => None end
  | TEOr a b _ => match of_texpr sl a, of_texpr sl b with Some a, Some b => Some (ROr a b) | _, _ => None end
  | TEUnApp op a _ => option_map (RUn op) (of_texpr sl a)
  | TEBinApp op a b _ => match of_texpr sl a, of_texpr sl b with Some a, Some b => Some (RBin op a b) | _, _ => None end
  | TEExtCall fn args _ => option_map (RExt fn) (ol args)
  | TEGetAttr e a _ => option_map (fun r => RGetAttr r a) (of_texpr sl e)
  | TEHasAttr e a _ => option_map (fun r => RHasAttr r a) (of_texpr sl e)
  | TELike e p _ => option_map (fun r => RLike r p) (of_texpr sl e)
  | TEIs e t _ => option_map (fun r => RIs r t) (of_texpr sl e)
  | TESet items _ => option_map RSet (ol items)
  | TERecord items _ =>
      option_map RRecord
        ((fix orr (l : list (str * texpr)) : option (list (str * residual)) :=
            match l with
            | [] => Some []
            | (k, x) :: l' => match of_texpr sl x, orr l' with Some r, Some rs => Some ((k, r) :: rs) | _, _ => None end
            end) items)
  end.

Definition is_val (r : residual) : bool := match r with RVal _ => true | _ => false end.
Definition is_err (r : residual) : bool := match r with RErr => true | _ => false end.

(* Residual::can_error_assuming_well_formed *)
Fixpoint can_error (r : residual) : bool :=
  match r with
  | RVal _ => false
  | RErr => true
  | RVar _ => false
  | RAnd a b | ROr a b => can_error a || can_error b
  | RIf c a b => can_error c || can_error a || can_error b
  | RIs e _ | RLike e _ | RHasAttr e _ => can_error e
  | RBin op a b =>
      match op with
      | BAdd | BMul | BSub | BGetTag => true
      | _ => can_error a || can_error b
      end
  | RExt _ _ => true
  | RGetAttr _ _ => true
  | RUn op a => match op with UNeg => true | _ => can_error a end
  | RSet items => existsb can_error items
  | RRecord items => existsb (fun kv => can_error (snd kv)) items
  end.

(* ---- partial inputs ---- *)
Record prequest := mkPRequest {
  pq_pty : etype; pq_pid : option str;
  pq_action : uid;
  pq_rty : etype; pq_rid : option str;
  pq_ctx : option (list (str * value))
}.

Record pentity := mkPEntity {
  pe_attrs : option (list (str * value));
  pe_anc : option (list uid);
  pe_tags : option (list (str * value))
}.
Definition pentities := list (uid * pentity).

Fixpoint find_pentity (u : uid) (pes : pentities) : option pentity :=
  match pes with
  | [] => None
  | (u', d) :: pes' => if uid_eqb u u' then Some d else find_pentity u pes'
  end.
(* a missing entity and an unknown component are treated alike *)
Definition get_attrs (pes : pentities) (u : uid) := match find_pentity u pes with Some d => pe_attrs d | None => None end.
Definition get_ancestors (pes : pentities) (u : uid) := match find_pentity u pes with Some d => pe_anc d | None => None end.
Definition get_tags (pes : pentities) (u : uid) := match find_pentity u pes with Some d => pe_tags d | None => None end.

Definition val_of (r : residual) : option value := match r with RVal v => Some v | _ => None end.
Fixpoint vals_of (l : list residual) : option (list value) :=
  match l with
  | [] => Some []
  | r :: l' => match val_of r, vals_of l' with Some v, Some vs => Some (v :: vs) | _, _ => None end
  end.
Fixpoint kvals_of (l : list (str * residual)) : option (list (str * value)) :=
  match l with
  | [] => Some []
  | (k, r) :: l' => match val_of r, kvals_of l' with Some v, Some vs => Some ((k, v) :: vs) | _, _ => None end
  end.

(* the three variants of a Rust residual *)
Inductive rshape := SVal (v : value) | SErr | SPartial.
Definition shape (r : residual) : rshape := match r with RVal v => SVal v | RErr => SErr | _ => SPartial end.

(* `<left-residual> && <right>` / `<left-residual> || <right>` once the left operand stayed partial *)
Definition and_right (l r' : residual) : residual :=
  match shape r' with
  | SVal v => match as_bool v with
              | Ok true => l
              | Ok false => if negb (can_error l) then RVal (VBool false) else RAnd l (RVal (VBool false))
              | Err _ => RAnd l RErr
              end
  | _ => RAnd l r'
  end.
Definition or_right (l r' : residual) : residual :=
  match shape r' with
  | SVal v => match as_bool v with
              | Ok false => l
              | Ok true => if negb (can_error l) then RVal (VBool true) else ROr l (RVal (VBool true))
              | Err _ => ROr l RErr
              end
  | _ => ROr l r'
  end.

Definition of_res (r : res value) : residual := match r with Ok v => RVal v | Err _ => RErr end.

(* The extension library is a parameter: the theorems hold for any library; the run command instantiates it with
   the full function table of ExtParse.v (C07), the link to Eval.eval instantiates it with Ext.call_ext. *)
Section WithExt.
Variable cx : name -> list value -> res value.

Section Interp.
  Variable pq : prequest.
  Variable pes : pentities.

  (* the BinaryApp arm when both operands are concrete *)
  Definition interp_bin (op : binop) (v1 v2 : value) : residual :=
    let stay := RBin op (RVal v1) (RVal v2) in
    match op with
    | BEq => RVal (VBool (value_eqb v1 v2))
    | BLess => of_res (binary_relation true v1 v2)
    | BLessEq => of_res (binary_relation false v1 v2)
    | BAdd | BSub | BMul => of_res (binary_arith op v1 v2)
    | BIn =>
        match as_entity v1 with
        | Err _ => RErr
        | Ok u1 =>
            match v2 with
            | VPrim (PEntity u2) =>
                if uid_eqb u1 u2 then RVal (VBool true)
                else match get_ancestors pes u1 with
                     | Some anc => RVal (VBool (existsb (uid_eqb u2) anc))
                     | None => stay
                     end
            | VSet l =>
                match mapM as_entity l with
                | Err _ => RErr
                | Ok us =>
                    let anc := get_ancestors pes u1 in
                    if existsb (uid_eqb u1) us
                       || match anc with Some a => existsb (fun u2 => existsb (uid_eqb u2) a) us | None => false end
                    then RVal (VBool true)
                    else if negb (match us with [] => true | _ => false end)
                            && match anc with None => true | Some _ => false end
                    then stay
                    else RVal (VBool false)
                end
            | _ => RErr
            end
        end
    | BGetTag =>
        match as_entity v1, as_string v2 with
        | Ok u, Ok t => match get_tags pes u with
                        | Some tags => match lookup t tags with Some v => RVal v | None => RErr end
                        | None => stay
                        end
        | _, _ => RErr
        end
    | BHasTag =>
        match as_entity v1, as_string v2 with
        | Ok u, Ok t => match get_tags pes u with
                        | Some tags => RVal (VBool (has_key t tags))
                        | None => stay
                        end
        | _, _ => RErr
        end
    | BContains | BContainsAll | BContainsAny => of_res (binary_app [] op v1 v2)
    end.

  (* tpe::Evaluator::interpret.  Every arm first matches on the three variants of the interpreted operand
     (Residual::Concrete / Error / Partial): `shape`. *)
  Fixpoint interp (r : residual) : residual :=
    match r with
    | RVal _ => r
    | RErr => r
    | RVar Action => RVal (VEntity (pq_action pq))
    | RVar Principal => match pq_pid pq with Some i => RVal (VEntity (mkUid (pq_pty pq) i)) | None => RVar Principal end
    | RVar Resource => match pq_rid pq with Some i => RVal (VEntity (mkUid (pq_rty pq) i)) | None => RVar Resource end
    | RVar Context => match pq_ctx pq with Some c => RVal (VRecord c) | None => RVar Context end
    | RAnd a b =>
        let l := interp a in
        match shape l with
        | SVal v => match as_bool v with
                    | Ok false => RVal (VBool false)
                    | Ok true => interp b
                    | Err _ => RErr
                    end
        | SErr => RErr
        | SPartial => and_right l (interp b)
        end
    | ROr a b =>
        let l := interp a in
        match shape l with
        | SVal v => match as_bool v with
                    | Ok true => RVal (VBool true)
                    | Ok false => interp b
                    | Err _ => RErr
                    end
        | SErr => RErr
        | SPartial => or_right l (interp b)
        end
    | RIf c a b =>
        let c' := interp c in
        match shape c' with
        | SVal v => match as_bool v with
                    | Ok true => interp a
                    | Ok false => interp b
                    | Err _ => RErr
                    end
        | SErr => RErr
        | SPartial => RIf c' (interp a) (interp b)
        end
    | RIs e t =>
        let e' := interp e in
        match shape e' with
        | SVal v => match as_entity v with Ok u => RVal (VBool (name_eqb (uty u) t)) | Err _ => RErr end
        | SErr => RErr
        | SPartial =>
            match e' with
            | RVar Principal => RVal (VBool (name_eqb t (pq_pty pq)))
            | RVar Resource => RVal (VBool (name_eqb t (pq_rty pq)))
            | _ => RIs e' t
            end
        end
    | RLike e p =>
        let e' := interp e in
        match shape e' with
        | SVal v => match as_string v with Ok s => RVal (VBool (wildcard p s)) | Err _ => RErr end
        | SErr => RErr
        | SPartial => RLike e' p
        end
    | RBin op a b =>
        let a' := interp a in
        let b' := interp b in
        match shape a', shape b' with
        | SVal v1, SVal v2 => interp_bin op v1 v2
        | SErr, _ => RErr
        | _, SErr => RErr
        | _, _ => RBin op a' b'
        end
    | RGetAttr e a =>
        let e' := interp e in
        match shape e' with
        | SVal (VRecord r) => match lookup a r with Some x => RVal x | None => RErr end
        | SVal (VPrim (PEntity u)) =>
            match get_attrs pes u with
            | Some attrs => match lookup a attrs with Some x => RVal x | None => RErr end
            | None => RGetAttr e' a
            end
        | SVal _ => RErr
        | SErr => RErr
        | SPartial => RGetAttr e' a
        end
    | RHasAttr e a =>
        let e' := interp e in
        match shape e' with
        | SVal (VRecord r) => RVal (VBool (has_key a r))
        | SVal (VPrim (PEntity u)) =>
            match get_attrs pes u with
            | Some attrs => RVal (VBool (has_key a attrs))
            | None => RHasAttr e' a
            end
        | SVal _ => RErr
        | SErr => RErr
        | SPartial => RHasAttr e' a
        end
    | RUn op a =>
        let a' := interp a in
        match shape a' with
        | SVal v => of_res (unary_app op v)
        | SErr => RErr
        | SPartial => RUn op a'
        end
    | RExt fn args =>
        let args' := map interp args in
        match vals_of args' with
        | Some vs => of_res (cx fn vs)
        | None => if existsb is_err args' then RErr else RExt fn args'
        end
    | RSet items =>
        let items' := map interp items in
        match vals_of items' with
        | Some vs => RVal (VSet vs)
        | None => if existsb is_err items' then RErr else RSet items'
        end
    | RRecord items =>
        let items' := map (fun kv => (fst kv, interp (snd kv))) items in
        match kvals_of items' with
        | Some kvs => RVal (VRecord kvs)
        | None => if existsb (fun kv => is_err (snd kv)) items' then RErr else RRecord items'
        end
    end.
End Interp.

(* ---- evaluating a residual on a concrete request and store (From<Residual> for Expr ; Evaluator) ---- *)
Definition error_fn : name := [[101;114;114;111;114]%N].   (* "error" *)

Section REval.
  Variable q : request.
  Variable es : entities.

  Fixpoint reval (r : residual) : res value :=
    match r with
    | RVal v => Ok v
    | RErr => Err ErrUnknownFn
    | RVar v => Ok (eval_var q v)
    | RIf c t f => do vc <- reval c; do b <- as_bool vc; if b then reval t else reval f
    | RAnd a b =>
        do va <- reval a; do x <- as_bool va;
        if x then (do vb <- reval b; do y <- as_bool vb; Ok (VBool y)) else Ok (VBool false)
    | ROr a b =>
        do va <- reval a; do x <- as_bool va;
        if x then Ok (VBool true) else (do vb <- reval b; do y <- as_bool vb; Ok (VBool y))
    | RUn op a => do v <- reval a; unary_app op v
    | RBin op a b => do va <- reval a; do vb <- reval b; binary_app es op va vb
    | RExt fn args =>
        do vs <- (fix go (l : list residual) : res (list value) :=
                    match l with
                    | [] => Ok []
                    | x :: l' => do v <- reval x; do vs <- go l'; Ok (v :: vs)
                    end) args;
        cx fn vs
    | RGetAttr e a => do v <- reval e; get_attr es v a
    | RHasAttr e a => do v <- reval e; has_attr es v a
    | RLike e p => do v <- reval e; do s <- as_string v; Ok (VBool (wildcard p s))
    | RIs e t => do v <- reval e; do u <- as_entity v; Ok (VBool (name_eqb (uty u) t))
    | RSet items =>
        do vs <- (fix go (l : list residual) : res (list value) :=
                    match l with
                    | [] => Ok []
                    | x :: l' => do v <- reval x; do vs <- go l'; Ok (v :: vs)
                    end) items;
        Ok (VSet vs)
    | RRecord items =>
        do kvs <- (fix go (l : list (str * residual)) : res (list (str * value)) :=
                     match l with
                     | [] => Ok []
                     | (k, x) :: l' => do v <- reval x; do kvs <- go l'; Ok ((k, v) :: kvs)
                     end) items;
        Ok (VRecord kvs)
    end.

  (* Evaluator::evaluate of the residual policy `when { residual }` *)
  Definition reval_policy (r : residual) : res bool := do v <- reval r; as_bool v.
End REval.

(* ---- response ---- *)
Record rpolicy := mkRPolicy { rp_id : str; rp_effect : effect; rp_res : residual }.

Inductive rbucket := KTrue | KFalse | KError | KResidual.
(* Residual::{is_true, is_false, is_error}; anything else (a concrete non-boolean included) is "residual" *)
Definition bucket_of (r : residual) : rbucket :=
  match r with
  | RVal (VPrim (PBool true)) => KTrue
  | RVal (VPrim (PBool false)) => KFalse
  | RErr => KError
  | _ => KResidual
  end.
Definition rbucket_eqb (a b : rbucket) : bool :=
  match a, b with KTrue, KTrue | KFalse, KFalse | KError, KError | KResidual, KResidual => true | _, _ => false end.
Definition effect_eqb (a b : effect) : bool :=
  match a, b with Permit, Permit | Forbid, Forbid => true | _, _ => false end.

Definition has_bucket (eff : effect) (b : rbucket) (rs : list rpolicy) : bool :=
  existsb (fun p => effect_eqb (rp_effect p) eff && rbucket_eqb (bucket_of (rp_res p)) b) rs.

(* the decision table of Response::new *)
Definition tpe_decision (rs : list rpolicy) : option decision :=
  match has_bucket Forbid KTrue rs, has_bucket Permit KTrue rs, has_bucket Permit KResidual rs,
        has_bucket Forbid KResidual rs with
  | true, _, _, _ => Some Deny
  | _, false, false, _ => Some Deny
  | false, _, _, true => None
  | false, false, true, false => None
  | false, true, _, false => Some Allow
  end.

Definition ids_of (eff : effect) (b : rbucket) (rs : list rpolicy) : list str :=
  map rp_id (filter (fun p => effect_eqb (rp_effect p) eff && rbucket_eqb (bucket_of (rp_res p)) b) rs).

(* Response::reason *)
Definition tpe_reason (rs : list rpolicy) : option (list str) :=
  match tpe_decision rs with
  | Some Allow => Some (ids_of Permit KTrue rs)
  | Some Deny => Some (ids_of Forbid KTrue rs)
  | None => None
  end.

(* the response keeps `residuals : HashMap<PolicyID, ResidualPolicy>`: an association list, last insert wins *)
Fixpoint rmap_insert (p : rpolicy) (m : list rpolicy) : list rpolicy :=
  match m with
  | [] => [p]
  | p' :: m' => if str_eqb (rp_id p) (rp_id p') then p :: m' else p' :: rmap_insert p m'
  end.
Definition response_map (rs : list rpolicy) : list rpolicy := fold_left (fun m p => rmap_insert p m) rs [].

(* the four views, as id -> residual association lists / lookups *)
Definition view_policies (m : list rpolicy) : list (str * residual) := map (fun p => (rp_id p, rp_res p)) m.
(* Response::policy_set: PolicySet::add of Policy::from(residual policy), for every entry of the map *)
Definition view_policy_set (m : list rpolicy) : list (str * residual) :=
  fold_left (fun ps p => (ps ++ [(rp_id p, rp_res p)])%list) m [].
Definition view_get (m : list rpolicy) (i : str) : option residual :=
  option_map rp_res (find (fun p => str_eqb i (rp_id p)) m).
(* reauthorize evaluates self.policy_set() *)
Definition view_reauth (m : list rpolicy) : list (str * residual) := view_policy_set m.

(* authorizing the residual policies on a concrete request: the authorizer of Authz.v over residual policies *)
Definition rclassify (q : request) (es : entities) (b : buckets) (p : rpolicy) : buckets :=
  classify b (rp_id p) (rp_effect p) (outcome_of (reval_policy q es (rp_res p))).
Definition reauthorize (rs : list rpolicy) (q : request) (es : entities) : response :=
  concretize (fold_left (rclassify q es) rs empty_buckets).

(* ---- consistency (PartialRequest::check_consistency, PartialEntities::check_consistency) ---- *)
Definition opt_agrees {A} (eqb : A -> A -> bool) (o : option A) (x : A) : bool :=
  match o with None => true | Some y => eqb y x end.
Fixpoint kvs_eqb (a b : list (str * value)) : bool :=
  match a, b with
  | [], [] => true
  | (k, v) :: a', (k', v') :: b' => str_eqb k k' && value_eqb v v' && kvs_eqb a' b'
  | _, _ => false
  end.
Definition uids_seteq (a b : list uid) : bool :=
  forallb (fun x => existsb (uid_eqb x) b) a && forallb (fun x => existsb (uid_eqb x) a) b.

Definition request_consistent (pq : prequest) (q : request) : bool :=
  name_eqb (uty (rprincipal q)) (pq_pty pq) && opt_agrees str_eqb (pq_pid pq) (ueid (rprincipal q))
  && name_eqb (uty (rresource q)) (pq_rty pq) && opt_agrees str_eqb (pq_rid pq) (ueid (rresource q))
  && uid_eqb (raction q) (pq_action pq)
  && opt_agrees kvs_eqb (pq_ctx pq) (rcontext q).

Definition entity_consistent (pe : pentity) (d : edata) : bool :=
  opt_agrees kvs_eqb (pe_attrs pe) (eattrs d)
  && opt_agrees uids_seteq (pe_anc pe) (eancestors d)
  && opt_agrees kvs_eqb (pe_tags pe) (etags d).

Definition entities_consistent (pes : pentities) (es : entities) : bool :=
  forallb (fun ud => match find_entity (fst ud) es with
                     | None => false
                     | Some d => entity_consistent (snd ud) d
                     end) pes.

Definition completes (pq : prequest) (pes : pentities) (q : request) (es : entities) : bool :=
  request_consistent pq q && entities_consistent pes es.

(* ---- the whole pipeline: tpe::is_authorized ---- *)
Record tpolicy := mkTPolicy { tp_id : str; tp_effect : effect; tp_env : slotenv; tp_cond : texpr }.

Definition tpe_policy (pq : prequest) (pes : pentities) (p : tpolicy) : option rpolicy :=
  option_map (fun r => mkRPolicy (tp_id p) (tp_effect p) (interp pq pes r)) (of_texpr (tp_env p) (tp_cond p)).

Definition tpe (pq : prequest) (pes : pentities) (ps : list tpolicy) : option (list rpolicy) :=
  omapM (tpe_policy pq pes) ps.

(* ---- permission queries (api/tpe.rs) ---- *)
Definition set_principal (q : request) (u : uid) : request := mkRequest u (raction q) (rresource q) (rcontext q).
Definition set_resource (q : request) (u : uid) : request := mkRequest (rprincipal q) (raction q) u (rcontext q).
Definition decision_eqb (a b : decision) : bool :=
  match a, b with Allow, Allow | Deny, Deny => true | _, _ => false end.

(* query_resource / query_principal: `fill` puts the candidate in the hole; candidates are the uids of the store
   with the hole's type; the residual policy set is authorized concretely when TPE has no decision *)
Definition query (fill : uid -> request) (hole : etype) (rs : list rpolicy) (es : entities) : list uid :=
  let cands := filter (fun u => name_eqb (uty u) hole) (map fst es) in
  match tpe_decision rs with
  | Some Allow => cands
  | Some Deny => []
  | None => filter (fun u => decision_eqb (rdecision (reauthorize rs (fill u) es)) Allow) cands
  end.

(* query_action: per applicable action the TPE decision; definite denies are dropped *)
Definition query_action (per_action : list (uid * list rpolicy)) : list (uid * option decision) :=
  filter (fun ad => match snd ad with Some Deny => false | _ => true end)
         (map (fun ap => (fst ap, tpe_decision (snd ap))) per_action).

End WithExt.

(* the full extension function table (ExtParse.call_xfn), looked up by unqualified name like Extensions::func *)
Definition call_full (n : name) (args : list value) : res value :=
  match n with [b] => call_xfn b args | _ => Err ErrUnknownFn end.
