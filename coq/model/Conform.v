(* Conform.v — schema conformance of values, entities, contexts and requests (property C11).
   Definitions only.  Part 1: the boolean/error-class checkers transcribed from the Rust code;
   part 2: the model of every entry point that takes a schema; part 3: the declarative
   specification written from the property text.

   Rust                                                            Gallina
   ----------------------------------------------------------------------------------------
   conformance.rs typecheck_restricted_expr_against_schematype     tc_value_st
   conformance.rs typecheck_value_against_schematype               tc_value_st (values only)
   types.rs       Type::typecheck_restricted_expr / _value         tc_value_ty
   conformance.rs is_valid_enumerated_entity, validate_euid        uid_ok
   conformance.rs validate_euids_in_partial_value                  value_uids
   conformance.rs validate_action + Entity::deep_eq                conf_action, deep_eq
   conformance.rs validate_entity_attributes                       conf_attrs
   conformance.rs validate_entity_ancestors                        conf_ancestors
   conformance.rs validate_tags                                    conf_tags
   conformance.rs validate_entity                                  conf_entity
   coreschema.rs  validate_scope_variables                         conf_scope
   coreschema.rs  validate_context                                 conf_context
   coreschema.rs  validate_request                                 conf_request
   json/value.rs  ValueParser::val_into_restricted_expr            jparse (accept/reject only)
   json/entities.rs EntityJsonParser::parse_ejson                  jparse_entity
   entities.rs    from_entities / add_entities / upsert_entities   ep_from_entities / ep_add_entities
   api.rs         Request::new, Context::{from_json_*, validate},  ep_request_new, ep_context_*,
                  Entities::from_json_*, Entity::from_json_*       ep_entities_from_json, ep_entity_from_json

   Values only: `unknown`s (for which the Rust checkers answer "passes") are not modelled.
   Extension values are values, i.e. results of constructor calls whose arguments typecheck. *)
From Coq Require Import String.
From Cedar Require Export Schema.

(* Error classes: EntitySchemaConformanceError / RequestValidationError variants. *)
Inductive cerr :=
| CUnexpectedEntityType | CInvalidEnumEntity | CMissingRequiredAttr | CUnexpectedAttr
| CTypeMismatch | CInvalidAncestorType | CUnexpectedTag | CUndeclaredAction | CActionMismatch
| CUndeclaredPrincipalType | CUndeclaredResourceType | CInvalidPrincipalType | CInvalidResourceType
| CInvalidContext
| CJsonParse      (* rejected by the type-directed JSON parse before any conformance check *)
| CSchemaType.    (* a declared type is not representable as SchemaType: the Rust code panics
                     (`expect`); impossible when schema_ok holds; excluded by the theorems *)

(* Result<(), E>: None = Ok(()) *)
Definition cres := option cerr.
Definition cthen (a b : cres) : cres := match a with None => b | Some e => Some e end.
Fixpoint first_err {A} (f : A -> cres) (l : list A) : cres :=
  match l with
  | [] => None
  | x :: l' => cthen (f x) (first_err f l')
  end.
Definition accepts (r : cres) : bool := match r with None => true | Some _ => false end.

(* ======================================================================================
   Part 1a: values against types *)

(* typecheck_restricted_expr_against_schematype, on the restricted expression of a value:
   extension values are extension-function calls (first `match`: the return type must equal the
   expected type); everything else is matched against the expected type. *)
Fixpoint tc_value_st (v : value) (t : sty) {struct v} : bool :=
  match v with
  | VExt x => match t with SExt n => name_eqb (ext_typename x) n | _ => false end
  | _ =>
      match t with
      | SBool => match v with VPrim (PBool _) => true | _ => false end
      | SLong => match v with VPrim (PLong _) => true | _ => false end
      | SString => match v with VPrim (PString _) => true | _ => false end
      | SEmptySet => match v with VSet [] => true | _ => false end
      | SSet e => match v with VSet l => forallb (fun x => tc_value_st x e) l | _ => false end
      | SRecord attrs open =>
          match v with
          | VRecord kvs =>
              (* all attributes required by the schema are present (and typecheck) *)
              forallb (fun a : str * (sty * bool) =>
                         if snd (snd a) then
                           (fix find (l : list (str * value)) : bool :=
                              match l with
                              | [] => false
                              | (k', v') :: l' =>
                                  if str_eqb (fst a) k' then tc_value_st v' (fst (snd a)) else find l'
                              end) kvs
                         else true) attrs
              &&
              (* all attributes in the record are declared (or the type is open) and typecheck *)
              (fix each (l : list (str * value)) : bool :=
                 match l with
                 | [] => true
                 | (k, v') :: l' =>
                     match lookup k attrs with
                     | Some (ta, _) => tc_value_st v' ta
                     | None => open
                     end && each l'
                 end) kvs
          | _ => false
          end
      | SExt _ => false
      | SEntity n => match v with VPrim (PEntity u) => name_eqb (uty u) n | _ => false end
      end
  end.

(* Type::typecheck_restricted_expr (the checker used for contexts) *)
Fixpoint tc_value_ty (v : value) (t : ty) {struct v} : bool :=
  match t with
  | TNever => false
  | TBool BAny => match v with VPrim (PBool _) => true | _ => false end
  | TBool BTrue => match v with VPrim (PBool true) => true | _ => false end
  | TBool BFalse => match v with VPrim (PBool false) => true | _ => false end
  | TLong => match v with VPrim (PLong _) => true | _ => false end
  | TString => match v with VPrim (PString _) => true | _ => false end
  | TSet None => match v with VSet _ => true | _ => false end
  | TSet (Some e) => match v with VSet l => forallb (fun x => tc_value_ty x e) l | _ => false end
  | TEntity (ELub ts) => match v with VPrim (PEntity u) => lub_contains ts (uty u) | _ => false end
  | TEntity AnyEntity => match v with VPrim (PEntity _) => true | _ => false end
  | TRecord attrs open =>
      match v with
      | VRecord kvs =>
          (fix each (l : list (str * value)) : bool :=
             match l with
             | [] => true
             | (k, v') :: l' =>
                 match lookup k attrs with
                 | Some (ta, _) => tc_value_ty v' ta
                 | None => open
                 end && each l'
             end) kvs
          && forallb (fun a : str * (ty * bool) => negb (snd (snd a)) || has_key (fst a) kvs) attrs
      | _ => false
      end
  | TExt n => match v with VExt x => name_eqb (ext_typename x) n | _ => false end
  end.

(* ======================================================================================
   Part 1b: entity uids (enumerated ids, declared actions) *)

(* is_valid_enumerated_entity *)
Definition enum_ok (choices : list str) (u : uid) : bool := existsb (str_eqb (ueid u)) choices.

(* validate_euid *)
Definition uid_ok (sch : schema) (u : uid) : cres :=
  cthen
    (match find_etype sch (uty u) with
     | Some i => match et_enum i with
                 | Some ch => if enum_ok ch u then None else Some CInvalidEnumEntity
                 | None => None
                 end
     | None => None
     end)
    (if is_action_type (uty u) && negb (known_action sch u) then Some CUndeclaredAction else None).

(* validate_euids_in_partial_value: every entity literal at any depth *)
Fixpoint value_uids (sch : schema) (v : value) {struct v} : cres :=
  match v with
  | VPrim (PEntity u) => uid_ok sch u
  | VPrim _ => None
  | VExt _ => None
  | VSet l =>
      (fix go (l : list value) : cres :=
         match l with [] => None | x :: l' => cthen (value_uids sch x) (go l') end) l
  | VRecord kvs =>
      (fix go (l : list (str * value)) : cres :=
         match l with [] => None | (_, x) :: l' => cthen (value_uids sch x) (go l') end) kvs
  end.

(* the two value checks together: the boolean `conf_value` of the property statement *)
Definition conf_value (sch : schema) (v : value) (t : ty) : bool :=
  tc_value_ty v t && accepts (value_uids sch v).

(* ======================================================================================
   Part 1c: entities *)

(* Entity::deep_eq: uid, attrs, tags equal; ancestor SETS equal (parents ∪ indirect) *)
Definition uids_subset (a b : list uid) : bool := forallb (fun x => existsb (uid_eqb x) b) a.
Definition deep_eq (u1 : uid) (d1 : edata) (u2 : uid) (d2 : edata) : bool :=
  uid_eqb u1 u2
  && value_eqb (VRecord (eattrs d1)) (VRecord (eattrs d2))
  && value_eqb (VRecord (etags d1)) (VRecord (etags d2))
  && uids_subset (eancestors d1) (eancestors d2) && uids_subset (eancestors d2) (eancestors d1).

(* validate_action *)
Definition conf_action (sch : schema) (u : uid) (d : edata) : cres :=
  match action_entity sch u with
  | None => Some CUndeclaredAction
  | Some sd => if deep_eq u d u sd then None else Some CActionMismatch
  end.

(* attr_type()/tag_type() convert the validator type to a SchemaType, then
   typecheck_value_against_schematype *)
Definition conf_attr_value (v : value) (t : ty) : cres :=
  match to_sty t with
  | None => Some CSchemaType
  | Some st => if tc_value_st v st then None else Some CTypeMismatch
  end.

(* validate_entity_attributes *)
Definition conf_attrs (sch : schema) (i : etype_info) (attrs : list (str * value)) : cres :=
  cthen
    (first_err (fun k => if has_key k attrs then None else Some CMissingRequiredAttr) (required_attrs i))
    (first_err (fun kv : str * value =>
                  cthen
                    (match lookup (fst kv) (et_attrs i) with
                     | None => if et_open i then None else Some CUnexpectedAttr
                     | Some (t, _) => conf_attr_value (snd kv) t
                     end)
                    (value_uids sch (snd kv))) attrs).

(* validate_entity_ancestors *)
Definition conf_ancestors (sch : schema) (t : etype) (ancs : list uid) : cres :=
  first_err (fun a => cthen (uid_ok sch a)
                            (if existsb (name_eqb (uty a)) (allowed_parent_types sch t) then None
                             else Some CInvalidAncestorType)) ancs.

(* validate_tags *)
Definition conf_tags (sch : schema) (i : etype_info) (tags : list (str * value)) : cres :=
  cthen
    (match et_tags i with
     | None => match tags with [] => None | _ :: _ => Some CUnexpectedTag end
     | Some t => first_err (fun kv : str * value => conf_attr_value (snd kv) t) tags
     end)
    (first_err (fun kv : str * value => value_uids sch (snd kv)) tags).

(* validate_entity *)
Definition conf_entity (sch : schema) (e : uid * edata) : cres :=
  let u := fst e in
  let d := snd e in
  if is_action_type (uty u) then conf_action sch u d
  else match find_etype sch (uty u) with
       | None => Some CUnexpectedEntityType
       | Some i =>
           cthen (uid_ok sch u)
             (cthen (conf_attrs sch i (eattrs d))
                (cthen (conf_ancestors sch (uty u) (eancestors d))
                   (conf_tags sch i (etags d))))
       end.

(* ======================================================================================
   Part 1d: requests *)

(* the principal / resource half of validate_scope_variables *)
Definition conf_scope_var (sch : schema) (u : uid) (undeclared : cerr) : cres :=
  match find_etype sch (uty u) with
  | Some i => match et_enum i with
              | Some ch => if enum_ok ch u then None else Some CInvalidEnumEntity
              | None => None
              end
  | None => Some undeclared
  end.

(* validate_scope_variables (all three present) *)
Definition conf_scope (sch : schema) (p a r : uid) : cres :=
  cthen (conf_scope_var sch p CUndeclaredPrincipalType)
    (cthen (conf_scope_var sch r CUndeclaredResourceType)
       (match find_action sch a with
        | None => Some CUndeclaredAction
        | Some ai =>
            cthen (if applies_principal ai (uty p) then None else Some CInvalidPrincipalType)
                  (if applies_resource ai (uty r) then None else Some CInvalidResourceType)
        end)).

(* validate_context *)
Definition conf_context (sch : schema) (a : uid) (ctx : list (str * value)) : cres :=
  match find_action sch a with
  | None => Some CUndeclaredAction
  | Some ai =>
      cthen (value_uids sch (VRecord ctx))
            (if tc_value_ty (VRecord ctx) (ai_context ai) then None else Some CInvalidContext)
  end.

(* validate_request *)
Definition conf_request (sch : schema) (q : request) : cres :=
  cthen (conf_scope sch (rprincipal q) (raction q) (rresource q))
        (conf_context sch (raction q) (rcontext q)).

(* ======================================================================================
   Part 2: entry points *)

(* --- the type-directed JSON parse (ValueParser::val_into_restricted_expr), accept/reject only.
   The JSON document is the rendering of the value with EXPLICIT `__entity` / `__extn` escapes.
   Some true = parses to the same value; Some false = a deserialization error;
   None = UNMODELLED: the parse would succeed but yield a different value (implicit escapes:
   a string under an extension type is passed to the constructor, a {type,id} record under an
   entity type is an entity reference, undeclared attributes of an open record are dropped) or
   the record uses a reserved key.  Theorems exclude None; generators never produce it. *)
Definition jand (a b : option bool) : option bool :=
  match a, b with
  | Some false, _ | _, Some false => Some false
  | None, _ | _, None => None
  | Some true, Some true => Some true
  end.
Fixpoint jall (l : list (option bool)) : option bool :=
  match l with [] => Some true | x :: l' => jand x (jall l') end.

Definition reserved_keys : list str :=
  map s2str ["__entity"; "__extn"; "__expr"; "type"; "id"; "fn"; "arg"; "args"]%string.
Definition plain_keys (kvs : list (str * value)) : bool :=
  forallb (fun kv : str * value => negb (existsb (str_eqb (fst kv)) reserved_keys)) kvs.

(* no record anywhere in the value uses a reserved key *)
Fixpoint jplain (v : value) {struct v} : bool :=
  match v with
  | VPrim _ => true
  | VExt _ => true
  | VSet l => forallb jplain l
  | VRecord kvs =>
      plain_keys kvs &&
      (fix go (l : list (str * value)) : bool :=
         match l with [] => true | (_, x) :: l' => jplain x && go l' end) kvs
  end.

Fixpoint jparse (v : value) (t : sty) {struct v} : option bool :=
  match t with
  | SEntity _ =>                     (* EntityUidJson: any entity reference, of any type *)
      match v with VPrim (PEntity _) => Some true | VRecord _ => None | _ => Some false end
  | SExt _ =>                        (* ExtnValueJson: any extension call, of any type *)
      match v with
      | VExt _ => Some true
      | VPrim (PString _) => None    (* ImplicitConstructor *)
      | VRecord _ => None
      | _ => Some false              (* constructor applied to a non-string: evaluation error *)
      end
  | SSet e =>
      match v with
      | VSet l => jall (map (fun x => jparse x e) l)
      | _ => Some false
      end
  | SRecord attrs open =>
      match v with
      | VRecord kvs =>
          jand
            (jall (map (fun a : str * (sty * bool) =>
                          (fix find (l : list (str * value)) : option bool :=
                             match l with
                             | [] => Some (negb (snd (snd a)))    (* absent: an error iff required *)
                             | (k', v') :: l' =>
                                 if str_eqb (fst a) k' then jparse v' (fst (snd a)) else find l'
                             end) kvs) attrs))
            (if forallb (fun kv : str * value => has_key (fst kv) attrs) kvs then Some true
             else if open then None else Some false)
      | VPrim (PEntity _) | VExt _ =>
          (* a JSON object with the single key __entity / __extn, read as a record *)
          if open && negb (existsb (fun a : str * (sty * bool) => snd (snd a)) attrs) then None
          else Some false
      | _ => Some false
      end
  | _ => Some true                   (* Bool / Long / String / EmptySet: parsed without a type *)
  end.

Definition jparse_checked (v : value) (t : sty) : option bool :=
  if jplain v then jparse v t else None.

Definition is_action_uid (u : uid) : bool := is_action_type (uty u).

(* EntityJsonParser::parse_ejson: accept / reject class / unmodelled *)
Inductive jres := JOk | JErr (e : cerr) | JUnmodelled.
Definition jres_of (r : option bool) : jres :=
  match r with Some true => JOk | Some false => JErr CJsonParse | None => JUnmodelled end.
Definition jres_then (a b : jres) : jres :=
  match a with JOk => b | JErr e => JErr e | JUnmodelled => match b with JErr e => JErr e | _ => JUnmodelled end end.
Fixpoint jres_all {A} (f : A -> jres) (l : list A) : jres :=
  match l with [] => JOk | x :: l' => jres_then (f x) (jres_all f l') end.

Definition jparse_typed (v : value) (t : ty) : jres :=
  match to_sty t with
  | None => JErr CSchemaType
  | Some st => jres_of (jparse_checked v st)
  end.

Definition jparse_entity (sch : schema) (e : uid * edata) : jres :=
  let u := fst e in
  let d := snd e in
  if is_action_type (uty u) then
    (* no schema-based parsing for actions; parents of an action must be actions *)
    jres_then (if forallb (fun kv : str * value => jplain (snd kv)) (eattrs d ++ etags d) then JOk else JUnmodelled)
              (if forallb is_action_uid (eancestors d) then JOk else JErr CJsonParse)
  else
    match find_etype sch (uty u) with
    | None => JErr CUnexpectedEntityType
    | Some i =>
        jres_then
          (jres_all (fun kv : str * value =>
                       match lookup (fst kv) (et_attrs i) with
                       | None => if et_open i then (if jplain (snd kv) then JOk else JUnmodelled)
                                 else JErr CUnexpectedAttr
                       | Some (t, _) => jparse_typed (snd kv) t
                       end) (eattrs d))
          (jres_all (fun kv : str * value =>
                       match et_tags i with
                       | None => JErr CUnexpectedTag
                       | Some t => jparse_typed (snd kv) t
                       end) (etags d))
    end.

(* --- transitive closure of the ancestor sets over the entities present: the RESULT of
   compute_tc (its algorithm is property C04).  The direct/indirect split is irrelevant here:
   conformance only looks at Entity::ancestors(). *)
Definition uid_add (u : uid) (l : list uid) : list uid :=
  if existsb (uid_eqb u) l then l else l ++ [u].
Definition anc_step (es : entities) (anc : list uid) : list uid :=
  fold_left (fun acc a => match find_entity a es with
                          | Some d => fold_left (fun acc' x => uid_add x acc') (eancestors d) acc
                          | None => acc
                          end) anc anc.
Fixpoint anc_iter (n : nat) (es : entities) (anc : list uid) : list uid :=
  match n with O => anc | S n' => anc_iter n' es (anc_step es anc) end.
Definition tc_close (es : entities) : entities :=
  map (fun e : uid * edata =>
         (fst e, mkEdata (eattrs (snd e)) (etags (snd e)) (anc_iter (length es) es (eancestors (snd e))))) es.

Definition is_action_entity (e : uid * edata) : bool := is_action_type (uty (fst e)).

Inductive verdict := Accept | Reject (e : cerr) | Unmodelled.
Definition verdict_of (r : cres) : verdict := match r with None => Accept | Some e => Reject e end.
Definition after_parse (p : jres) (r : cres) : verdict :=
  match p with JOk => verdict_of r | JErr e => Reject e | JUnmodelled => Unmodelled end.

(* Entities::from_entities(es, Some(schema), ComputeNow): non-action entities are validated as
   given, then the closure is computed, then action entities are validated.  (Duplicate uids and
   cycles are other errors, outside this property.) *)
Definition ep_from_entities_r (sch : schema) (es : entities) : cres :=
  cthen (first_err (conf_entity sch) (filter (fun e => negb (is_action_entity e)) es))
        (first_err (conf_entity sch) (filter is_action_entity (tc_close es))).
Definition ep_from_entities (sch : schema) (es : entities) : verdict := verdict_of (ep_from_entities_r sch es).

(* Entities::add_entities / upsert_entities(es, Some(schema)): every incoming entity is validated
   as given, before the closure is repaired *)
Definition ep_add_entities_r (sch : schema) (es : entities) : cres := first_err (conf_entity sch) es.
Definition ep_add_entities (sch : schema) (es : entities) : verdict := verdict_of (ep_add_entities_r sch es).
Definition ep_upsert_entities (sch : schema) (es : entities) : verdict := verdict_of (ep_add_entities_r sch es).

(* Entity::from_json_*(json, Some(schema)): parse_ejson then validate_entity *)
Definition ep_entity_from_json (sch : schema) (e : uid * edata) : verdict :=
  after_parse (jparse_entity sch e) (conf_entity sch e).

(* Entities::from_json_*(json, Some(schema)): parse_ejson on every entity, then from_entities *)
Definition ep_entities_from_json (sch : schema) (es : entities) : verdict :=
  after_parse (jres_all (jparse_entity sch) es) (ep_from_entities_r sch es).

(* Entities::add_entities_from_json_*: parse_ejson on every entity, then add_entities *)
Definition ep_add_entities_from_json (sch : schema) (es : entities) : verdict :=
  after_parse (jres_all (jparse_entity sch) es) (ep_add_entities_r sch es).

(* Request::new(p, a, r, context, Some(schema)) *)
Definition ep_request_new (sch : schema) (q : request) : verdict := verdict_of (conf_request sch q).

(* Context::validate(schema, action) *)
Definition ep_context_validate (sch : schema) (a : uid) (ctx : list (str * value)) : verdict :=
  verdict_of (conf_context sch a ctx).

(* Context::from_json_*(json, Some((schema, action))): context_schema_for_action, then ONLY the
   type-directed parse (ContextJsonParser::from_json_value) — no typecheck, no uid validation. *)
Definition ep_context_from_json (sch : schema) (a : uid) (ctx : list (str * value)) : verdict :=
  match find_action sch a with
  | None => Reject CUndeclaredAction
  | Some ai =>
      match jparse_typed (VRecord ctx) (ai_context ai) with
      | JOk => Accept
      | JErr e => Reject e
      | JUnmodelled => Unmodelled
      end
  end.

(* ======================================================================================
   Part 3: the declarative specification, written from the property text *)

(* "values of the declared types (recursively, with set elements and nested record fields)" *)
Inductive TypeConforms : value -> ty -> Prop :=
| TC_bool b : TypeConforms (VBool b) (TBool BAny)
| TC_true : TypeConforms (VBool true) (TBool BTrue)
| TC_false : TypeConforms (VBool false) (TBool BFalse)
| TC_long z : TypeConforms (VLong z) TLong
| TC_string s : TypeConforms (VString s) TString
| TC_anyset l : TypeConforms (VSet l) (TSet None)
| TC_set l e :
    (forall x, In x l -> TypeConforms x e) ->
    TypeConforms (VSet l) (TSet (Some e))
| TC_entity u ts : In (uty u) ts -> TypeConforms (VEntity u) (TEntity (ELub ts))
| TC_anyentity u : TypeConforms (VEntity u) (TEntity AnyEntity)
| TC_record kvs attrs open :
    (* required attributes present *)
    (forall k t, In (k, (t, true)) attrs -> has_key k kvs = true) ->
    (* declared attributes have their declared type *)
    (forall k v, In (k, v) kvs -> forall t r, lookup k attrs = Some (t, r) -> TypeConforms v t) ->
    (* no undeclared attributes (unless the record type is open) *)
    (open = false -> forall k v, In (k, v) kvs -> has_key k attrs = true) ->
    TypeConforms (VRecord kvs) (TRecord attrs open)
| TC_ext x n : ext_typename x = n -> TypeConforms (VExt x) (TExt n).

(* "enumerated entity ids among the declared choices" and "actions declared" *)
Definition UidValid (sch : schema) (u : uid) : Prop :=
  (forall i ch, find_etype sch (uty u) = Some i -> et_enum i = Some ch -> In (ueid u) ch) /\
  (is_action_type (uty u) = true -> exists ai, find_action sch u = Some ai).

(* "wherever they occur": u occurs in v, at any depth *)
Inductive UidIn (u : uid) : value -> Prop :=
| UI_here : UidIn u (VEntity u)
| UI_set x l : In x l -> UidIn u x -> UidIn u (VSet l)
| UI_record k x kvs : In (k, x) kvs -> UidIn u x -> UidIn u (VRecord kvs).

Definition UidsValid (sch : schema) (v : value) : Prop := forall u, UidIn u v -> UidValid sch u.

Definition ValueConforms (sch : schema) (v : value) (t : ty) : Prop :=
  TypeConforms v t /\ UidsValid sch v.

(* "ancestors only of permitted (transitively) member-of types": the resolved schema lists, for
   every type, ALL its descendants *)
Definition PermittedAncestorType (sch : schema) (child anc : etype) : Prop :=
  exists i, In (anc, i) (s_etypes sch) /\ In child (et_descendants i).

(* "actions declared and identical to their schema definition" *)
Definition ActionConforms (sch : schema) (u : uid) (d : edata) : Prop :=
  (exists ai, find_action sch u = Some ai) /\
  eattrs d = [] /\ etags d = [] /\
  (forall a, In a (eancestors d) <-> In a (action_ancestors sch u)).

Definition EntityConforms (sch : schema) (e : uid * edata) : Prop :=
  let u := fst e in
  let d := snd e in
  if is_action_type (uty u) then ActionConforms sch u d
  else
    exists i, find_etype sch (uty u) = Some i /\
      (* the entity's own id, if its type is enumerated *)
      UidValid sch u /\
      (* required attributes present *)
      (forall k, In k (required_attrs i) -> has_key k (eattrs d) = true) /\
      (* attribute values of the declared types; no undeclared attributes *)
      (forall k v, In (k, v) (eattrs d) ->
         match lookup k (et_attrs i) with
         | Some (t, _) => ValueConforms sch v t
         | None => et_open i = true /\ UidsValid sch v
         end) /\
      (* ancestors only of permitted types (and valid ids) *)
      (forall a, In a (eancestors d) -> UidValid sch a /\ PermittedAncestorType sch (uty u) (uty a)) /\
      (* tag values of the declared tag type; no tags on a type without tags *)
      (forall k v, In (k, v) (etags d) ->
         match et_tags i with
         | Some t => ValueConforms sch v t
         | None => False
         end).

(* requests: "actions declared ..., the principal and resource types among those the action
   applies to", context of the declared type *)
Definition ScopeVarConforms (sch : schema) (u : uid) : Prop :=
  exists i, find_etype sch (uty u) = Some i /\
            (forall ch, et_enum i = Some ch -> In (ueid u) ch).

Definition ContextConforms (sch : schema) (a : uid) (ctx : list (str * value)) : Prop :=
  exists ai, find_action sch a = Some ai /\ ValueConforms sch (VRecord ctx) (ai_context ai).

Definition RequestConforms (sch : schema) (q : request) : Prop :=
  ScopeVarConforms sch (rprincipal q) /\
  ScopeVarConforms sch (rresource q) /\
  (exists ai, find_action sch (raction q) = Some ai /\
              In (uty (rprincipal q)) (ai_principals ai) /\
              In (uty (rresource q)) (ai_resources ai)) /\
  ContextConforms sch (raction q) (rcontext q).

(* ======================================================================================
   Part 4: representation invariants of a resolved schema (hypotheses of the C11 theorems).
   `Attributes` is a BTreeMap in Rust: the attribute list of every record type is duplicate-free
   (at every nesting depth); every key of `s_actions` is an action uid (ValidatorSchema only
   builds action ids whose type has the basename `Action`).  Together with Schema.schema_ok
   (every declared type is one a schema can produce).  The check evaluates `schema_wf` on every
   generated schema through the model driver (`(conform schema_wf <schema>)`). *)
Fixpoint wf_ty (t : ty) : bool :=
  match t with
  | TSet (Some e) => wf_ty e
  | TRecord attrs _ =>
      keys_nodup attrs &&
      (fix go (l : attrs_ty) : bool :=
         match l with
         | [] => true
         | (_, (a, _)) :: l' => wf_ty a && go l'
         end) attrs
  | _ => true
  end.

Definition decl_ty_ok (t : ty) : bool := schema_ty t && wf_ty t.

Definition etype_info_wf (i : etype_info) : bool :=
  forallb (fun e : str * (ty * bool) => decl_ty_ok (fst (snd e))) (et_attrs i) &&
  match et_tags i with Some t => decl_ty_ok t | None => true end.

Definition schema_wf (sch : schema) : bool :=
  forallb (fun ni : etype * etype_info => etype_info_wf (snd ni)) (s_etypes sch) &&
  forallb (fun ui : uid * action_info =>
             decl_ty_ok (ai_context (snd ui)) && is_action_type (uty (fst ui))) (s_actions sch).
