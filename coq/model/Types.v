(* Types.v — the validator's types.  Shared foundation (C11 conformance, C03 typechecker, TPE,
   level validation).  Definitions only.

   Mirrors cedar-policy-core/src/validator/types.rs:
     Type, BoolType, EntityKind / EntityLUB, Attributes / AttributeType, OpenTag
   and cedar-policy-core/src/entities/json/schema_types.rs:
     SchemaType / AttributeType, SchemaType::from_ty, From<SchemaType> for ast::Type
   and the conversion  impl TryFrom<Type> for CoreSchemaType  (types.rs) that the conformance
   checker applies (EntityTypeDescription::{attr_type, tag_type}, ContextSchema::context_type)
   before it checks a value. *)
From Cedar Require Export Value.

(* BoolType *)
Inductive boolty := BAny | BTrue | BFalse.

(* EntityKind.  `ELub ts` is EntityKind::Entity(EntityLUB { lub_elements }): a NON-EMPTY,
   duplicate-free set of entity types (a BTreeSet in Rust; here a list used as a set). *)
Inductive entkind := AnyEntity | ELub (ts : list etype).

(* Type.  `TRecord attrs open`: attrs is Attributes (a BTreeMap: key-sorted, duplicate-free
   association list; the bool of each entry is AttributeType::is_required), open is
   OpenTag::OpenAttributes.  `TSet None` is the "any set" type used only in subtype tests. *)
Inductive ty :=
| TNever
| TBool (b : boolty)
| TLong
| TString
| TSet (elt : option ty)
| TEntity (k : entkind)
| TRecord (attrs : list (str * (ty * bool))) (open : bool)
| TExt (n : name).

Definition attrs_ty := list (str * (ty * bool)).

(* constructors of types.rs *)
Definition ty_bool : ty := TBool BAny.                       (* Type::primitive_boolean *)
Definition ty_singleton (b : bool) : ty := TBool (if b then BTrue else BFalse).
Definition ty_entity (t : etype) : ty := TEntity (ELub [t]). (* Type::named_entity_reference *)
Definition ty_any_entity : ty := TEntity AnyEntity.
Definition ty_any_set : ty := TSet None.
Definition ty_set (t : ty) : ty := TSet (Some t).
Definition ty_any_record : ty := TRecord [] true.            (* Type::any_record *)
Definition ty_closed_record (a : attrs_ty) : ty := TRecord a false.

(* Attributes::get_attr *)
Definition get_attr_ty (a : attrs_ty) (k : str) : option (ty * bool) := lookup k a.

(* EntityLUB::contains *)
Definition lub_contains (ts : list etype) (t : etype) : bool := existsb (name_eqb t) ts.

Definition boolty_eqb (a b : boolty) : bool :=
  match a, b with BAny, BAny | BTrue, BTrue | BFalse, BFalse => true | _, _ => false end.

(* set equality of two LUBs (BTreeSet ==) *)
Definition lub_eqb (a b : list etype) : bool :=
  forallb (lub_contains b) a && forallb (lub_contains a) b.

(* derived PartialEq of Type *)
Fixpoint ty_eqb (a b : ty) {struct a} : bool :=
  match a, b with
  | TNever, TNever => true
  | TBool x, TBool y => boolty_eqb x y
  | TLong, TLong => true
  | TString, TString => true
  | TSet None, TSet None => true
  | TSet (Some x), TSet (Some y) => ty_eqb x y
  | TEntity AnyEntity, TEntity AnyEntity => true
  | TEntity (ELub x), TEntity (ELub y) => lub_eqb x y
  | TRecord xs ox, TRecord ys oy =>
      Bool.eqb ox oy &&
      (fix go (l : attrs_ty) (m : attrs_ty) : bool :=
         match l, m with
         | [], [] => true
         | (k, (t, r)) :: l', (k', (t', r')) :: m' =>
             str_eqb k k' && ty_eqb t t' && Bool.eqb r r' && go l' m'
         | _, _ => false
         end) xs ys
  | TExt x, TExt y => name_eqb x y
  | _, _ => false
  end.

(* ---------------------------------------------------------------------------------------
   SchemaType (entities/json/schema_types.rs): the type language of schema-based parsing and
   of EntitySchemaConformanceChecker. *)
Inductive sty :=
| SBool
| SLong
| SString
| SSet (elt : sty)
| SEmptySet
| SRecord (attrs : list (str * (sty * bool))) (open : bool)
| SEntity (t : etype)
| SExt (n : name).

Definition attrs_sty := list (str * (sty * bool)).

(* impl TryFrom<Type> for CoreSchemaType.  None = Err (the callers `expect` it: a schema whose
   types are not representable makes the Rust code panic; `schema_ty` below characterises the
   types for which the conversion succeeds and loses nothing). *)
Fixpoint to_sty (t : ty) : option sty :=
  match t with
  | TNever => None
  | TBool _ => Some SBool
  | TLong => Some SLong
  | TString => Some SString
  | TSet (Some e) => option_map SSet (to_sty e)
  | TSet None => Some SEmptySet
  | TEntity AnyEntity => None
  | TEntity (ELub [n]) => Some (SEntity n)          (* EntityLUB::into_single_entity *)
  | TEntity (ELub _) => None
  | TRecord attrs open =>
      option_map (fun a => SRecord a open)
        ((fix go (l : attrs_ty) : option attrs_sty :=
            match l with
            | [] => Some []
            | (k, (a, r)) :: l' =>
                match to_sty a, go l' with
                | Some s, Some rest => Some ((k, (s, r)) :: rest)
                | _, _ => None
                end
            end) attrs)
  | TExt n => Some (SExt n)
  end.

(* SchemaType::from_ty (ast::Type -> SchemaType; used for type-annotated unknowns) *)
Definition sty_of_rtype (t : rtype) : option sty :=
  match t with
  | RTBool => Some SBool
  | RTLong => Some SLong
  | RTString => Some SString
  | RTEntity n => Some (SEntity n)
  | RTSet => None
  | RTRecord => None
  | RTExt n => Some (SExt n)
  end.

(* impl From<SchemaType> for ast::Type *)
Definition rtype_of_sty (t : sty) : rtype :=
  match t with
  | SBool => RTBool
  | SLong => RTLong
  | SString => RTString
  | SSet _ => RTSet
  | SEmptySet => RTSet
  | SRecord _ _ => RTRecord
  | SEntity n => RTEntity n
  | SExt n => RTExt n
  end.

(* The types a schema can declare for attributes, tags and contexts (what
   try_jsonschema_type_into_validator_type produces): no Never, no singleton booleans, no
   "any set", no AnyEntity, only single-type entity references.  On these `to_sty` succeeds
   and the two value checkers of Conform.v agree. *)
Fixpoint schema_ty (t : ty) : bool :=
  match t with
  | TNever => false
  | TBool BAny => true
  | TBool _ => false
  | TLong => true
  | TString => true
  | TSet (Some e) => schema_ty e
  | TSet None => false
  | TEntity (ELub [_]) => true
  | TEntity _ => false
  | TRecord attrs _ =>
      (fix go (l : attrs_ty) : bool :=
         match l with
         | [] => true
         | (_, (a, _)) :: l' => schema_ty a && go l'
         end) attrs
  | TExt _ => true
  end.

Definition schema_attrs (a : attrs_ty) : bool := forallb (fun e => schema_ty (fst (snd e))) a.
