(* TC.v — entity-store hierarchy operations (C04).  Definitions only.
   Node keys are abstract (N), as in transitive_closure.rs which is generic in K.
   Sets (HashSet<EntityUID>) are duplicate-free lists; the store (HashMap) is an association list
   with unique keys.  Iteration order of the Rust hash containers is NOT modelled (list order is
   used); results are compared after sorting.

   Rust                                             here
   Entity.parents / indirect_ancestors              n_parents / n_indirect
   Entity::{ancestors,is_descendant_of}             ancestors / is_desc
   Entity::{add_indirect_ancestor,remove_*}         add_indirect / remove_indirect / remove_parent
   Entity::deep_eq (fresh entity vs stored)         set_eqb ps (ancestors old)
   update_entity_map                                upd_noover / upd_over
   enforce_tc, enforce_dag_from_tc(_for)            enforce_tc, enforce_dag, enforce_dag_for
   add_ancestors, compute_tc_internal, repair_tc    add_anc, repair
   compute_tc(.., true) (SCC based cyclic_tc)       modelled by its contract: recompute (closure per node)
   Entities::{from,add,upsert,remove}_entities      i_from / i_add / i_upsert / i_remove  (incremental layer)
   spec layer (edit the parent graph as the code edits `parents`, recompute the closure)
                                                    s_from / s_add / s_upsert / s_remove
   api::Entities::is_ancestor_of, eval_in           q_is_ancestor_of, q_in *)
From Cedar Require Export Base.
Open Scope N_scope.

Definition uid := N.

Definition mem (x : uid) (l : list uid) : bool := existsb (N.eqb x) l.
Definition subset (a b : list uid) : bool := forallb (fun x => mem x b) a.
Definition set_eqb (a b : list uid) : bool := subset a b && subset b a.
Definition add_set (x : uid) (l : list uid) : list uid := if mem x l then l else l ++ [x].
Definition remove_set (x : uid) (l : list uid) : list uid := filter (fun y => negb (N.eqb x y)) l.
Fixpoint dedup (l : list uid) : list uid :=
  match l with [] => [] | x :: t => if mem x t then dedup t else x :: dedup t end.

Record node := mkNode { n_parents : list uid; n_indirect : list uid }.
Definition store := list (uid * node).

Fixpoint find (u : uid) (s : store) : option node :=
  match s with
  | [] => None
  | (k, n) :: t => if N.eqb u k then Some n else find u t
  end.
Definition delete (u : uid) (s : store) : store := filter (fun kn => negb (N.eqb u (fst kn))) s.
Definition update (u : uid) (f : node -> node) (s : store) : store :=
  map (fun kn => if N.eqb u (fst kn) then (fst kn, f (snd kn)) else kn) s.
Definition keys (s : store) : list uid := map fst s.

Definition ancestors (n : node) : list uid := n_parents n ++ n_indirect n.
Definition is_desc (n : node) (a : uid) : bool := mem a (n_parents n) || mem a (n_indirect n).
Definition add_indirect (n : node) (a : uid) : node :=
  if mem a (n_parents n) then n else mkNode (n_parents n) (add_set a (n_indirect n)).
Definition remove_indirect (n : node) (a : uid) : node := mkNode (n_parents n) (remove_set a (n_indirect n)).
Definition remove_parent (n : node) (a : uid) : node := mkNode (remove_set a (n_parents n)) (n_indirect n).

Inductive tc_err := ECycle | EDuplicate | EMissingEdge | EFuel.
Inductive tres (A : Type) := TOk (a : A) | TErr (e : tc_err).
Arguments TOk {A} a.
Arguments TErr {A} e.

(* ------------------------------------------------------------------ parent graphs, closure *)
Definition graph := list (uid * list uid).
Fixpoint gfind (u : uid) (g : graph) : option (list uid) :=
  match g with
  | [] => None
  | (k, ps) :: t => if N.eqb u k then Some ps else gfind u t
  end.
(* a parent without a record of its own is a leaf *)
Definition parents_of (g : graph) (u : uid) : list uid :=
  match gfind u g with Some ps => ps | None => [] end.
Definition graph_of (s : store) : graph := map (fun kn => (fst kn, n_parents (snd kn))) s.

Definition succs (g : graph) (S : list uid) : list uid := flat_map (parents_of g) S.

(* saturation: add one not-yet-present successor at a time until nothing is new *)
Fixpoint sat (fuel : nat) (g : graph) (seed : list uid) (S : list uid) : option (list uid) :=
  match filter (fun x => negb (mem x S)) (seed ++ succs g S) with
  | [] => Some S
  | x :: _ => match fuel with O => None | Datatypes.S f => sat f g seed (x :: S) end
  end.

Definition fuel_of (g : graph) : nat := Datatypes.S (length (flat_map snd g)).
Definition closure (g : graph) (u : uid) : option (list uid) := sat (fuel_of g) g (parents_of g u) [].

(* recompute every node's cached closure from the direct parents; a node that reaches itself
   is a cycle (compute_tc + enforce_dag_from_tc) *)
Fixpoint recompute_nodes (g : graph) (todo : graph) : tres store :=
  match todo with
  | [] => TOk []
  | (u, ps) :: t =>
      match closure g u with
      | None => TErr EFuel
      | Some c =>
          if mem u c then TErr ECycle
          else match recompute_nodes g t with
               | TErr e => TErr e
               | TOk rest => TOk ((u, mkNode ps (filter (fun x => negb (mem x ps)) c)) :: rest)
               end
      end
  end.
Definition recompute (g : graph) : tres store := recompute_nodes g g.

(* ------------------------------------------------------------------ update_entity_map *)
Definition ent := (uid * list uid)%type.   (* a fresh entity: uid and direct parents *)

Definition upd_noover (s : store) (e : ent) : tres store :=
  match find (fst e) s with
  | Some old => if set_eqb (snd e) (ancestors old) then TOk s else TErr EDuplicate
  | None => TOk (s ++ [(fst e, mkNode (snd e) [])])
  end.
Definition upd_over (s : store) (e : ent) : store :=
  match find (fst e) s with
  | Some _ => update (fst e) (fun _ => mkNode (snd e) []) s
  | None => s ++ [(fst e, mkNode (snd e) [])]
  end.
Fixpoint insert_all (s : store) (es : list ent) : tres store :=
  match es with
  | [] => TOk s
  | e :: t => match upd_noover s e with TErr x => TErr x | TOk s' => insert_all s' t end
  end.

(* ------------------------------------------------------------------ enforce_tc_and_dag *)
Definition enforce_tc (s : store) : bool :=
  forallb (fun kn =>
    forallb (fun p => match find p s with
                      | Some pn => forallb (fun gp => is_desc (snd kn) gp) (ancestors pn)
                      | None => true
                      end) (ancestors (snd kn))) s.
Definition enforce_dag (s : store) : bool := forallb (fun kn => negb (is_desc (snd kn) (fst kn))) s.
Definition enforce_dag_for (touched : list uid) (s : store) : bool :=
  forallb (fun t => match find t s with Some n => negb (is_desc n t) | None => true end) touched.
Definition enforce_tc_and_dag (s : store) : tres store :=
  if enforce_tc s then (if enforce_dag s then TOk s else TErr ECycle) else TErr EMissingEdge.

(* ------------------------------------------------------------------ spec layer *)
Definition edit_remove (s : store) (u : uid) : store :=
  match find u s with
  | None => s
  | Some _ => map (fun kn => (fst kn, remove_parent (snd kn) u)) (delete u s)
  end.

Inductive op :=
| OFrom (compute : bool) (es : list ent)
| OAdd (compute : bool) (es : list ent)
| OUpsert (compute : bool) (es : list ent)
| ORemove (compute : bool) (us : list uid).
Definition op_compute (o : op) : bool :=
  match o with OFrom c _ | OAdd c _ | OUpsert c _ | ORemove c _ => c end.

(* the edit of the map / of the direct parents, exactly as the code performs it *)
(* afe0e04: when the batch contains several versions of one uid only the LATEST is kept (in the order of the last
   occurrences): `for entity in collection.rev() { if seen.insert(uid) { latest.push(entity) } }; latest.reverse()` *)
Fixpoint latest_versions (es : list ent) : list ent :=
  match es with
  | [] => []
  | e :: t => if existsb (fun e' => N.eqb (fst e') (fst e)) t then latest_versions t else e :: latest_versions t
  end.
Definition s_edit (s : store) (o : op) : tres store :=
  match o with
  | OFrom _ es => insert_all [] es
  | OAdd _ es => insert_all s es
  | OUpsert _ es => TOk (fold_left upd_over (latest_versions es) s)
  | ORemove _ us => TOk (fold_left edit_remove us s)
  end.
(* ... followed by recomputing every cached closure from the direct parents *)
Definition s_compute (s : store) (o : op) : tres store :=
  match s_edit s o with TErr e => TErr e | TOk s1 => recompute (graph_of s1) end.

(* ------------------------------------------------------------------ incremental layer *)
(* add_ancestors: DFS over the ancestors of u; nodes in `seen` are trusted to be saturated *)
Fixpoint add_anc (fuel : nat) (u : uid) (s : store) (seen : list uid) : option (store * list uid) :=
  match fuel with
  | O => None
  | Datatypes.S f =>
      match find u s with
      | None => Some (s, seen)
      | Some n =>
          let fix loop (edges : list uid) (s : store) (seen explored acc : list uid)
              : option (store * list uid * list uid) :=
            match edges with
            | [] => Some (s, seen, acc)
            | a :: rest =>
                match (if mem a seen then Some (s, seen) else add_anc f a s (a :: seen)) with
                | None => None
                | Some (s', seen') =>
                    if mem a explored then loop rest s' seen' explored acc
                    else loop rest s' seen' (a :: explored)
                           (match find a s' with Some an => acc ++ ancestors an | None => acc end)
                end
            end in
          match loop (ancestors n) s seen [] [] with
          | None => None
          | Some (s', seen', acc) => Some (update u (fun m => fold_left add_indirect acc m) s', seen')
          end
      end
  end.

Definition all_uids (s : store) : list uid := keys s ++ flat_map (fun kn => ancestors (snd kn)) s.

(* repair_tc nodes_to_fix nodes true *)
Definition repair (touched : list uid) (s : store) : tres store :=
  let fuel := Datatypes.S (Datatypes.S (length (all_uids s))) in
  let seen0 := filter (fun k => negb (mem k touched)) (keys s) in
  let r := fold_left (fun acc t => match acc with
                                   | None => None
                                   | Some (s, seen) => add_anc fuel t s seen
                                   end) touched (Some (s, seen0)) in
  match r with
  | None => TErr EFuel
  | Some (s', _) => if enforce_dag_for touched s' then TOk s' else TErr ECycle
  end.

(* the second pass of add/upsert: any entity with a touched ancestor becomes touched *)
Definition touch_descendants (touched : list uid) (s : store) : list uid :=
  fold_left (fun tch kn => if existsb (fun a => mem a tch) (ancestors (snd kn))
                           then add_set (fst kn) tch else tch) s touched.

Definition finish (compute : bool) (second_pass : bool) (touched : list uid) (s : store) : tres store :=
  if compute
  then repair (if second_pass then touch_descendants touched s else touched) s
  else enforce_tc_and_dag s.

(* compute_tc(map, true): the SCC-based closure is modelled by its contract *)
Definition i_from (compute : bool) (es : list ent) : tres store :=
  match insert_all [] es with
  | TErr e => TErr e
  | TOk s => if compute then recompute (graph_of s) else enforce_tc_and_dag s
  end.

Fixpoint i_add_loop (s : store) (touched : list uid) (es : list ent) : tres (store * list uid) :=
  match es with
  | [] => TOk (s, touched)
  | e :: t => match upd_noover s e with
              | TErr x => TErr x
              | TOk s' => i_add_loop s' (add_set (fst e) touched) t
              end
  end.
Definition i_add (compute : bool) (s : store) (es : list ent) : tres store :=
  match i_add_loop s [] es with
  | TErr e => TErr e
  | TOk (s', touched) => finish compute true touched s'
  end.

Definition strip (n : node) (u : uid) (old_anc : list uid) : node :=
  fold_left remove_indirect old_anc (remove_indirect n u).

Definition i_upsert_one (st : store * list uid) (e : ent) : store * list uid :=
  let '(s, touched) := st in
  let u := fst e in
  let '(s1, touched1) :=
    match find u s with
    | None => (s, touched)
    | Some old =>
        let old_anc := ancestors old in
        (map (fun kn => if negb (N.eqb (fst kn) u) && is_desc (snd kn) u
                        then (fst kn, strip (snd kn) u old_anc) else kn) s,
         fold_left (fun tch kn => if negb (N.eqb (fst kn) u) && is_desc (snd kn) u
                                  then add_set (fst kn) tch else tch) s touched)
    end in
  (upd_over s1 e, add_set u touched1).
Definition i_upsert (compute : bool) (s : store) (es : list ent) : tres store :=
  let '(s', touched) := fold_left i_upsert_one (latest_versions es) (s, []) in
  finish compute true touched s'.

Definition i_remove_one (st : store * list uid) (u : uid) : store * list uid :=
  let '(s, touched) := st in
  match find u s with
  | None => (s, touched)
  | Some rem =>
      let s1 := delete u s in
      (map (fun kn => if is_desc (snd kn) u
                      then (fst kn, fold_left remove_indirect (ancestors rem)
                                      (remove_parent (remove_indirect (snd kn) u) u))
                      else kn) s1,
       fold_left (fun tch kn => if is_desc (snd kn) u then add_set (fst kn) tch else tch) s1 touched)
  end.
Definition i_remove (compute : bool) (s : store) (us : list uid) : tres store :=
  let '(s', touched) := fold_left i_remove_one us (s, []) in
  finish compute false touched s'.

(* ------------------------------------------------------------------ queries *)
Definition q_is_ancestor_of (s : store) (a b : uid) : bool :=
  match find b s with Some n => N.eqb a b || is_desc n a | None => N.eqb a b end.
Definition q_in (s : store) (e a : uid) : bool :=
  N.eqb e a || match find e s with Some n => is_desc n a | None => false end.
Definition q_ancestors (s : store) (u : uid) : option (list uid) :=
  match find u s with Some n => Some (ancestors n) | None => None end.

(* ------------------------------------------------------------------ histories *)

(* incremental layer: the code as written *)
Definition i_op (s : store) (o : op) : tres store :=
  match o with
  | OFrom c es => i_from c es
  | OAdd c es => i_add c s es
  | OUpsert c es => i_upsert c s es
  | ORemove c us => i_remove c s us
  end.
(* spec layer: ComputeNow operations recompute; EnforceAlreadyComputed has no separate spec *)
Definition s_op (s : store) (o : op) : tres store :=
  if op_compute o then s_compute s o else i_op s o.
(* the store operations take the store by value; a caller that wants to continue after a failure
   keeps a copy: a failed operation leaves the history's store unchanged *)
Definition step (f : store -> op -> tres store) (s : store) (o : op) : store :=
  match f s o with TOk s' => s' | TErr _ => s end.
Definition run_ops (f : store -> op -> tres store) (ops : list op) : store := fold_left (step f) ops [].
