(* Entities.v — the entity store as the evaluator sees it (entities.rs: Entities::entity,
   Entity::{get, get_tag, is_descendant_of}).  `ancestors` is the full ancestor set
   (parents ∪ indirect_ancestors); how it is maintained is TC.v (property C04). *)
From Cedar Require Export Value.

Record edata := mkEdata {
  eattrs : list (str * value);
  etags : list (str * value);
  eancestors : list uid
}.

Definition entities := list (uid * edata).

Fixpoint find_entity (u : uid) (es : entities) : option edata :=
  match es with
  | [] => None
  | (u', d) :: es' => if uid_eqb u u' then Some d else find_entity u es'
  end.

Definition is_descendant_of (d : edata) (u : uid) : bool := existsb (uid_eqb u) (eancestors d).

Record request := mkRequest {
  rprincipal : uid;
  raction : uid;
  rresource : uid;
  rcontext : list (str * value)
}.
