(* EstRun.v — run commands of the `formats` family (drivers only). *)
From Coq Require Import String.
From Cedar Require Export Codec EstSet.
Open Scope string_scope.

Fixpoint d_json (s : sexp) : option json :=
  match s with
  | SL [SY "null"] => Some JNull
  | SL [SY "bool"; b] => option_map JBool (d_bool b)
  | SL [SY "int"; SI z] => Some (JInt z)
  | SL [SY "str"; SS x] => Some (JStr x)
  | SL [SY "arr"; SL items] =>
      option_map JArr
        ((fix dl (l : list sexp) : option (list json) :=
            match l with
            | [] => Some []
            | x :: l' => match d_json x, dl l' with Some e, Some es => Some (e :: es) | _, _ => None end
            end) items)
  | SL [SY "obj"; SL items] =>
      option_map JObj
        ((fix dr (l : list sexp) : option (list (str * json)) :=
            match l with
            | [] => Some []
            | SL [SS k; x] :: l' => match d_json x, dr l' with Some e, Some es => Some ((k, e) :: es) | _, _ => None end
            | _ => None
            end) items)
  | _ => None
  end.

Fixpoint e_json (j : json) : sexp :=
  match j with
  | JNull => SL [SY "null"]
  | JBool b => SL [SY "bool"; e_bool b]
  | JInt z => SL [SY "int"; SI z]
  | JStr s => SL [SY "str"; SS s]
  | JArr l => SL [SY "arr"; SL (map e_json l)]
  | JObj l => SL [SY "obj"; SL (map (fun kv => SL [SS (fst kv); e_json (snd kv)]) l)]
  end.

Definition e_var (v : var) : sexp :=
  SY (match v with Principal => "principal" | Action => "action" | Resource => "resource" | Context => "context" end).
Definition e_slot (s : slot) : sexp := SY (match s with SlotPrincipal => "principal" | SlotResource => "resource" end).
Definition e_unop (o : unop) : sexp := SY (match o with UNot => "not" | UNeg => "neg" | UIsEmpty => "isEmpty" end).
Definition e_binop (o : binop) : sexp :=
  SY (match o with
      | BEq => "eq" | BLess => "less" | BLessEq => "lesseq" | BAdd => "add" | BSub => "sub" | BMul => "mul"
      | BIn => "in" | BContains => "contains" | BContainsAll => "containsAll" | BContainsAny => "containsAny"
      | BGetTag => "getTag" | BHasTag => "hasTag" end).
Definition e_patelem (p : patelem) : sexp := match p with PStar => SY "star" | PChar c => SI (Z.of_N c) end.

Fixpoint e_expr (e : expr) : sexp :=
  match e with
  | Lit p => SL [SY "lit"; e_prim p]
  | Var v => SL [SY "var"; e_var v]
  | Slot s => SL [SY "slot"; e_slot s]
  | Unknown n _ => SL [SY "unknown"; SS n; SY "none"]
  | If a b c => SL [SY "if"; e_expr a; e_expr b; e_expr c]
  | And a b => SL [SY "and"; e_expr a; e_expr b]
  | Or a b => SL [SY "or"; e_expr a; e_expr b]
  | UnApp o a => SL [SY "unop"; e_unop o; e_expr a]
  | BinApp o a b => SL [SY "binop"; e_binop o; e_expr a; e_expr b]
  | ExtCall fn args => SL [SY "ext"; e_name fn; SL (map e_expr args)]
  | GetAttr a k => SL [SY "getattr"; e_expr a; SS k]
  | HasAttr a k => SL [SY "hasattr"; e_expr a; SS k]
  | Like a p => SL [SY "like"; e_expr a; SL (map e_patelem p)]
  | Is a t => SL [SY "is"; e_expr a; e_name t]
  | SetE l => SL [SY "set"; SL (map e_expr l)]
  | RecordE l => SL [SY "record"; SL (map (fun kv => SL [SS (fst kv); e_expr (snd kv)]) l)]
  end.

Definition e_opt {A} (f : A -> sexp) (o : option A) : sexp :=
  match o with None => SY "none" | Some x => SL [SY "some"; f x] end.

(* (est_of_body <opt expr>) : the `conditions` array produced from an AST body *)
Definition run_est_of_body (args : list sexp) : sexp :=
  match args with
  | [b] => match d_opt d_expr b with
           | Some body => e_json (ast_to_est_conditions body)
           | None => bad_input
           end
  | _ => bad_input
  end.

(* (est_conditions <json>) : the AST body denoted by a `conditions` array, or rejection *)
Definition run_est_conditions (args : list sexp) : sexp :=
  match args with
  | [j] => match d_json j with
           | Some j => e_res (e_opt e_expr) (est_to_ast_conditions j)
           | None => bad_input
           end
  | _ => bad_input
  end.

Definition e_eref (r : eref) : sexp := match r with RefSlot => SY "slot" | RefUid u => e_uid u end.
Definition e_prconstraint (c : prconstraint) : sexp :=
  match c with
  | CAny => SY "any"
  | CEq r => SL [SY "eq"; e_eref r]
  | CIn r => SL [SY "in"; e_eref r]
  | CIs t => SL [SY "is"; e_name t]
  | CIsIn t r => SL [SY "isin"; e_name t; e_eref r]
  end.
Definition e_aconstraint (c : aconstraint) : sexp :=
  match c with
  | AAny => SY "any"
  | AEq u => SL [SY "eq"; e_uid u]
  | AIn us => SL [SY "in"; e_list e_uid us]
  end.
Definition e_effect (e : effect) : sexp := SY (match e with Permit => "permit" | Forbid => "forbid" end).
Definition e_template (t : template) : sexp :=
  SL [SY "template"; SS (tid t); e_list (fun kv => SL [SS (fst kv); SS (snd kv)]) (tannot t);
      e_effect (teffect t); e_prconstraint (tprincipal t); e_aconstraint (taction t);
      e_prconstraint (tresource t); e_opt e_expr (tbody t)].

(* (template_to_est <template>) *)
Definition run_template_to_est (args : list sexp) : sexp :=
  match args with
  | [t] => match d_template t with Some t => e_json (template_to_est t) | None => bad_input end
  | _ => bad_input
  end.

(* (est_to_template <id> <json>) *)
Definition run_est_to_template (args : list sexp) : sexp :=
  match args with
  | [SS id; j] => match d_json j with
                  | Some j => e_res e_template (est_to_template id j)
                  | None => bad_input
                  end
  | _ => bad_input
  end.

Definition e_env (env : slotenv) : sexp := e_list (fun su => SL [e_slot (fst su); e_uid (snd su)]) env.
Definition e_pol (p : policy) : sexp :=
  SL [SY "policy"; e_template (ptemplate p); e_opt SS (plink p); e_env (penv p)].
Definition e_pset (s : pset) : sexp :=
  SL [SY "pset"; e_list (fun it => e_template (snd it)) (ps_templates s);
      e_list (fun it => SL [SS (fst it); e_pol (snd it)]) (ps_links s)].

(* (est_to_pset <json>) : the ast-level set built from a policy-set document *)
Definition run_est_to_pset (args : list sexp) : sexp :=
  match args with
  | [j] => match d_json j with Some j => e_res e_pset (est_to_pset j) | None => bad_input end
  | _ => bad_input
  end.

(* (set_rt <json>) : the document produced from the set built from the document *)
Definition run_set_rt (args : list sexp) : sexp :=
  match args with
  | [j] => match d_json j with
           | Some j => e_res e_json (do s <- est_to_pset j; Ok (estset_to_est (pset_to_estset s)))
           | None => bad_input
           end
  | _ => bad_input
  end.

Definition run_formats (cmd : string) (args : list sexp) : option sexp :=
  if sym_eqb cmd "est_of_body" then Some (run_est_of_body args)
  else if sym_eqb cmd "est_conditions" then Some (run_est_conditions args)
  else if sym_eqb cmd "template_to_est" then Some (run_template_to_est args)
  else if sym_eqb cmd "est_to_template" then Some (run_est_to_template args)
  else if sym_eqb cmd "est_to_pset" then Some (run_est_to_pset args)
  else if sym_eqb cmd "set_rt" then Some (run_set_rt args)
  else None.
