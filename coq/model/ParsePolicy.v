(* ParsePolicy.v — C05 stage 4: policies / templates / policy sets on tokens.
   Rust counterparts: grammar.lalrpop (Policy, Annotation, VariableDef, Cond),
   cst_to_ast.rs: to_policy_template, get_ast_annotations / to_kv_pair (duplicate keys rejected, a missing
   value is the empty string, BTreeMap order), to_effect, extract_scope (exactly three scope elements),
   to_principal_or_resource_constraint, to_action_constraint (+ contains_only_action_types),
   Cond::to_expr (unless = !e, empty body rejected), slots rejected in conditions,
   construct_template_policy (right fold of the conditions through the literal-folding `and`);
   cst_to_ast/to_ref_or_refs.rs: the right-hand side of a scope constraint is an entity uid, the matching
   slot, or (action in) a list of entity uids, possibly parenthesised, and nothing else.
   Every error is None. *)
From Coq Require Import String.
From Cedar Require Export Parse.
Open Scope N_scope.

Fixpoint has_slot (e : expr) : bool :=
  match e with
  | Slot _ => true
  | Lit _ | Var _ | Unknown _ _ => false
  | If c t f => has_slot c || has_slot t || has_slot f
  | And a b | Or a b | BinApp _ a b => has_slot a || has_slot b
  | UnApp _ a | GetAttr a _ | HasAttr a _ | Like a _ | Is a _ => has_slot a
  | ExtCall _ args | SetE args => existsb has_slot args
  | RecordE items => existsb (fun kv => has_slot (snd kv)) items
  end.

(* a single entity uid, possibly parenthesised (SingleEntity) *)
Fixpoint parse_ref (n : nat) (ts : list token) : option (uid * list token) :=
  match n with
  | O => None
  | S k =>
      match ts with
      | TLParen :: ts' => match parse_ref k ts' with Some (u, TRParen :: r) => Some (u, r) | _ => None end
      | TIdent s :: ts' =>
          let '(p, e, r) := parse_path ts' in
          match e with
          | PEUid raw =>
              if forallb unreserved (s :: p)
              then option_map (fun i => (mkUid (s :: p) i, r)) (unescape_opt raw) else None
          | _ => None
          end
      | _ => None
      end
  end.

(* an entity uid or the matching slot (EntityReference) *)
Fixpoint parse_ref_or_slot (n : nat) (slotname : string) (ts : list token) : option (eref * list token) :=
  match n with
  | O => None
  | S k =>
      match ts with
      | TLParen :: ts' =>
          match parse_ref_or_slot k slotname ts' with Some (u, TRParen :: r) => Some (u, r) | _ => None end
      | TSlot s :: ts' => if kw slotname s then Some (RefSlot, ts') else None
      | _ => option_map (fun ur => (RefUid (fst ur), snd ur)) (parse_ref n ts)
      end
  end.

(* Comma<single ref> up to `]` *)
Fixpoint refs_loop (n : nat) (ts : list token) : option (list uid * list token) :=
  match ts with
  | [] => None
  | TRBrack :: r => Some ([], r)
  | _ =>
      match n with
      | O => None
      | S k =>
          match parse_ref n ts with
          | Some (u, TComma :: r) => match refs_loop k r with Some (us, r') => Some (u :: us, r') | None => None end
          | Some (u, TRBrack :: r) => Some ([u], r)
          | _ => None
          end
      end
  end.

(* one uid or a list of uids (OneOrMultipleRefs) *)
Fixpoint parse_refs (n : nat) (ts : list token) : option (list uid * list token) :=
  match n with
  | O => None
  | S k =>
      match ts with
      | TLParen :: ts' => match parse_refs k ts' with Some (us, TRParen :: r) => Some (us, r) | _ => None end
      | TLBrack :: ts' => refs_loop n ts'
      | _ => option_map (fun ur => ([fst ur], snd ur)) (parse_ref n ts)
      end
  end.

Definition is_action_uid (u : uid) : bool :=
  match rev (uty u) with b :: _ => kw "Action" b | [] => false end.

Definition ty_of (r : eos) : option name :=
  match r with EVar v => Some [show_var v] | EName n => Some n | _ => None end.

Section Scope.
  Variable fuel : nat.

  (* VariableDef of principal / resource *)
  Definition parse_pr_scope (varname : string) (ts : list token) : option (prconstraint * list token) :=
    match ts with
    | TIdent s :: ts1 =>
        if kw varname s then
          match ts1 with
          | TColon :: _ => None                                   (* TypeConstraints *)
          | _ =>
              let is_part :=
                match ts1 with
                | TIdent s2 :: ts2 =>
                    if kw "is" s2 then
                      match parse_add (parse_expr fuel) fuel ts2 with
                      | Some (rt, ts3) => match ty_of rt with Some n => Some (Some n, ts3) | None => None end
                      | None => None
                      end
                    else Some (None, ts1)
                | _ => Some (None, ts1)
                end in
              match is_part with
              | None => None
              | Some (ty, ts3) =>
                  match ts3 with
                  | t :: ts4 =>
                      match relop_of t with
                      | Some REq =>
                          match ty, parse_ref_or_slot fuel varname ts4 with
                          | None, Some (r, ts5) => Some (CEq r, ts5)
                          | _, _ => None
                          end
                      | Some RIn =>
                          match parse_ref_or_slot fuel varname ts4 with
                          | Some (r, ts5) => Some (match ty with None => CIn r | Some n => CIsIn n r end, ts5)
                          | None => None
                          end
                      | Some _ => None
                      | None => Some (match ty with None => CAny | Some n => CIs n end, ts3)
                      end
                  | [] => Some (match ty with None => CAny | Some n => CIs n end, ts3)
                  end
              end
          end
        else None
    | _ => None
    end.

  Definition parse_action_scope (ts : list token) : option (aconstraint * list token) :=
    match ts with
    | TIdent s :: ts1 =>
        if kw "action" s then
          match ts1 with
          | TColon :: _ => None
          | t :: ts2 =>
              match relop_of t with
              | Some REq =>
                  match parse_ref fuel ts2 with
                  | Some (u, r) => if is_action_uid u then Some (AEq u, r) else None
                  | None => None
                  end
              | Some RIn =>
                  match parse_refs fuel ts2 with
                  | Some (us, r) => if forallb is_action_uid us then Some (AIn us, r) else None
                  | None => None
                  end
              | Some _ => None
              | None =>
                  match t with
                  | TIdent s2 => if kw "is" s2 then None else Some (AAny, ts1)
                  | _ => Some (AAny, ts1)
                  end
              end
          | [] => Some (AAny, ts1)
          end
        else None
    | _ => None
    end.

  (* Cond* up to `;` : (when|unless) { Expr } *)
  Fixpoint conds_loop (n : nat) (ts : list token) : option (list expr * list token) :=
    match ts with
    | TSemi :: r => Some ([], r)
    | TIdent w :: TLBrace :: ts1 =>
        match n with
        | O => None
        | S k =>
            let neg := if kw "when" w then Some false else if kw "unless" w then Some true else None in
            match neg, parse_expr fuel ts1 with
            | Some ng, Some (r, TRBrace :: ts2) =>
                match into_expr r with
                | Some e =>
                    if has_slot e then None
                    else match conds_loop k ts2 with
                         | Some (es, r') => Some ((if ng then UnApp UNot e else e) :: es, r')
                         | None => None
                         end
                | None => None
                end
            | _, _ => None
            end
        end
    | _ => None
    end.
End Scope.

(* Annotation* *)
Fixpoint ann_loop (ts : list token) : option (list (str * str) * list token) :=
  match ts with
  | TAt :: TIdent k :: TLParen :: TStr raw :: TRParen :: r =>
      match unescape_opt raw, ann_loop r with
      | Some v, Some (kvs, r') => Some ((k, v) :: kvs, r')
      | _, _ => None
      end
  | TAt :: TIdent k :: TLParen :: _ => None
  | TAt :: TIdent k :: r =>
      match ann_loop r with Some (kvs, r') => Some ((k, []) :: kvs, r') | None => None end
  | TAt :: _ => None
  | _ => Some ([], ts)
  end.

Fixpoint fold_conds (es : list expr) : option expr :=
  match es with
  | [] => None
  | [e] => Some e
  | e :: es' => match fold_conds es' with Some acc => Some (mk_and e acc) | None => Some e end
  end.

(* one policy; returns the tokens after its `;` *)
Definition parse_policy (fuel : nat) (ts : list token) : option (template * list token) :=
  match ann_loop ts with
  | Some (anns, TIdent eff :: TLParen :: ts1) =>
      let effect := if kw "permit" eff then Some Permit else if kw "forbid" eff then Some Forbid else None in
      match effect, parse_pr_scope fuel "principal" ts1 with
      | Some ef, Some (pc, TComma :: ts2) =>
          match parse_action_scope fuel ts2 with
          | Some (ac, TComma :: ts3) =>
              match parse_pr_scope fuel "resource" ts3 with
              | Some (rc, ts4) =>
                  let ts5 := match ts4 with TComma :: r => r | _ => ts4 end in
                  match ts5 with
                  | TRParen :: ts6 =>
                      match conds_loop fuel fuel ts6 with
                      | Some (conds, rest) =>
                          if keys_nodup anns
                          then Some (mkTemplate [] (sort_assoc anns) ef pc ac rc (fold_conds conds), rest)
                          else None
                      | None => None
                      end
                  | _ => None
                  end
              | None => None
              end
          | _ => None
          end
      | _, _ => None
      end
  | _ => None
  end.

Definition parse_policy_toks (ts : list token) : option template :=
  match parse_policy (S (length ts)) ts with Some (t, []) => Some t | _ => None end.

Fixpoint parse_policies (n : nat) (fuel : nat) (ts : list token) : option (list template) :=
  match ts with
  | [] => Some []
  | _ => match n with
         | O => None
         | S k => match parse_policy fuel ts with
                  | Some (t, r) => option_map (cons t) (parse_policies k fuel r)
                  | None => None
                  end
         end
  end.
Definition parse_policyset_toks (ts : list token) : option (list template) :=
  parse_policies (S (length ts)) (S (length ts)) ts.
