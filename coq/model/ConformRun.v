(* ConformRun.v — S-expression codec for validator types / resolved schemas and the `conform`
   command family (drivers only; no theorem depends on these).

   ty     : never | (bool any|true|false) | long | string | (set none) | (set (some ty))
          | (entity any) | (entity (lub (name ...))) | (record ((k ty req) ...) open) | (ext name)
   schema : (schema ((name attrs open tags descendants enum) ...)
                    ((uid principals resources context descendants) ...))
            attrs = ((k ty req) ...), tags = none | (some ty), enum = none | (some (id ...))
   commands:
     (conform request_new S (request p a r ctx))      (conform context_validate S uid ctx)
     (conform context_from_json S uid ctx)            (conform entity_from_json S entity)
     (conform entities_from_entities S (entity ...))  (conform entities_from_json S (entity ...))
     (conform entities_add S (entity ...))            (conform entities_upsert S (entity ...))
     (conform entities_add_from_json S (entity ...))
     (conform value_ty ty value) (conform value_st ty value)   -- the two value checkers
   answers: (accept) | (reject Kind) | unmodelled | bad_input *)
From Coq Require Import String.
From Cedar Require Export Codec Conform.
Open Scope string_scope.

Fixpoint d_ty (s : sexp) : option ty :=
  match s with
  | SY t =>
      if sym_eqb t "never" then Some TNever
      else if sym_eqb t "long" then Some TLong
      else if sym_eqb t "string" then Some TString
      else None
  | SL [SY "bool"; SY b] =>
      if sym_eqb b "any" then Some (TBool BAny)
      else if sym_eqb b "true" then Some (TBool BTrue)
      else if sym_eqb b "false" then Some (TBool BFalse) else None
  | SL [SY "set"; SY "none"] => Some (TSet None)
  | SL [SY "set"; SL [SY "some"; e]] => option_map (fun x => TSet (Some x)) (d_ty e)
  | SL [SY "entity"; SY "any"] => Some (TEntity AnyEntity)
  | SL [SY "entity"; SL [SY "lub"; ts]] => option_map (fun x => TEntity (ELub x)) (d_list d_name ts)
  | SL [SY "ext"; n] => option_map TExt (d_name n)
  | SL [SY "record"; SL items; o] =>
      match (fix dr (l : list sexp) : option attrs_ty :=
               match l with
               | [] => Some []
               | SL [SS k; t; r] :: l' =>
                   match d_ty t, d_bool r, dr l' with
                   | Some t, Some r, Some rest => Some ((k, (t, r)) :: rest)
                   | _, _, _ => None
                   end
               | _ => None
               end) items, d_bool o with
      | Some a, Some o => Some (TRecord (sort_assoc a) o)
      | _, _ => None
      end
  | _ => None
  end.

Definition d_attrs_ty (s : sexp) : option attrs_ty :=
  match d_ty (SL [SY "record"; s; SY "false"]) with Some (TRecord a _) => Some a | _ => None end.

Definition d_etype_entry (s : sexp) : option (etype * etype_info) :=
  match s with
  | SL [n; attrs; o; tags; desc; en] =>
      match d_name n, d_attrs_ty attrs, d_bool o, d_opt d_ty tags, d_list d_name desc, d_opt (d_list d_str) en with
      | Some n, Some a, Some o, Some t, Some d, Some e => Some (n, mkEtypeInfo a o t d e)
      | _, _, _, _, _, _ => None
      end
  | _ => None
  end.

Definition d_action_entry (s : sexp) : option (uid * action_info) :=
  match s with
  | SL [u; ps; rs; c; desc] =>
      match d_uid u, d_list d_name ps, d_list d_name rs, d_ty c, d_list d_uid desc with
      | Some u, Some ps, Some rs, Some c, Some d => Some (u, mkActionInfo ps rs c d)
      | _, _, _, _, _ => None
      end
  | _ => None
  end.

Definition d_schema (s : sexp) : option schema :=
  match s with
  | SL [SY "schema"; ets; acts] =>
      match d_list d_etype_entry ets, d_list d_action_entry acts with
      | Some e, Some a => Some (mkSchema e a)
      | _, _ => None
      end
  | _ => None
  end.

Definition e_cerr (e : cerr) : sexp :=
  SY (match e with
      | CUnexpectedEntityType => "UnexpectedEntityType" | CInvalidEnumEntity => "InvalidEnumEntity"
      | CMissingRequiredAttr => "MissingRequiredEntityAttr" | CUnexpectedAttr => "UnexpectedEntityAttr"
      | CTypeMismatch => "TypeMismatch" | CInvalidAncestorType => "InvalidAncestorType"
      | CUnexpectedTag => "UnexpectedEntityTag" | CUndeclaredAction => "UndeclaredAction"
      | CActionMismatch => "ActionDeclarationMismatch"
      | CUndeclaredPrincipalType => "UndeclaredPrincipalType"
      | CUndeclaredResourceType => "UndeclaredResourceType"
      | CInvalidPrincipalType => "InvalidPrincipalType" | CInvalidResourceType => "InvalidResourceType"
      | CInvalidContext => "InvalidContext" | CJsonParse => "JsonParse" | CSchemaType => "SchemaType"
      end).

Definition e_verdict (v : verdict) : sexp :=
  match v with
  | Accept => SL [SY "accept"]
  | Reject e => SL [SY "reject"; e_cerr e]
  | Unmodelled => SY "unmodelled"
  end.

Definition run_conform_ep (ep : string) (sch : schema) (args : list sexp) : sexp :=
  match args with
  | [x] =>
      if sym_eqb ep "request_new" then
        match d_request x with Some q => e_verdict (ep_request_new sch q) | None => bad_input end
      else if sym_eqb ep "entity_from_json" then
        match d_entity x with Some e => e_verdict (ep_entity_from_json sch e) | None => bad_input end
      else
        match d_entities x with
        | None => bad_input
        | Some es =>
            if sym_eqb ep "entities_from_entities" then e_verdict (ep_from_entities sch es)
            else if sym_eqb ep "entities_from_json" then e_verdict (ep_entities_from_json sch es)
            else if sym_eqb ep "entities_add" then e_verdict (ep_add_entities sch es)
            else if sym_eqb ep "entities_upsert" then e_verdict (ep_upsert_entities sch es)
            else if sym_eqb ep "entities_add_from_json" then e_verdict (ep_add_entities_from_json sch es)
            else bad_input
        end
  | [a; c] =>
      match d_uid a, d_attrs c with
      | Some a, Some c =>
          if sym_eqb ep "context_validate" then e_verdict (ep_context_validate sch a c)
          else if sym_eqb ep "context_from_json" then e_verdict (ep_context_from_json sch a c)
          else bad_input
      | _, _ => bad_input
      end
  | _ => bad_input
  end.

Definition run_conform (cmd : string) (args : list sexp) : option sexp :=
  if sym_eqb cmd "conform" then
    Some (match args with
          | [SY "value_ty"; t; v] =>
              match d_ty t, d_value v with
              | Some t, Some v => e_bool (tc_value_ty v t)
              | _, _ => bad_input
              end
          | [SY "value_st"; t; v] =>
              match d_ty t, d_value v with
              | Some t, Some v =>
                  match to_sty t with Some st => e_bool (tc_value_st v st) | None => SY "not_representable" end
              | _, _ => bad_input
              end
          | [SY "schema_wf"; s] =>
              match d_schema s with
              | Some sch => e_bool (schema_wf sch)
              | None => bad_input
              end
          | SY ep :: s :: rest =>
              match d_schema s with
              | Some sch => run_conform_ep ep sch rest
              | None => bad_input
              end
          | _ => bad_input
          end)
  else None.
