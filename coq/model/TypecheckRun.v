(* TypecheckRun.v — run command of the typechecker model (drivers only; no theorem depends on it).
     (typecheck <strict|permissive> <schema> <reqenv> <expr>)
        -> (res <lits_ok> (success <ty>) | (irrelevant) | (fail))   |  unmodelled  |  bad_input
   <schema> as in ConformRun.d_schema, <reqenv> as in TExpr.d_reqenv, <expr> as in Codec.d_expr. *)
From Coq Require Import String.
From Cedar Require Export Typecheck TExprRun.
Open Scope string_scope.

Fixpoint e_ty (t : ty) : sexp :=
  match t with
  | TNever => SY "never"
  | TBool BAny => SL [SY "bool"; SY "any"]
  | TBool BTrue => SL [SY "bool"; SY "true"]
  | TBool BFalse => SL [SY "bool"; SY "false"]
  | TLong => SY "long"
  | TString => SY "string"
  | TSet None => SL [SY "set"; SY "none"]
  | TSet (Some e) => SL [SY "set"; SL [SY "some"; e_ty e]]
  | TEntity AnyEntity => SL [SY "entity"; SY "any"]
  | TEntity (ELub ts) => SL [SY "entity"; SL [SY "lub"; SL (map e_name ts)]]
  | TRecord attrs open =>
      SL [SY "record";
          SL ((fix go (l : attrs_ty) : list sexp :=
                 match l with
                 | [] => []
                 | (k, (a, r)) :: l' => SL [SS k; e_ty a; e_bool r] :: go l'
                 end) attrs);
          e_bool open]
  | TExt n => SL [SY "ext"; e_name n]
  end.

Definition d_vmode (s : sexp) : option vmode :=
  match s with
  | SY x => if sym_eqb x "strict" then Some Strict else if sym_eqb x "permissive" then Some Permissive else None
  | _ => None
  end.

Definition run_typecheck (cmd : string) (args : list sexp) : option sexp :=
  if sym_eqb cmd "typecheck" then
    Some (match args with
          | [m; s; r; e] =>
              match d_vmode m, d_schema s, d_reqenv r, d_expr e with
              | Some m, Some sch, Some env, Some e =>
                  if modelled_expr e then
                    SL [SY "res"; e_bool (lits_ok sch e);
                        match tc_env m sch env e with
                        | EnvSuccess t => SL [SY "success"; e_ty t]
                        | EnvIrrelevant => SL [SY "irrelevant"]
                        | EnvFail => SL [SY "fail"]
                        end]
                  else SY "unmodelled"
              | _, _, _, _ => bad_input
              end
          | _ => bad_input
          end)
  else None.
