(* TypecheckRun.v — run command of the typechecker model (drivers only; no theorem depends on it).
     (typecheck <strict|permissive> <schema> <reqenv> <expr>)
        -> (res <lits_ok> (success <ty>) | (irrelevant) | (fail) <annotated tree>)   |  unmodelled  |  bad_input
   <schema> as in ConformRun.d_schema, <reqenv> as in TExpr.d_reqenv, <expr> as in Codec.d_expr. *)
From Coq Require Import String.
From Cedar Require Export Typecheck TExprRun.
Open Scope string_scope.

Fixpoint e_ty (t : ty) : sexp :=
  match t with
  | TNever => SY "never"
  | TBool BAny => SL [SY "bool"; SY "any"]
  | TBool BTrue => SL [SY "bool"; SY "true"]
  | TBool BFalse => SL [SY "bool"; SY "false"]
  | TLong => SY "long"
  | TString => SY "string"
  | TSet None => SL [SY "set"; SY "none"]
  | TSet (Some e) => SL [SY "set"; SL [SY "some"; e_ty e]]
  | TEntity AnyEntity => SL [SY "entity"; SY "any"]
  | TEntity (ELub ts) => SL [SY "entity"; SL [SY "lub"; SL (map e_name ts)]]
  | TRecord attrs open =>
      SL [SY "record";
          SL ((fix go (l : attrs_ty) : list sexp :=
                 match l with
                 | [] => []
                 | (k, (a, r)) :: l' => SL [SS k; e_ty a; e_bool r] :: go l'
                 end) attrs);
          e_bool open]
  | TExt n => SL [SY "ext"; e_name n]
  end.

Definition d_vmode (s : sexp) : option vmode :=
  match s with
  | SY x => if sym_eqb x "strict" then Some Strict else if sym_eqb x "permissive" then Some Permissive else None
  | _ => None
  end.

(* the type the model assigns to EVERY sub-expression that the typechecker visits, in the shape of the
   expression: (kind <ty|none> (children...)); a child the typechecker does not visit (skipped operand of a
   short-circuited && / ||, untaken branch of an `if` with a singleton-typed test) is the symbol `skipped`.
   Children are typed under the capabilities `tc` types them under. *)
Section Annot.
  Variable m : vmode.
  Variable sch : schema.
  Variable env : reqenv.
  Definition oty_sx (r : option (ty * caps)) : sexp := match r with Some (t, _) => e_ty t | None => SY "none" end.
  Definition skipped : sexp := SY "skipped".
  Definition node (k : string) (cs : caps) (e : expr) (children : list sexp) : sexp :=
    SL [SY k; oty_sx (tc m sch env cs e); SL children].
  Fixpoint annot (cs : caps) (e : expr) {struct e} : sexp :=
    match e with
    | Lit _ => node "lit" cs e []
    | Var _ => node "var" cs e []
    | Slot _ => node "slot" cs e []
    | Unknown _ _ => node "unknown" cs e []
    | If c x y =>
        node "if" cs e
          (match expect (tc m sch env cs c) [TBool BAny] with
           | Some (TBool BTrue, cc) => [annot cs c; annot (caps_union cs cc) x; skipped]
           | Some (TBool BFalse, _) => [annot cs c; skipped; annot cs y]
           | Some (_, cc) => [annot cs c; annot (caps_union cs cc) x; annot cs y]
           | None => [annot cs c; skipped; skipped]
           end)
    | And a b =>
        node "and" cs e
          (match expect (tc m sch env cs a) [TBool BAny] with
           | Some (TBool BFalse, _) => [annot cs a; skipped]
           | Some (_, ca) => [annot cs a; annot (caps_union cs ca) b]
           | None => [annot cs a; skipped]
           end)
    | Or a b =>
        node "or" cs e
          (match expect (tc m sch env cs a) [TBool BAny] with
           | Some (TBool BTrue, _) => [annot cs a; skipped]
           | Some (_, _) => [annot cs a; annot cs b]
           | None => [annot cs a; skipped]
           end)
    | UnApp _ a => node "unop" cs e [annot cs a]
    | BinApp _ a b => node "binop" cs e [annot cs a; annot cs b]
    | ExtCall _ args => node "ext" cs e (map (annot cs) args)
    | GetAttr x _ => node "getattr" cs e [annot cs x]
    | HasAttr x _ => node "hasattr" cs e [annot cs x]
    | Like x _ => node "like" cs e [annot cs x]
    | Is x _ => node "is" cs e [annot cs x]
    | SetE items => node "set" cs e (map (annot cs) items)
    | RecordE items => node "record" cs e (map (fun kv => annot cs (snd kv)) items)
    end.
End Annot.

Definition run_typecheck (cmd : string) (args : list sexp) : option sexp :=
  if sym_eqb cmd "typecheck" then
    Some (match args with
          | [m; s; r; e] =>
              match d_vmode m, d_schema s, d_reqenv r, d_expr e with
              | Some m, Some sch, Some env, Some e =>
                  if modelled_expr e then
                    SL [SY "res"; e_bool (lits_ok sch e);
                        match tc_env m sch env e with
                        | EnvSuccess t => SL [SY "success"; e_ty t]
                        | EnvIrrelevant => SL [SY "irrelevant"]
                        | EnvFail => SL [SY "fail"]
                        end;
                        annot m sch env [] e]
                  else SY "unmodelled"
              | _, _, _, _ => bad_input
              end
          | _ => bad_input
          end)
  else None.
