(* Tokens.v — C05: the terminals of grammar.lalrpop.
   Every word-like terminal (IDENTIFIER and the keyword literals true false if permit forbid when unless
   in has like is then else principal action resource context) is [TIdent] with its spelling: the
   grammar accepts all of them wherever AnyIdent is allowed and the parser model tests the spelling
   where the grammar names a keyword.  ?principal / ?resource / OTHER_SLOT are [TSlot] with the name
   after the question mark.  STRINGLIT carries the raw text between the quotes. *)
From Cedar Require Export Base.
Open Scope N_scope.

Inductive token :=
| TIdent (s : str)
| TNum (n : N)
| TStr (raw : str)
| TSlot (s : str)
| TAt | TDot | TComma | TSemi | TColon | TColon2
| TLParen | TRParen | TLBrace | TRBrace | TLBrack | TRBrack
| TEqEq | TNeq | TLt | TLe | TGe | TGt
| TOrOr | TAndAnd | TPlus | TMinus | TStar | TSlash | TPercent | TBang | TEq.

Definition token_eqb (a b : token) : bool :=
  match a, b with
  | TIdent x, TIdent y | TStr x, TStr y | TSlot x, TSlot y => str_eqb x y
  | TNum x, TNum y => x =? y
  | TAt, TAt | TDot, TDot | TComma, TComma | TSemi, TSemi | TColon, TColon | TColon2, TColon2
  | TLParen, TLParen | TRParen, TRParen | TLBrace, TLBrace | TRBrace, TRBrace | TLBrack, TLBrack
  | TRBrack, TRBrack | TEqEq, TEqEq | TNeq, TNeq | TLt, TLt | TLe, TLe | TGe, TGe | TGt, TGt
  | TOrOr, TOrOr | TAndAnd, TAndAnd | TPlus, TPlus | TMinus, TMinus | TStar, TStar | TSlash, TSlash
  | TPercent, TPercent | TBang, TBang | TEq, TEq => true
  | _, _ => false
  end.
Fixpoint tokens_eqb (a b : list token) : bool :=
  match a, b with
  | [], [] => true
  | x :: a', y :: b' => token_eqb x y && tokens_eqb a' b'
  | _, _ => false
  end.
