(* EntJsonRun.v — S-expression codec and run commands of the entity/context JSON model (C10).
   json : null | (b true|false) | (i z) | (s str) | (a (json ...)) | (o ((key json) ...))
   rval : (b bool) | (l z) | (s str) | (e type id) | (set (rval ...)) | (rec ((key rval) ...)) | (x fn (rval ...))
   sty  : bool | long | string | emptyset | (set sty) | (record ((key sty req) ...) open) | (entity str) | (ext str)
   commands:
     (entjson to_json rval)               -> (ok json) | (err E)
     (entjson ctx_to_json ((key rval)..)) -> (ok json) | (err E)
     (entjson parse none|(some sty) json) -> (ok rval) | (err E)
     (entjson ctx_parse none|(some sty) json) -> (ok ((key rval) ...)) | (err E)
     (entjson ent_to_json ENT)            -> (ok json) | (err E)
     (entjson ent_parse SCHEMA json)      -> (ok ENT) | (err E)
     (entjson store_to_json (ENT ...))    -> (ok json) | (err E)
     (entjson store_parse SCHEMA (ACTION-ENT ...) json) -> (ok (ENT ...)) | (err E) *)
From Coq Require Import String.
From Cedar Require Export Sexp EntJson.
Open Scope string_scope.

Fixpoint d_json (s : sexp) : option json :=
  match s with
  | SY "null" => Some JNull
  | SL [SY "b"; b] => option_map JBool (d_bool b)
  | SL [SY "i"; SI z] => Some (JInt z)
  | SL [SY "s"; SS x] => Some (JStr x)
  | SL [SY "a"; SL items] =>
      option_map JArr ((fix go (l : list sexp) : option (list json) :=
                          match l with
                          | [] => Some []
                          | x :: l' => match d_json x, go l' with
                                       | Some j, Some r => Some (j :: r)
                                       | _, _ => None
                                       end
                          end) items)
  | SL [SY "o"; SL items] =>
      option_map JObj ((fix go (l : list sexp) : option (list (str * json)) :=
                          match l with
                          | [] => Some []
                          | SL [SS k; x] :: l' => match d_json x, go l' with
                                                  | Some j, Some r => Some ((k, j) :: r)
                                                  | _, _ => None
                                                  end
                          | _ => None
                          end) items)
  | _ => None
  end.

Fixpoint e_json (j : json) : sexp :=
  match j with
  | JNull => SY "null"
  | JBool b => SL [SY "b"; e_bool b]
  | JInt z => SL [SY "i"; SI z]
  | JStr s => SL [SY "s"; SS s]
  | JArr l => SL [SY "a"; SL (map e_json l)]
  | JObj l => SL [SY "o"; SL ((fix go (l : list (str * json)) : list sexp :=
                                 match l with
                                 | [] => []
                                 | (k, x) :: l' => SL [SS k; e_json x] :: go l'
                                 end) l)]
  end.

Fixpoint d_rval (s : sexp) : option rval :=
  match s with
  | SL [SY "b"; b] => option_map RBool (d_bool b)
  | SL [SY "l"; SI z] => Some (RLong z)
  | SL [SY "s"; SS x] => Some (RString x)
  | SL [SY "e"; SS t; SS i] => Some (REntity (mkJuid t i))
  | SL [SY "set"; SL items] =>
      option_map RSet ((fix go (l : list sexp) : option (list rval) :=
                          match l with
                          | [] => Some []
                          | x :: l' => match d_rval x, go l' with
                                       | Some j, Some r => Some (j :: r)
                                       | _, _ => None
                                       end
                          end) items)
  | SL [SY "rec"; SL items] =>
      option_map RRecord ((fix go (l : list sexp) : option (list (str * rval)) :=
                             match l with
                             | [] => Some []
                             | SL [SS k; x] :: l' => match d_rval x, go l' with
                                                     | Some j, Some r => Some ((k, j) :: r)
                                                     | _, _ => None
                                                     end
                             | _ => None
                             end) items)
  | SL [SY "x"; SS f; SL items] =>
      option_map (RCall f) ((fix go (l : list sexp) : option (list rval) :=
                               match l with
                               | [] => Some []
                               | x :: l' => match d_rval x, go l' with
                                            | Some j, Some r => Some (j :: r)
                                            | _, _ => None
                                            end
                               end) items)
  | _ => None
  end.

Fixpoint e_rval (v : rval) : sexp :=
  match v with
  | RBool b => SL [SY "b"; e_bool b]
  | RLong z => SL [SY "l"; SI z]
  | RString s => SL [SY "s"; SS s]
  | REntity u => SL [SY "e"; SS (jty u); SS (jid u)]
  | RSet l => SL [SY "set"; SL (map e_rval l)]
  | RRecord l => SL [SY "rec"; SL ((fix go (l : list (str * rval)) : list sexp :=
                                      match l with
                                      | [] => []
                                      | (k, x) :: l' => SL [SS k; e_rval x] :: go l'
                                      end) l)]
  | RCall f args => SL [SY "x"; SS f; SL (map e_rval args)]
  end.

Fixpoint d_sty (s : sexp) : option sty :=
  match s with
  | SY "bool" => Some STBool
  | SY "long" => Some STLong
  | SY "string" => Some STString
  | SY "emptyset" => Some STEmptySet
  | SL [SY "set"; e] => option_map STSet (d_sty e)
  | SL [SY "entity"; SS t] => Some (STEntity t)
  | SL [SY "ext"; SS n] => Some (STExt n)
  | SL [SY "record"; SL items; o] =>
      match (fix go (l : list sexp) : option (list (str * (sty * bool))) :=
               match l with
               | [] => Some []
               | SL [SS k; t; r] :: l' =>
                   match d_sty t, d_bool r, go l' with
                   | Some t, Some r, Some rest => Some ((k, (t, r)) :: rest)
                   | _, _, _ => None
                   end
               | _ => None
               end) items, d_bool o with
      | Some a, Some o => Some (STRecord a o)
      | _, _ => None
      end
  | _ => None
  end.

Definition e_jerr (e : jerr) : sexp :=
  SY (match e with
      | ESerde => "Serde" | EParseEscape => "ParseEscape" | EExprTag => "ExprTag" | ENull => "Null"
      | EExpectedEntityRef => "ExpectedLiteralEntityRef" | EMissingImplied => "MissingImpliedConstructor"
      | EArgCount => "IncorrectNumOfArguments" | EFnLookup => "FailedExtensionFunctionLookup"
      | EUnexpectedRecordAttr => "UnexpectedRecordAttr" | EMissingRequiredRecordAttr => "MissingRequiredRecordAttr"
      | ETypeMismatch => "TypeMismatch" | EReservedKey => "ReservedKey" | ECall0 => "Call0"
      | ENotARecord => "NotARecord" | EEval => "Evaluation"
      end).

Definition e_jr {A} (f : A -> sexp) (r : jr A) : sexp :=
  match r with JOk a => SL [SY "ok"; f a] | JErr e => SL [SY "err"; e_jerr e] end.

Definition d_pairs (s : sexp) : option (list (str * rval)) :=
  match d_rval (SL [SY "rec"; s]) with Some (RRecord l) => Some l | _ => None end.
Definition e_pairs (l : list (str * rval)) : sexp :=
  match e_rval (RRecord l) with SL [_; x] => x | x => x end.

Definition d_oty (s : sexp) : option (option sty) :=
  match s with
  | SY "none" => Some None
  | SL [SY "some"; t] => option_map Some (d_sty t)
  | _ => None
  end.

(* entity : (ent TY ID ((key rval) ...) ((key rval) ...) ((TY ID) ...))
   schema : none | (some ((TY ((key sty req) ...) open none|(some sty)) ...)) *)
Definition d_juid2 (s : sexp) : option juid :=
  match s with SL [SS t; SS i] => Some (mkJuid t i) | _ => None end.
Definition e_juid2 (u : juid) : sexp := SL [SS (jty u); SS (jid u)].

Definition d_entity (s : sexp) : option jentity :=
  match s with
  | SL [SY "ent"; SS t; SS i; a; g; anc] =>
      match d_pairs a, d_pairs g, d_list d_juid2 anc with
      | Some a, Some g, Some anc => Some (mkJentity (mkJuid t i) a g anc)
      | _, _, _ => None
      end
  | _ => None
  end.
Definition e_entity (e : jentity) : sexp :=
  SL [SY "ent"; SS (jty (je_uid e)); SS (jid (je_uid e)); e_pairs (je_attrs e); e_pairs (je_tags e);
      SL (map e_juid2 (je_anc e))].

Definition d_einfo (s : sexp) : option (str * einfo) :=
  match s with
  | SL [SS t; attrs; o; tags] =>
      match d_sty (SL [SY "record"; attrs; o]), d_oty tags with
      | Some (STRecord a o), Some tg => Some (t, mkEinfo a o tg)
      | _, _ => None
      end
  | _ => None
  end.
Definition d_eschema (s : sexp) : option (option eschema) :=
  match s with
  | SY "none" => Some None
  | SL [SY "some"; l] => option_map Some (d_list d_einfo l)
  | _ => None
  end.

Definition e_eerr (e : eerr) : sexp :=
  match e with
  | EJ e => e_jerr e
  | EUnexpectedEntityType => SY "UnexpectedEntityType"
  | EUnexpectedEntityAttr => SY "UnexpectedEntityAttr"
  | EUnexpectedEntityTag => SY "UnexpectedEntityTag"
  | EActionParent => SY "ActionParentIsNotAction"
  end.
Definition e_er {A} (f : A -> sexp) (r : er A) : sexp :=
  match r with EOk a => SL [SY "ok"; f a] | EErr e => SL [SY "err"; e_eerr e] end.
Definition e_sr {A} (f : A -> sexp) (r : sr A) : sexp :=
  match r with
  | SOk a => SL [SY "ok"; f a]
  | SErr (SE e) => SL [SY "err"; e_eerr e]
  | SErr SDuplicate => SL [SY "err"; SY "Duplicate"]
  | SErr SCycle => SL [SY "err"; SY "TransitiveClosure"]
  end.

Definition run_entjson (cmd : string) (args : list sexp) : option sexp :=
  if negb (sym_eqb cmd "entjson") then None else
  Some (match args with
        | [SY "to_json"; v] =>
            match d_rval v with Some v => e_jr e_json (value_to_json v) | None => bad_input end
        | [SY "ctx_to_json"; ps] =>
            match d_pairs ps with Some l => e_jr e_json (context_to_json l) | None => bad_input end
        | [SY "parse"; t; j] =>
            match d_oty t, d_json j with
            | Some t, Some j => e_jr e_rval (json_to_value t j)
            | _, _ => bad_input
            end
        | [SY "ent_to_json"; e] =>
            match d_entity e with Some e => e_jr e_json (entity_to_json e) | None => bad_input end
        | [SY "ent_parse"; sch; j] =>
            match d_eschema sch, d_json j with
            | Some sch, Some j => e_er e_entity (entity_from_json sch j)
            | _, _ => bad_input
            end
        | [SY "store_to_json"; es] =>
            match d_list d_entity es with Some es => e_jr e_json (store_to_json es) | None => bad_input end
        | [SY "store_parse"; sch; acts; j] =>
            match d_eschema sch, d_list d_entity acts, d_json j with
            | Some sch, Some acts, Some j => e_sr (e_list e_entity) (store_from_json sch acts j)
            | _, _, _ => bad_input
            end
        | [SY "ctx_parse"; t; j] =>
            match d_oty t, d_json j with
            | Some t, Some j => e_jr e_pairs (context_from_json t j)
            | _, _ => bad_input
            end
        | _ => bad_input
        end).
