(* Est.v — the JSON policy format (EST), expression and condition level.
   Mirrors cedar-policy-core/src/est/expr.rs:
     ast_to_est_expr   <->  ast::Expr::into_expr::<est::Builder>  + the Serialize shapes of est::Expr
     est_to_ast_expr   <->  Deserialize for est::Expr / ExprNoExt / ExtFuncCall + Expr::try_into_ast
     value_to_expr     <->  From<RawCedarValueJson> for CedarValueJson + CedarValueJson::into_expr
   and est.rs: Clause (when/unless), the right fold of conditions in try_into_ast_policy_or_template,
   From<ast::Template> for est::Policy (conditions field).
   serde contract assumed: objects with duplicate keys are rejected (checked once, json_nodup);
   struct variants of ExprNoExt deny unknown fields; the untagged HasAttrRepr ignores them.
   Definitions only. *)
From Coq Require Import String.
From Cedar Require Export Syntax Json.
Open Scope Z_scope.

Definition K (s : string) : str := s2str s.

(* ---- names:  A::B::C  (Name::from_normalized_str / Display) ---- *)
Fixpoint print_name (n : name) : str :=
  match n with
  | [] => []
  | [c] => c
  | c :: n' => c ++ [58%N; 58%N] ++ print_name n'
  end.

Fixpoint split_name (s cur : str) : list str :=
  match s with
  | [] => [rev cur]
  | c :: s' =>
      match s' with
      | d :: s'' => if N.eqb c 58 && N.eqb d 58 then rev cur :: split_name s'' []
                    else split_name s' (c :: cur)
      | [] => split_name s' (c :: cur)
      end
  end.

Definition is_alpha_ (c : N) : bool :=
  ((65 <=? c) && (c <=? 90) || (97 <=? c) && (c <=? 122) || (c =? 95))%N.
Definition is_alnum_ (c : N) : bool := (is_alpha_ c || (48 <=? c) && (c <=? 57))%N.

Definition reserved_idents : list str :=
  map K ["true"; "false"; "if"; "then"; "else"; "in"; "is"; "like"; "has"; "__cedar"]%string.

Definition ident_ok (s : str) : bool :=
  match s with
  | [] => false
  | c :: s' => is_alpha_ c && forallb is_alnum_ s' && negb (str_mem s reserved_idents)
  end.

Definition parse_name (s : str) : option name :=
  let cs := split_name s [] in
  if forallb ident_ok cs then Some cs else None.

(* ExtStyles::is_known_extension_func_str (all extensions, partial-eval on) *)
Definition known_ext_fns : list str :=
  map K ["decimal"; "ip"; "datetime"; "duration"; "unknown";
         "lessThan"; "lessThanOrEqual"; "greaterThan"; "greaterThanOrEqual";
         "isIpv4"; "isIpv6"; "isLoopback"; "isMulticast"; "isInRange";
         "offset"; "durationSince"; "toDate"; "toTime";
         "toMilliseconds"; "toSeconds"; "toMinutes"; "toHours"; "toDays"]%string.

(* ---- AST -> EST ---- *)
Definition obj1 (k : string) (v : json) : json := JObj [(K k, v)].
Definition lr (a b : json) : json := JObj [(K "left", a); (K "right", b)].

Definition uid_json (u : uid) : json :=
  JObj [(K "type", JStr (print_name (uty u))); (K "id", JStr (ueid u))].

Definition prim_to_est (p : prim) : json :=
  match p with
  | PBool b => JBool b
  | PLong z => JInt z
  | PString s => JStr s
  | PEntity u => JObj [(K "__entity", uid_json u)]
  end.

Definition var_str (v : var) : str :=
  K (match v with Principal => "principal" | Action => "action" | Resource => "resource" | Context => "context" end).
Definition slot_str (s : slot) : str :=
  K (match s with SlotPrincipal => "?principal" | SlotResource => "?resource" end).

Definition unop_key (o : unop) : string :=
  match o with UNot => "!" | UNeg => "neg" | UIsEmpty => "isEmpty" end.
Definition binop_key (o : binop) : string :=
  match o with
  | BEq => "==" | BLess => "<" | BLessEq => "<=" | BAdd => "+" | BSub => "-" | BMul => "*" | BIn => "in"
  | BContains => "contains" | BContainsAll => "containsAll" | BContainsAny => "containsAny"
  | BGetTag => "getTag" | BHasTag => "hasTag"
  end.

Definition patelem_to_est (p : patelem) : json :=
  match p with PStar => JStr (K "Wildcard") | PChar c => JObj [(K "Literal", JStr [c])] end.

Fixpoint ast_to_est_expr (e : expr) : json :=
  match e with
  | Lit p => obj1 "Value" (prim_to_est p)
  | Var v => obj1 "Var" (JStr (var_str v))
  | Slot s => obj1 "Slot" (JStr (slot_str s))
  | Unknown n _ => obj1 "unknown" (JArr [obj1 "Value" (JStr n)])
  | If c t f => obj1 "if-then-else"
                  (JObj [(K "if", ast_to_est_expr c); (K "then", ast_to_est_expr t); (K "else", ast_to_est_expr f)])
  | And a b => obj1 "&&" (lr (ast_to_est_expr a) (ast_to_est_expr b))
  | Or a b => obj1 "||" (lr (ast_to_est_expr a) (ast_to_est_expr b))
  | UnApp o a => obj1 (unop_key o) (JObj [(K "arg", ast_to_est_expr a)])
  | BinApp o a b => obj1 (binop_key o) (lr (ast_to_est_expr a) (ast_to_est_expr b))
  | ExtCall fn args => JObj [(print_name fn, JArr (map ast_to_est_expr args))]
  | GetAttr a k => obj1 "." (JObj [(K "left", ast_to_est_expr a); (K "attr", JStr k)])
  | HasAttr a k => obj1 "has" (JObj [(K "left", ast_to_est_expr a); (K "attr", JStr k)])
  | Like a p => obj1 "like" (JObj [(K "left", ast_to_est_expr a); (K "pattern", JArr (map patelem_to_est p))])
  | Is a t => obj1 "is" (JObj [(K "left", ast_to_est_expr a); (K "entity_type", JStr (print_name t))])
  | SetE items => obj1 "Set" (JArr (map ast_to_est_expr items))
  | RecordE items => obj1 "Record" (JObj (map (fun kv => (fst kv, ast_to_est_expr (snd kv))) items))
  end.

(* From<ast::Template> for est::Policy, field `conditions`: one `when` clause holding the whole body *)
Definition ast_to_est_conditions (body : option expr) : json :=
  match body with
  | None => JArr []
  | Some e => JArr [JObj [(K "kind", JStr (K "when")); (K "body", ast_to_est_expr e)]]
  end.

(* ---- EST -> AST ---- *)
Definition bad {A} : res A := Err ErrType.

Record scanres := mkScan {
  s_fn : option str; s_arg : option (res expr); s_args : option (res (list expr));
  s_type : option str; s_id : option str }.
Definition scan0 : scanres := mkScan None None None None None.

Definition jstr_of (j : json) : option str := match j with JStr s => Some s | _ => None end.

Fixpoint value_to_expr (j : json) : res expr :=
  let go := fix go (l : list json) : res (list expr) :=
              match l with
              | [] => Ok []
              | x :: l' => do e <- value_to_expr x; do es <- go l'; Ok (e :: es)
              end in
  let gor := fix gor (l : list (str * json)) : res (list (str * expr)) :=
               match l with
               | [] => Ok []
               | (k, x) :: l' => do e <- value_to_expr x; do es <- gor l'; Ok ((k, e) :: es)
               end in
  match j with
  | JNull => bad
  | JBool b => Ok (Lit (PBool b))
  | JInt z => if in_i64 z then Ok (Lit (PLong z)) else bad
  | JStr s => Ok (Lit (PString s))
  | JArr l => do es <- go l; Ok (SetE es)
  | JObj l =>
      let record := fun _ : unit => do kvs <- gor l; Ok (RecordE (sort_assoc kvs)) in
      match l with
      | [(k, JObj r)] =>
          let sc := (fix scan (r : list (str * json)) : scanres :=
                       match r with
                       | [] => scan0
                       | (k', v) :: r' =>
                           let s := scan r' in
                           if str_eqb k' (K "fn") then mkScan (jstr_of v) (s_arg s) (s_args s) (s_type s) (s_id s)
                           else if str_eqb k' (K "arg") then mkScan (s_fn s) (Some (value_to_expr v)) (s_args s) (s_type s) (s_id s)
                           else if str_eqb k' (K "args") then
                             mkScan (s_fn s) (s_arg s) (match v with JArr a => Some (go a) | _ => None end) (s_type s) (s_id s)
                           else if str_eqb k' (K "type") then mkScan (s_fn s) (s_arg s) (s_args s) (jstr_of v) (s_id s)
                           else if str_eqb k' (K "id") then mkScan (s_fn s) (s_arg s) (s_args s) (s_type s) (jstr_of v)
                           else s
                       end) r in
          if str_eqb k (K "__extn") && (2 <=? length r)%nat then
            match s_fn sc, s_arg sc, s_args sc with
            | Some f, Some a, _ =>
                match parse_name f with
                | Some n => do x <- a; Ok (ExtCall n [x])
                | None => bad
                end
            | Some f, None, Some xs =>
                match parse_name f with
                | Some n => do es <- xs; Ok (ExtCall n es)
                | None => bad
                end
            | _, _, _ => record tt
            end
          else if str_eqb k (K "__entity") && (2 <=? length r)%nat then
            match s_type sc, s_id sc with
            | Some t, Some i =>
                match parse_name t with
                | Some n => Ok (Lit (PEntity (mkUid n i)))
                | None => bad
                end
            | _, _ => record tt
            end
          else record tt
      | [(k, JStr _)] => if str_eqb k (K "__expr") then bad else record tt
      | _ => record tt
      end
  end.

(* RawCedarValueJson: the whole value is deserialised first, every integer must fit i64 *)
Fixpoint json_ints_ok (j : json) : bool :=
  match j with
  | JInt z => in_i64 z
  | JArr l => (fix go (l : list json) : bool :=
                 match l with [] => true | x :: l' => json_ints_ok x && go l' end) l
  | JObj l => (fix go (l : list (str * json)) : bool :=
                 match l with [] => true | (_, x) :: l' => json_ints_ok x && go l' end) l
  | _ => true
  end.

Definition req (k : string) (cs : list (str * res expr)) : res expr :=
  match lookup (K k) cs with Some r => r | None => bad end.

Definition keys_exact (allowed : list string) (fs : list (str * json)) : bool :=
  keys_within (map K allowed) fs.

Definition var_of (s : str) : option var :=
  if str_eqb s (K "principal") then Some Principal
  else if str_eqb s (K "action") then Some Action
  else if str_eqb s (K "resource") then Some Resource
  else if str_eqb s (K "context") then Some Context
  else None.

Definition slot_of (s : str) : option slot :=
  if str_eqb s (K "?principal") then Some SlotPrincipal
  else if str_eqb s (K "?resource") then Some SlotResource
  else None.

(* PatternElem (externally tagged) and From<&[PatternElem]> for Pattern *)
Definition patelem_of (j : json) : option pattern :=
  match j with
  | JStr s => if str_eqb s (K "Wildcard") then Some [PStar] else None
  | JObj [(k, JStr s)] => if str_eqb k (K "Literal") then Some (map PChar s) else None
  | JObj [(k, JNull)] => if str_eqb k (K "Wildcard") then Some [PStar] else None
  | _ => None
  end.

Fixpoint pattern_of (l : list json) : option pattern :=
  match l with
  | [] => Some []
  | x :: l' => match patelem_of x, pattern_of l' with
               | Some a, Some b => Some (a ++ b)
               | _, _ => None
               end
  end.

Fixpoint strs_of (l : list json) : option (list str) :=
  match l with
  | [] => Some []
  | JStr s :: l' => option_map (cons s) (strs_of l')
  | _ => None
  end.

(* ExprBuilder::extended_has_attr (default implementation, a left fold) *)
Fixpoint ext_has_fold (has get : expr) (attrs : list str) : expr :=
  match attrs with
  | [] => has
  | a :: attrs' => ext_has_fold (mk_and has (HasAttr get a)) (GetAttr get a) attrs'
  end.
Definition extended_has (e : expr) (a : str) (attrs : list str) : expr :=
  ext_has_fold (HasAttr e a) (GetAttr e a) attrs.

Definition binop_of (k : str) : option binop :=
  if str_eqb k (K "==") then Some BEq else if str_eqb k (K "<") then Some BLess
  else if str_eqb k (K "<=") then Some BLessEq else if str_eqb k (K "+") then Some BAdd
  else if str_eqb k (K "-") then Some BSub else if str_eqb k (K "*") then Some BMul
  else if str_eqb k (K "in") then Some BIn else if str_eqb k (K "contains") then Some BContains
  else if str_eqb k (K "containsAll") then Some BContainsAll
  else if str_eqb k (K "containsAny") then Some BContainsAny
  else if str_eqb k (K "getTag") then Some BGetTag else if str_eqb k (K "hasTag") then Some BHasTag
  else None.

Definition unop_of (k : str) : option unop :=
  if str_eqb k (K "!") then Some UNot else if str_eqb k (K "neg") then Some UNeg
  else if str_eqb k (K "isEmpty") then Some UIsEmpty else None.

Fixpoint est_to_ast_expr (j : json) : res expr :=
  let go := fix go (l : list json) : res (list expr) :=
              match l with
              | [] => Ok []
              | x :: l' => do e <- est_to_ast_expr x; do es <- go l'; Ok (e :: es)
              end in
  let gor := fix gor (l : list (str * json)) : res (list (str * expr)) :=
               match l with
               | [] => Ok []
               | (k, x) :: l' => do e <- est_to_ast_expr x; do es <- gor l'; Ok ((k, e) :: es)
               end in
  let conv := fix conv (l : list (str * json)) : list (str * res expr) :=
                match l with
                | [] => []
                | (k, v) :: l' => (k, est_to_ast_expr v) :: conv l'
                end in
  match j with
  | JObj [(k, body)] =>
      if str_mem k known_ext_fns then
        match body with
        | JArr args => do es <- go args; Ok (ExtCall [k] es)
        | _ => bad
        end
      else if str_eqb k (K "Value") then (if json_ints_ok body then value_to_expr body else bad)
      else if str_eqb k (K "Var") then
        match body with
        | JStr s => match var_of s with Some v => Ok (Var v) | None => bad end
        | _ => bad
        end
      else if str_eqb k (K "Slot") then
        match body with
        | JStr s => match slot_of s with Some v => Ok (Slot v) | None => bad end
        | _ => bad
        end
      else if str_eqb k (K "Set") then
        match body with JArr l => do es <- go l; Ok (SetE es) | _ => bad end
      else if str_eqb k (K "Record") then
        match body with JObj l => do kvs <- gor l; Ok (RecordE (sort_assoc kvs)) | _ => bad end
      else
        match body with
        | JObj fs =>
            let cs := conv fs in
            match unop_of k, binop_of k with
            | Some o, _ =>
                if keys_exact ["arg"]%string fs then do a <- req "arg" cs; Ok (UnApp o a) else bad
            | None, Some o =>
                if keys_exact ["left"; "right"]%string fs
                then do a <- req "left" cs; do b <- req "right" cs; Ok (BinApp o a b) else bad
            | None, None =>
                if str_eqb k (K "!=") then
                  if keys_exact ["left"; "right"]%string fs
                  then do a <- req "left" cs; do b <- req "right" cs; Ok (UnApp UNot (BinApp BEq a b)) else bad
                else if str_eqb k (K ">") then
                  if keys_exact ["left"; "right"]%string fs
                  then do a <- req "left" cs; do b <- req "right" cs; Ok (UnApp UNot (BinApp BLessEq a b)) else bad
                else if str_eqb k (K ">=") then
                  if keys_exact ["left"; "right"]%string fs
                  then do a <- req "left" cs; do b <- req "right" cs; Ok (UnApp UNot (BinApp BLess a b)) else bad
                else if str_eqb k (K "&&") then
                  if keys_exact ["left"; "right"]%string fs
                  then do a <- req "left" cs; do b <- req "right" cs; Ok (mk_and a b) else bad
                else if str_eqb k (K "||") then
                  if keys_exact ["left"; "right"]%string fs
                  then do a <- req "left" cs; do b <- req "right" cs; Ok (mk_or a b) else bad
                else if str_eqb k (K ".") then
                  if keys_exact ["left"; "attr"]%string fs then
                    match jget (K "attr") fs with
                    | Some (JStr a) => do l <- req "left" cs; Ok (GetAttr l a)
                    | _ => bad
                    end
                  else bad
                else if str_eqb k (K "has") then
                  (* untagged HasAttrRepr: unknown fields are ignored *)
                  match jget (K "attr") fs with
                  | Some (JStr a) => do l <- req "left" cs; Ok (HasAttr l a)
                  | Some (JArr (JStr a :: rest)) =>
                      match strs_of rest with
                      | Some attrs => do l <- req "left" cs; Ok (extended_has l a attrs)
                      | None => bad
                      end
                  | _ => bad
                  end
                else if str_eqb k (K "like") then
                  if keys_exact ["left"; "pattern"]%string fs then
                    match jget (K "pattern") fs with
                    | Some (JArr p) =>
                        match pattern_of p with
                        | Some pat => do l <- req "left" cs; Ok (Like l pat)
                        | None => bad
                        end
                    | _ => bad
                    end
                  else bad
                else if str_eqb k (K "is") then
                  if keys_exact ["left"; "entity_type"; "in"]%string fs then
                    match jget (K "entity_type") fs with
                    | Some (JStr t) =>
                        match parse_name t with
                        | Some ty =>
                            do l <- req "left" cs;
                            match lookup (K "in") cs with
                            | Some r => do x <- r; Ok (mk_and (Is l ty) (BinApp BIn l x))
                            | None => Ok (Is l ty)
                            end
                        | None => bad
                        end
                    | _ => bad
                    end
                  else bad
                else if str_eqb k (K "if-then-else") then
                  if keys_exact ["if"; "then"; "else"]%string fs
                  then do c <- req "if" cs; do t <- req "then" cs; do f <- req "else" cs; Ok (If c t f)
                  else bad
                else bad
            end
        | _ => bad
        end
  | _ => bad
  end.

(* ---- slots (Expr::slots) and clauses ---- *)
Fixpoint has_slot (e : expr) : bool :=
  match e with
  | Slot _ => true
  | Lit _ | Var _ | Unknown _ _ => false
  | If a b c => has_slot a || has_slot b || has_slot c
  | And a b | Or a b | BinApp _ a b => has_slot a || has_slot b
  | UnApp _ a | GetAttr a _ | HasAttr a _ | Like a _ | Is a _ => has_slot a
  | ExtCall _ l | SetE l => (fix go (l : list expr) : bool :=
                               match l with [] => false | x :: l' => has_slot x || go l' end) l
  | RecordE l => (fix go (l : list (str * expr)) : bool :=
                    match l with [] => false | (_, x) :: l' => has_slot x || go l' end) l
  end.

(* Clause::try_into_ast (kind/body, deny_unknown_fields; slots are refused) *)
Definition clause_to_ast (j : json) : res expr :=
  match j with
  | JObj fs =>
      if keys_exact ["kind"; "body"]%string fs then
        match jget (K "kind") fs, jget (K "body") fs with
        | Some (JStr kd), Some b =>
            do e <- est_to_ast_expr b;
            if str_eqb kd (K "when") then (if has_slot e then bad else Ok e)
            else if str_eqb kd (K "unless") then (if has_slot e then bad else Ok (UnApp UNot e))
            else bad
        | _, _ => bad
        end
      else bad
  | _ => bad
  end.

(* the right fold  [c1; c2; c3] -> c1 && (c2 && c3)  with the literal-folding `and` *)
Fixpoint fold_conditions (es : list expr) : option expr :=
  match es with
  | [] => None
  | e :: es' => match fold_conditions es' with
                | None => Some e
                | Some acc => Some (mk_and e acc)
                end
  end.

Definition est_to_ast_conditions (j : json) : res (option expr) :=
  if negb (json_nodup j) then bad else
  match j with
  | JArr l => do es <- mapM clause_to_ast l; Ok (fold_conditions es)
  | _ => bad
  end.
