(* Base.v — strings, i64 range, result monad, association lists.
   Model layer: definitions only (proofs live in proofs/). *)
From Coq Require Export List ZArith NArith Bool.
Export ListNotations.
Open Scope Z_scope.

(* Strings are lists of Unicode scalar values. *)
Definition str := list N.

Fixpoint str_eqb (a b : str) : bool :=
  match a, b with
  | [], [] => true
  | x :: a', y :: b' => N.eqb x y && str_eqb a' b'
  | _, _ => false
  end.

(* Lexicographic order on scalar values = Rust's `str` Ord (UTF-8 byte order
   coincides with scalar-value order). *)
Fixpoint str_ltb (a b : str) : bool :=
  match a, b with
  | [], [] => false
  | [], _ :: _ => true
  | _ :: _, [] => false
  | x :: a', y :: b' => if N.ltb x y then true else if N.eqb x y then str_ltb a' b' else false
  end.

Fixpoint strs_eqb (a b : list str) : bool :=
  match a, b with
  | [], [] => true
  | x :: a', y :: b' => str_eqb x y && strs_eqb a' b'
  | _, _ => false
  end.

(* i64 *)
Definition i64_min : Z := -9223372036854775808.
Definition i64_max : Z := 9223372036854775807.
Definition in_i64 (z : Z) : bool := (i64_min <=? z) && (z <=? i64_max).

(* Error classes (messages, locations and advice are not modelled). *)
Inductive err :=
| ErrType | ErrEntityMissing | ErrAttrMissing | ErrOverflow | ErrExt
| ErrArity | ErrUnknownFn | ErrUnlinkedSlot | ErrNonValue.

Definition err_eqb (a b : err) : bool :=
  match a, b with
  | ErrType, ErrType | ErrEntityMissing, ErrEntityMissing | ErrAttrMissing, ErrAttrMissing
  | ErrOverflow, ErrOverflow | ErrExt, ErrExt | ErrArity, ErrArity
  | ErrUnknownFn, ErrUnknownFn | ErrUnlinkedSlot, ErrUnlinkedSlot | ErrNonValue, ErrNonValue => true
  | _, _ => false
  end.

Inductive res (A : Type) := Ok (a : A) | Err (e : err).
Arguments Ok {A} a.
Arguments Err {A} e.

Definition bind {A B} (r : res A) (f : A -> res B) : res B :=
  match r with Ok a => f a | Err e => Err e end.
Notation "'do' x <- r ; k" := (bind r (fun x => k)) (at level 200, x name, r at level 100, k at level 200).

Definition is_ok {A} (r : res A) : bool := match r with Ok _ => true | Err _ => false end.

(* Association lists with first-match lookup. *)
Fixpoint lookup {V} (k : str) (l : list (str * V)) : option V :=
  match l with
  | [] => None
  | (k', v) :: l' => if str_eqb k k' then Some v else lookup k l'
  end.

Definition has_key {V} (k : str) (l : list (str * V)) : bool :=
  match lookup k l with Some _ => true | None => false end.

(* Insertion of a binding into a key-sorted association list; a later binding for an
   existing key replaces the earlier one (BTreeMap::insert / collect semantics). *)
Fixpoint insert_sorted {V} (k : str) (v : V) (l : list (str * V)) : list (str * V) :=
  match l with
  | [] => [(k, v)]
  | (k', v') :: l' =>
      if str_ltb k k' then (k, v) :: l
      else if str_eqb k k' then (k, v) :: l'
      else (k', v') :: insert_sorted k v l'
  end.

Definition sort_assoc {V} (l : list (str * V)) : list (str * V) :=
  fold_left (fun acc kv => insert_sorted (fst kv) (snd kv) acc) l [].

Fixpoint keys_nodup {V} (l : list (str * V)) : bool :=
  match l with
  | [] => true
  | (k, _) :: l' => negb (has_key k l') && keys_nodup l'
  end.

Fixpoint mapM {A B} (f : A -> res B) (l : list A) : res (list B) :=
  match l with
  | [] => Ok []
  | x :: l' => do y <- f x; do ys <- mapM f l'; Ok (y :: ys)
  end.

Fixpoint omapM {A B} (f : A -> option B) (l : list A) : option (list B) :=
  match l with
  | [] => Some []
  | x :: l' => match f x with
               | Some y => match omapM f l' with Some ys => Some (y :: ys) | None => None end
               | None => None
               end
  end.

(* ASCII string literals as `str` (names of functions, attributes in examples) *)
From Coq Require Import Ascii String.
Fixpoint s2str (s : string) : str :=
  match s with
  | EmptyString => []
  | String c s' => N_of_ascii c :: s2str s'
  end.
