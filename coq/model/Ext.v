(* Ext.v — extension functions.  Mirrors extensions/{decimal,ipaddr,datetime}.rs and the
   arity wrappers of ast/extension.rs.  Parsers work on `str` (scalar values). *)
From Coq Require Import String.
From Cedar Require Export Value.
Open Scope Z_scope.

(* ---------- shared helpers ---------- *)
Definition is_ascii_digit (c : N) : bool := (N.leb 48 c && N.leb c 57)%N.
Definition digit_val (c : N) : Z := Z.of_N c - 48.

Fixpoint all_ascii_digits (s : str) : bool :=
  match s with [] => true | c :: s' => is_ascii_digit c && all_ascii_digits s' end.

(* value of a string of ASCII digits (no range restriction) *)
Definition digits_val (s : str) : Z := fold_left (fun acc c => acc * 10 + digit_val c) s 0.

(* i64::from_str on  [+-]?[0-9]+ : ASCII digits only, checked range *)
Definition parse_i64 (s : str) : option Z :=
  let '(neg, ds) := match s with
                    | 45%N :: r => (true, r)
                    | 43%N :: r => (false, r)
                    | _ => (false, s)
                    end in
  match ds with
  | [] => None
  | _ => if all_ascii_digits ds
         then let v := if neg then - digits_val ds else digits_val ds in
              if in_i64 v then Some v else None
         else None
  end.

Fixpoint split_at_char (c : N) (s : str) : option (str * str) :=
  match s with
  | [] => None
  | x :: s' => if N.eqb x c then Some ([], s')
               else match split_at_char c s' with
                    | Some (a, b) => Some (x :: a, b)
                    | None => None
                    end
  end.

(* ---------- decimal ---------- *)
(* DECIMAL_REGEX ^(-?\d+)\.(\d+)$ followed by i64::from_str on both groups: a group holding a
   non-ASCII digit fails either in the regex or in from_str — an extension error both ways, so
   the model needs no Unicode digit table. *)
Definition checked_mul_pow (x : Z) (y : nat) : option Z :=
  let w := x * 10 ^ Z.of_nat y in if in_i64 w then Some w else None.

Definition parse_decimal (s : str) : option Z :=
  match split_at_char 46%N s with
  | None => None
  | Some (l_str, r_str) =>
      let l_digits := match l_str with 45%N :: r => r | _ => l_str end in
      match l_digits, r_str with
      | [], _ | _, [] => None
      | _, _ =>
          if all_ascii_digits l_digits && all_ascii_digits r_str then
            match parse_i64 l_str with
            | None => None
            | Some l =>
                match checked_mul_pow l 4 with
                | None => None
                | Some l =>
                    if Nat.ltb 4 (length r_str) then None else
                    match parse_i64 r_str with
                    | None => None
                    | Some r =>
                        match checked_mul_pow r (4 - length r_str) with
                        | None => None
                        | Some r =>
                            let neg := match l_str with 45%N :: _ => true | _ => false end in
                            let v := if neg then l - r else l + r in
                            if in_i64 v then Some v else None
                        end
                    end
                end
            end
          else None
      end
  end.

Definition as_decimal (v : value) : res Z :=
  match v with VExt (EDecimal z) => Ok z | _ => Err ErrType end.
Definition as_string (v : value) : res str :=
  match v with VPrim (PString s) => Ok s | _ => Err ErrType end.

Definition decimal_from_str (v : value) : res value :=
  do s <- as_string v;
  match parse_decimal s with Some z => Ok (VExt (EDecimal z)) | None => Err ErrExt end.

Definition decimal_cmp (f : Z -> Z -> bool) (a b : value) : res value :=
  do x <- as_decimal a; do y <- as_decimal b; Ok (VBool (f x y)).

(* ---------- dispatch ---------- *)
Inductive extfn :=
| FDecimal | FLessThan | FLessThanOrEqual | FGreaterThan | FGreaterThanOrEqual.

Definition fn_name (f : extfn) : str :=
  s2str (match f with
         | FDecimal => "decimal" | FLessThan => "lessThan" | FLessThanOrEqual => "lessThanOrEqual"
         | FGreaterThan => "greaterThan" | FGreaterThanOrEqual => "greaterThanOrEqual"
         end)%string.

Definition all_extfns : list extfn :=
  [FDecimal; FLessThan; FLessThanOrEqual; FGreaterThan; FGreaterThanOrEqual].

(* Extensions::func — functions are looked up by unqualified name *)
Definition lookup_extfn (n : name) : option extfn :=
  match n with
  | [b] => find (fun f => str_eqb (fn_name f) b) all_extfns
  | _ => None
  end.

(* true = MethodStyle *)
Definition extfn_is_method (f : extfn) : bool :=
  match f with FDecimal => false | _ => true end.

Definition unary (f : value -> res value) (args : list value) : res value :=
  match args with [a] => f a | _ => Err ErrArity end.
Definition binary (f : value -> value -> res value) (args : list value) : res value :=
  match args with [a; b] => f a b | _ => Err ErrArity end.

Definition apply_extfn (f : extfn) (args : list value) : res value :=
  match f with
  | FDecimal => unary decimal_from_str args
  | FLessThan => binary (decimal_cmp Z.ltb) args
  | FLessThanOrEqual => binary (decimal_cmp Z.leb) args
  | FGreaterThan => binary (decimal_cmp Z.gtb) args
  | FGreaterThanOrEqual => binary (decimal_cmp Z.geb) args
  end.

Definition call_ext (n : name) (args : list value) : res value :=
  match lookup_extfn n with
  | None => Err ErrUnknownFn
  | Some f => apply_extfn f args
  end.

(* `<` / `<=` overloading (binary_relation): datetime and duration only *)
Definition ext_overload_cmp (less : bool) (a b : ext) : option bool :=
  match a, b with
  | EDatetime x, EDatetime y => Some (if less then Z.ltb x y else Z.leb x y)
  | EDuration x, EDuration y => Some (if less then Z.ltb x y else Z.leb x y)
  | _, _ => None
  end.
