(* ManifestRun.v — run commands of the manifest model (C17):
     (manifest_slice <manifest> <request> <entities>)  -> (ok (entity ...)...) | (err <class>)
     (manifest_adequate <rtrie> ((<slotenv> <texpr>) ...)) -> (adequate true) | (missing (<root> <path>) ...)
   manifest: (((<ptype> <action uid> <rtype>) <rtrie>) ...) ; rtrie: ((<root> <trie>) ...)
   root: (lit <uid>) | (var <v>) ; trie: (trie ((<str> <trie>) ...) <rtrie> <bool>) *)
From Coq Require Import String.
From Cedar Require Export Manifest ManifestSpec TExprRun.
Open Scope string_scope.

Definition d_root (s : sexp) : option root :=
  match s with
  | SL [SY "lit"; u] => option_map RLit (d_uid u)
  | SL [SY "var"; v] => option_map RVar (d_var v)
  | _ => None
  end.

Fixpoint d_trie (s : sexp) : option trie :=
  match s with
  | SL [SY "trie"; SL ch; SL anc; b] =>
      match (fix dc (l : list sexp) : option (list (str * trie)) :=
               match l with
               | [] => Some []
               | SL [SS k; x] :: l' => match d_trie x, dc l' with
                                       | Some t, Some r => Some ((k, t) :: r) | _, _ => None end
               | _ => None
               end) ch,
            (fix da (l : list sexp) : option (list (root * trie)) :=
               match l with
               | [] => Some []
               | SL [r; x] :: l' => match d_root r, d_trie x, da l' with
                                    | Some r, Some t, Some rest => Some ((r, t) :: rest) | _, _, _ => None end
               | _ => None
               end) anc,
            d_bool b with
      | Some c, Some a, Some b => Some (Trie c a b)
      | _, _, _ => None
      end
  | _ => None
  end.

Definition d_rtrie (s : sexp) : option rtrie :=
  d_list (fun x => match x with
                   | SL [r; t] => match d_root r, d_trie t with Some r, Some t => Some (r, t) | _, _ => None end
                   | _ => None
                   end) s.

Definition d_manifest (s : sexp) : option manifest :=
  d_list (fun x => match x with
                   | SL [SL [p; a; r]; t] =>
                       match d_name p, d_uid a, d_name r, d_rtrie t with
                       | Some p, Some a, Some r, Some t => Some (mkReqType p a r, t)
                       | _, _, _, _ => None
                       end
                   | _ => None
                   end) s.

Definition e_serr (e : serr) : sexp :=
  SL [SY "err"; SY (match e with SEIncompatible => "IncompatibleEntityManifest" | SEPanic => "panic" | SEFuel => "fuel" end)].

Definition e_entity (ud : uid * edata) : sexp :=
  SL [SY "entity"; e_uid (fst ud);
      SL (map (fun kv => SL [SS (fst kv); e_value (snd kv)]) (eattrs (snd ud)));
      SL (map (fun kv => SS (fst kv)) (etags (snd ud)));
      e_list e_uid (eancestors (snd ud))].

Definition e_root (r : root) : sexp :=
  match r with RLit u => SL [SY "lit"; e_uid u] | RVar v => SL [SY "var"; e_var v] end.

Definition slice_fuel : nat := 64.

Definition run_manifest (cmd : string) (args : list sexp) : option sexp :=
  if sym_eqb cmd "manifest_slice" then
    Some (match args with
          | [m; q; es] =>
              match d_manifest m, d_request q, d_entities es with
              | Some m, Some q, Some es =>
                  match slice_by_manifest slice_fuel m q es with
                  | SOk r => SL [SY "ok"; e_list e_entity r]
                  | SErr e => e_serr e
                  end
              | _, _, _ => bad_input
              end
          | _ => bad_input
          end)
  else if sym_eqb cmd "manifest_adequate" then
    (* (manifest_adequate <rtrie> ((<slotenv> <texpr>) ...)) *)
    Some (match args with
          | [m; es] =>
              match d_rtrie m,
                    d_list (fun x => match x with
                                     | SL [sl; e] => match d_slotenv sl, d_texpr e with
                                                     | Some sl, Some e => Some (sl, e) | _, _ => None end
                                     | _ => None end) es with
              | Some m, Some es =>
                  if forallb (fun se => adequate (fst se) m (snd se)) es then SL [SY "adequate"; SY "true"]
                  else SL (SY "missing" :: map (fun p => SL [e_root (fst p); e_list SS (snd p)])
                                               (flat_map (fun se => missing (fst se) m (snd se)) es))
              | _, _ => bad_input
              end
          | _ => bad_input
          end)
  else if sym_eqb cmd "manifest_frag" then
    (* (manifest_frag <rtrie> ((<slotenv> <texpr>) ...)) -> (exact|sim|none ...): the visible fragment of the
       soundness theorem (c17_adequate_sound_partial) decided on each typed policy condition *)
    Some (match args with
          | [m; es] =>
              match d_rtrie m,
                    d_list (fun x => match x with
                                     | SL [sl; e] => match d_slotenv sl, d_texpr e with
                                                     | Some sl, Some e => Some (sl, e) | _, _ => None end
                                     | _ => None end) es with
              | Some m, Some es =>
                  SL (map (fun se => SY (match frag (fst se) m (snd se) with
                                         | Some KExact => "exact" | Some KSim => "sim" | None => "none" end)) es)
              | _, _ => bad_input
              end
          | _ => bad_input
          end)
  else None.
