(* SymLit.v — C18: the SymCC term factory, compiler and verify_* builders restricted to LITERAL terms.

   Rust                                                       here
   ---------------------------------------------------------  -----------------------------------
   symcc/bitvec.rs  BitVec{width:64,v}  (v unsigned)           bv := Z in [0, 2^64)
     of_int / to_int / overflows / add / neg / sub / mul       bv_of_int bv_to_int bv_overflows bvadd bvneg bvsub bvmul
     slt / sle                                                 bvslt bvsle
   symcc/factory.rs on literal arguments
     bvnego bvsaddo bvssubo bvsmulo                             bvnego bvsaddo bvssubo bvsmulo
     if_false(g,t) = ite(g, none, some t)                       f_if_false
     eq on literals (structural)                                lit_eqb / oterm_eqb
     if_some(none,_) = none ; if_some(some x, t) = t            inlined in compile_lit (lift1 / lift2)
   symcc/compiler.rs + symccopt/compiler.rs (same term)        compile_lit  (core constructs; others CUnsupported)
     compile_prim compile_var compile_app1 compile_app2
     compile_if compile_and compile_or compile_like compile_is
   symccopt/authorizer.rs satisfied_policies / is_authorized   satisfied_lit / authz_lit
   symccopt/verifier.rs verify_evaluate_opt & co                vc + verify_*  (assert lists as list bool)

   A compiled literal term always has an option type: `TSome l` or `TNone ty`; the type carried by `TNone` is
   what lets the compiler keep type-checking operands after an error, exactly as the Rust code does with the
   non-literal `option_get(none)` it builds and then discards in `if_some`.
   Definitions only. *)
From Cedar Require Export Eval Authz.
Open Scope Z_scope.

(* ---------------- 64-bit bit-vectors ---------------- *)
Definition two64 : Z := 18446744073709551616.
Definition two63 : Z := 9223372036854775808.
Definition bv_of_int (z : Z) : Z := z mod two64.                       (* BitVec::of_int 64: two's complement *)
Definition bv_to_int (b : Z) : Z := if b <? two63 then b else b - two64. (* BitVec::to_int *)
Definition bv_overflows (i : Z) : bool := (i <? i64_min) || (i64_max <? i).  (* BitVec::overflows 64 *)
Definition bvadd (a b : Z) : Z := (a + b) mod two64.                   (* of_nat(w, a.v + b.v) *)
Definition bvnot (a : Z) : Z := two64 - 1 - a.                         (* v xor all_ones(64) *)
Definition bvneg (a : Z) : Z := bvadd (bvnot a) 1.                     (* add(not a, 1) *)
Definition bvsub (a b : Z) : Z := bvadd a (bvneg b).                   (* add(a, neg b) *)
Definition bvmul (a b : Z) : Z := (a * b) mod two64.
Definition bvslt (a b : Z) : bool := bv_to_int a <? bv_to_int b.
Definition bvsle (a b : Z) : bool := bv_to_int a <=? bv_to_int b.
Definition bvnego (a : Z) : bool := bv_overflows (- bv_to_int a).
Definition bvsaddo (a b : Z) : bool := bv_overflows (bv_to_int a + bv_to_int b).
Definition bvssubo (a b : Z) : bool := bv_overflows (bv_to_int a - bv_to_int b).
Definition bvsmulo (a b : Z) : bool := bv_overflows (bv_to_int a * bv_to_int b).

(* ---------------- literal terms ---------------- *)
Inductive tty := TyBool | TyBv | TyStr | TyEnt (t : etype).
Definition tty_eqb (a b : tty) : bool :=
  match a, b with
  | TyBool, TyBool | TyBv, TyBv | TyStr, TyStr => true
  | TyEnt s, TyEnt t => name_eqb s t
  | _, _ => false
  end.

Inductive lit := LBool (b : bool) | LBv (z : Z) | LStr (s : str) | LEnt (u : uid).
Inductive oterm := TSome (l : lit) | TNone (ty : tty).

Definition lit_ty (l : lit) : tty :=
  match l with LBool _ => TyBool | LBv _ => TyBv | LStr _ => TyStr | LEnt u => TyEnt (uty u) end.
Definition oterm_ty (t : oterm) : tty := match t with TSome l => lit_ty l | TNone ty => ty end.

Definition lit_eqb (a b : lit) : bool :=
  match a, b with
  | LBool x, LBool y => Bool.eqb x y
  | LBv x, LBv y => Z.eqb x y
  | LStr x, LStr y => str_eqb x y
  | LEnt x, LEnt y => uid_eqb x y
  | _, _ => false
  end.

(* Term::from_literal / compile_prim on the value side *)
Definition lit_of_prim (p : prim) : lit :=
  match p with
  | PBool b => LBool b | PLong z => LBv (bv_of_int z) | PString s => LStr s | PEntity u => LEnt u
  end.

(* factory::if_false on a literal guard *)
Definition f_if_false (g : bool) (l : lit) : oterm := if g then TNone (lit_ty l) else TSome l.

(* ---------------- compile ---------------- *)
Inductive cres := COk (t : oterm) | CErr | CUnsupported.
(* CErr = any CompileError ; CUnsupported = construct outside this model's fragment *)

Definition app1_ty (op : unop) (ty : tty) : option tty :=
  match op, ty with
  | UNot, TyBool => Some TyBool
  | UNeg, TyBv => Some TyBv
  | _, _ => None
  end.
Definition app1_val (op : unop) (l : lit) : oterm :=
  match op, l with
  | UNot, LBool b => TSome (LBool (negb b))
  | UNeg, LBv z => f_if_false (bvnego z) (LBv (bvneg z))
  | _, _ => TNone TyBool
  end.

Definition app2_ty (op : binop) (t1 t2 : tty) : option tty :=
  match op, t1, t2 with
  | BEq, _, _ => Some TyBool          (* all types of this fragment are primitive: reducible_eq never fails *)
  | (BLess | BLessEq), TyBv, TyBv => Some TyBool
  | (BAdd | BSub | BMul), TyBv, TyBv => Some TyBv
  | _, _, _ => None
  end.
Definition app2_val (op : binop) (l1 l2 : lit) : oterm :=
  match op, l1, l2 with
  | BEq, _, _ => TSome (LBool (lit_eqb l1 l2))
  | BLess, LBv a, LBv b => TSome (LBool (bvslt a b))
  | BLessEq, LBv a, LBv b => TSome (LBool (bvsle a b))
  | BAdd, LBv a, LBv b => f_if_false (bvsaddo a b) (LBv (bvadd a b))
  | BSub, LBv a, LBv b => f_if_false (bvssubo a b) (LBv (bvsub a b))
  | BMul, LBv a, LBv b => f_if_false (bvsmulo a b) (LBv (bvmul a b))
  | _, _, _ => TNone TyBool
  end.
Definition binop_covered (op : binop) : bool :=
  match op with BEq | BLess | BLessEq | BAdd | BSub | BMul => true | _ => false end.

Section Compile.
  Variable valid_uid : uid -> bool.        (* SymEntities::is_valid_entity_uid *)
  Variable q : request.

  Definition compile_var (v : var) : cres :=
    match v with
    | Principal => COk (TSome (LEnt (rprincipal q)))
    | Action => COk (TSome (LEnt (raction q)))
    | Resource => COk (TSome (LEnt (rresource q)))
    | Context => CUnsupported
    end.

  Fixpoint compile_lit (e : expr) : cres :=
    match e with
    | Lit (PEntity u) => if valid_uid u then COk (TSome (LEnt u)) else CErr
    | Lit p => COk (TSome (lit_of_prim p))
    | Var v => compile_var v
    | If c t f =>
        match compile_lit c with
        | COk (TSome (LBool true)) => compile_lit t
        | COk (TSome (LBool false)) => compile_lit f
        | COk t1 =>
            match oterm_ty t1 with
            | TyBool =>
                match compile_lit t with
                | COk t2 =>
                    match compile_lit f with
                    | COk t3 => if tty_eqb (oterm_ty t2) (oterm_ty t3) then COk (TNone (oterm_ty t2)) else CErr
                    | r => r
                    end
                | r => r
                end
            | _ => CErr
            end
        | r => r
        end
    | And a b =>
        match compile_lit a with
        | COk (TSome (LBool false)) => COk (TSome (LBool false))
        | COk t1 =>
            match oterm_ty t1 with
            | TyBool =>
                match compile_lit b with
                | COk t2 =>
                    match oterm_ty t2 with
                    | TyBool => COk (match t1 with TSome _ => t2 | TNone _ => TNone TyBool end)
                    | _ => CErr
                    end
                | r => r
                end
            | _ => CErr
            end
        | r => r
        end
    | Or a b =>
        match compile_lit a with
        | COk (TSome (LBool true)) => COk (TSome (LBool true))
        | COk t1 =>
            match oterm_ty t1 with
            | TyBool =>
                match compile_lit b with
                | COk t2 =>
                    match oterm_ty t2 with
                    | TyBool => COk (match t1 with TSome _ => t2 | TNone _ => TNone TyBool end)
                    | _ => CErr
                    end
                | r => r
                end
            | _ => CErr
            end
        | r => r
        end
    | UnApp UIsEmpty _ => CUnsupported
    | UnApp op a =>
        match compile_lit a with
        | COk t1 =>
            match app1_ty op (oterm_ty t1) with
            | None => CErr
            | Some rty => COk (match t1 with TSome l => app1_val op l | TNone _ => TNone rty end)
            end
        | r => r
        end
    | BinApp op a b =>
        if binop_covered op then
          match compile_lit a with
          | COk t1 =>
              match compile_lit b with
              | COk t2 =>
                  match app2_ty op (oterm_ty t1) (oterm_ty t2) with
                  | None => CErr
                  | Some rty =>
                      COk (match t1, t2 with
                           | TSome l1, TSome l2 => app2_val op l1 l2
                           | _, _ => TNone rty
                           end)
                  end
              | r => r
              end
          | r => r
          end
        else CUnsupported
    | Like a p =>
        match compile_lit a with
        | COk t1 =>
            match oterm_ty t1 with
            | TyStr => COk (match t1 with
                            | TSome (LStr s) => TSome (LBool (wildcard p s))
                            | _ => TNone TyBool
                            end)
            | _ => CErr
            end
        | r => r
        end
    | Is a ety =>
        match compile_lit a with
        | COk t1 =>
            match oterm_ty t1 with
            | TyEnt ety2 => COk (match t1 with
                                 | TSome _ => TSome (LBool (name_eqb ety ety2))
                                 | TNone _ => TNone TyBool
                                 end)
            | _ => CErr
            end
        | r => r
        end
    | Slot _ | Unknown _ _ => CErr
    | ExtCall _ _ | GetAttr _ _ | HasAttr _ _ | SetE _ | RecordE _ => CUnsupported
    end.
End Compile.

(* ---------------- verify_* ---------------- *)
Definition oterm_eqb (a b : oterm) : bool :=
  match a, b with
  | TSome x, TSome y => lit_eqb x y
  | TNone _, TNone _ => true          (* only compared at equal types *)
  | _, _ => false
  end.
Definition f_is_some (t : oterm) : bool := match t with TSome _ => true | TNone _ => false end.
Definition matches_t (t : oterm) : bool := oterm_eqb t (TSome (LBool true)).   (* eq(term, some(true)) *)

(* verify_evaluate_opt: `match not(phi) { false => [false], a => enforce ++ [a] }` with literal phi *)
Definition vc (enf : list bool) (phi : bool) : list bool := if phi then [false] else enf ++ [true].
Inductive verdict := Unsat | Sat.
Definition verdict_of (asserts : list bool) : verdict := if existsb negb asserts then Unsat else Sat.

Definition verify_never_errors (enf : list bool) (t : oterm) := vc enf (f_is_some t).
Definition verify_always_matches (enf : list bool) (t : oterm) := vc enf (matches_t t).
Definition verify_never_matches (enf : list bool) (t : oterm) := vc enf (negb (matches_t t)).
Definition verify_matches_equivalent (enf : list bool) (t1 t2 : oterm) := vc enf (Bool.eqb (matches_t t1) (matches_t t2)).
Definition verify_matches_implies (enf : list bool) (t1 t2 : oterm) := vc enf (negb (matches_t t1) || matches_t t2).
Definition verify_matches_disjoint (enf : list bool) (t1 t2 : oterm) := vc enf (negb (matches_t t1 && matches_t t2)).

(* symccopt/authorizer.rs: any_true(eq(_, some true)) over the policies of one effect; and(permits, not forbids) *)
Definition satisfied_lit (ef : effect) (ps : list (effect * oterm)) : bool :=
  existsb (fun p => match fst p, ef with
                    | Permit, Permit | Forbid, Forbid => matches_t (snd p)
                    | _, _ => false
                    end) ps.
Definition authz_lit (ps : list (effect * oterm)) : bool :=
  satisfied_lit Permit ps && negb (satisfied_lit Forbid ps).

Definition verify_implies (enf : list bool) (d1 d2 : bool) := vc enf (negb d1 || d2).
Definition verify_always_allows (enf : list bool) (d : bool) := verify_implies enf true d.     (* allow_all: term true *)
Definition verify_always_denies (enf : list bool) (d : bool) := verify_implies enf d false.    (* deny_all: term false *)
Definition verify_equivalent (enf : list bool) (d1 d2 : bool) := vc enf (Bool.eqb d1 d2).
Definition verify_disjoint (enf : list bool) (d1 d2 : bool) := vc enf (negb (d1 && d2)).

(* value -> literal term (Term::from_value on the fragment) *)
Definition term_of_value (v : value) : option lit :=
  match v with VPrim p => Some (lit_of_prim p) | _ => None end.
