(* TExprRun.v — expression encoder and a self-test command for the typed-expression codec:
   (texpr_erase <texpr>) decodes a typed expression and returns its erasure, which the check
   compares with the untyped dump of the same Rust expression. *)
From Coq Require Import String.
From Cedar Require Export TExpr.
Open Scope string_scope.

Definition e_var (v : var) : sexp :=
  SY (match v with Principal => "principal" | Action => "action" | Resource => "resource" | Context => "context" end).
Definition e_slot (s : slot) : sexp := SY (match s with SlotPrincipal => "principal" | SlotResource => "resource" end).
Definition e_unop (o : unop) : sexp := SY (match o with UNot => "not" | UNeg => "neg" | UIsEmpty => "isEmpty" end).
Definition e_binop (o : binop) : sexp :=
  SY (match o with
      | BEq => "eq" | BLess => "less" | BLessEq => "lesseq" | BAdd => "add" | BSub => "sub" | BMul => "mul"
      | BIn => "in" | BContains => "contains" | BContainsAll => "containsAll" | BContainsAny => "containsAny"
      | BGetTag => "getTag" | BHasTag => "hasTag"
      end).
Definition e_patelem (p : patelem) : sexp := match p with PChar c => SI (Z.of_N c) | PStar => SY "star" end.
Definition e_rtype (t : rtype) : sexp :=
  match t with
  | RTBool => SY "bool" | RTLong => SY "long" | RTString => SY "string" | RTSet => SY "set" | RTRecord => SY "record"
  | RTEntity n => SL [SY "entity"; e_name n] | RTExt n => SL [SY "ext"; e_name n]
  end.
Definition e_opt {A} (f : A -> sexp) (o : option A) : sexp :=
  match o with None => SY "none" | Some x => SL [SY "some"; f x] end.

Fixpoint e_expr (e : expr) : sexp :=
  match e with
  | Lit p => SL [SY "lit"; e_prim p]
  | Var v => SL [SY "var"; e_var v]
  | Slot s => SL [SY "slot"; e_slot s]
  | Unknown n t => SL [SY "unknown"; SS n; e_opt e_rtype t]
  | If c a b => SL [SY "if"; e_expr c; e_expr a; e_expr b]
  | And a b => SL [SY "and"; e_expr a; e_expr b]
  | Or a b => SL [SY "or"; e_expr a; e_expr b]
  | UnApp o a => SL [SY "unop"; e_unop o; e_expr a]
  | BinApp o a b => SL [SY "binop"; e_binop o; e_expr a; e_expr b]
  | ExtCall fn args => SL [SY "ext"; e_name fn; SL (map e_expr args)]
  | GetAttr a k => SL [SY "getattr"; e_expr a; SS k]
  | HasAttr a k => SL [SY "hasattr"; e_expr a; SS k]
  | Like a p => SL [SY "like"; e_expr a; SL (map e_patelem p)]
  | Is a t => SL [SY "is"; e_expr a; e_name t]
  | SetE items => SL [SY "set"; SL (map e_expr items)]
  | RecordE items => SL [SY "record"; SL (map (fun kv => SL [SS (fst kv); e_expr (snd kv)]) items)]
  end.

Definition run_texpr (cmd : string) (args : list sexp) : option sexp :=
  if sym_eqb cmd "texpr_erase" then
    Some (match args with
          | [t] => match d_texpr t with Some te => e_expr (erase te) | None => bad_input end
          | _ => bad_input
          end)
  else None.
