(* TCRun.v — run command for the store-history model (C04).
   (store_history <spec|inc> (u ...) (op ...))   op = (from|add|upsert <compute|enforce> ((u (p ...)) ...))
                                                    | (remove <compute|enforce> (u ...))
   answer: (steps (step <tag> ((u (parents) (ancestors)) ...) ((0|1 ...) ...) ((0|1 ...) ...)) ...)
   first matrix: row a, column e = is_ancestor_of(a, e); second: row a, column e = `e in a`. *)
From Coq Require Import String.
From Cedar Require Export Sexp TC.
Open Scope string_scope.

Definition d_uid (s : sexp) : option uid := d_N s.
Definition d_ent (s : sexp) : option ent :=
  match s with
  | SL [u; ps] => match d_uid u, d_list d_uid ps with
                  | Some u, Some ps => Some (u, dedup ps)
                  | _, _ => None
                  end
  | _ => None
  end.
Definition d_mode (s : sexp) : option bool :=
  match s with
  | SY m => if sym_eqb m "compute" then Some true else if sym_eqb m "enforce" then Some false else None
  | _ => None
  end.
Definition d_op (s : sexp) : option op :=
  match s with
  | SL [SY k; m; arg] =>
      match d_mode m with
      | None => None
      | Some c =>
          if sym_eqb k "remove" then option_map (fun us => ORemove c us) (d_list d_uid arg)
          else match d_list d_ent arg with
               | None => None
               | Some es => if sym_eqb k "from" then Some (OFrom c es)
                            else if sym_eqb k "add" then Some (OAdd c es)
                            else if sym_eqb k "upsert" then Some (OUpsert c es)
                            else None
               end
      end
  | _ => None
  end.

Definition e_uid (u : uid) : sexp := SI (Z.of_N u).
Definition e_tcerr (e : tc_err) : sexp :=
  SY (match e with ECycle => "cycle" | EDuplicate => "duplicate" | EMissingEdge => "missing_edge" | EFuel => "out_of_fuel" end).
Definition e_b01 (b : bool) : sexp := SI (if b then 1 else 0)%Z.
Definition e_store (s : store) : sexp :=
  e_list (fun kn => SL [e_uid (fst kn); e_list e_uid (n_parents (snd kn)); e_list e_uid (ancestors (snd kn))]) s.
Definition e_step (univ : list uid) (tag : sexp) (s : store) : sexp :=
  e_tag "step" [tag; e_store s;
                e_list (fun a => e_list (fun e => e_b01 (q_is_ancestor_of s a e)) univ) univ;
                e_list (fun a => e_list (fun e => e_b01 (q_in s e a)) univ) univ].

Fixpoint run_steps (f : store -> op -> tres store) (univ : list uid) (s : store) (ops : list op) : list sexp :=
  match ops with
  | [] => []
  | o :: t =>
      match f s o with
      | TOk s' => e_step univ (SY "ok") s' :: run_steps f univ s' t
      | TErr e => e_step univ (e_tcerr e) s :: run_steps f univ s t
      end
  end.

Definition run_store_history (args : list sexp) : sexp :=
  match args with
  | [SY layer; univ; ops] =>
      match d_list d_uid univ, d_list d_op ops with
      | Some univ, Some ops =>
          if sym_eqb layer "spec" then e_tag "steps" (run_steps s_op univ [] ops)
          else if sym_eqb layer "inc" then e_tag "steps" (run_steps i_op univ [] ops)
          else bad_input
      | _, _ => bad_input
      end
  | _ => bad_input
  end.

Definition run_tc (cmd : string) (args : list sexp) : option sexp :=
  if sym_eqb cmd "store_history" then Some (run_store_history args) else None.
