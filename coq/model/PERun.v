(* PERun.v — run command for C13: (partial_authorize <policies> <prequest> <pentities> <sigmas>) *)
From Coq Require Import String.
From Cedar Require Export Codec PE.
Open Scope string_scope.

Definition d_pentry (s : sexp) : option pentry :=
  match s with
  | SL [SY t; a] =>
      if sym_eqb t "known" then option_map EKnown (d_uid a)
      else if sym_eqb t "unknown" then option_map EUnknown (d_opt d_name a)
      else None
  | _ => None
  end.

Definition d_kexprs (s : sexp) : option (list (str * expr)) :=
  match d_expr (SL [SY "record"; s]) with Some (RecordE m) => Some m | _ => None end.

Definition d_pcontext (s : sexp) : option pcontext :=
  match s with
  | SY "unknown" => Some CUnknown
  | SL [SY t; a] =>
      if sym_eqb t "val" then option_map CValue (d_attrs a)
      else if sym_eqb t "res" then option_map CResidual (d_kexprs a)
      else None
  | _ => None
  end.

Definition d_prequest (s : sexp) : option prequest :=
  match s with
  | SL [SY "prequest"; p; a; r; c] =>
      match d_pentry p, d_uid a, d_pentry r, d_pcontext c with
      | Some p, Some a, Some r, Some c => Some (mkPRequest p (EKnown a) r c)
      | _, _, _, _ => None
      end
  | _ => None
  end.

Definition d_pval (s : sexp) : option pval :=
  match s with
  | SL [SY t; a] =>
      if sym_eqb t "val" then option_map PVal (d_value a)
      else if sym_eqb t "res" then option_map PRes (d_expr a)
      else None
  | _ => None
  end.

Definition d_pattrs (s : sexp) : option (list (str * pval)) :=
  option_map (@sort_assoc pval)
    (d_list (fun x => match x with
                      | SL [SS k; v] => option_map (fun pv => (k, pv)) (d_pval v)
                      | _ => None
                      end) s).

Definition d_pentity (s : sexp) : option (uid * pedata) :=
  match s with
  | SL [SY "pentity"; u; attrs; tags; ancs] =>
      match d_uid u, d_pattrs attrs, d_attrs tags, d_list d_uid ancs with
      | Some u, Some a, Some t, Some n => Some (u, mkPEdata a t n)
      | _, _, _, _ => None
      end
  | _ => None
  end.

Definition d_sigma (s : sexp) : option (list (str * value)) :=
  d_list (fun x => match x with
                   | SL [SS k; v] => option_map (fun w => (k, w)) (d_value v)
                   | _ => None
                   end) s.

Definition mapper_of (l : list (str * value)) : mapper := fun n => lookup n l.

(* the substituted store handed to reauthorize: every residual attribute must become a value *)
Definition complete_pval (m : mapper) (pv : pval) : option pval :=
  match pv with
  | PVal v => Some (PVal v)
  | PRes e => match rpeval (subst m e) with PV v => Some (PVal v) | _ => None end
  end.

Definition complete_pentities (m : mapper) (pes : pentities) : option pentities :=
  omapM (fun ud =>
           match omapM (fun kv => option_map (fun pv => (fst kv, pv)) (complete_pval m (snd kv)))
                       (pattrs (snd ud)) with
           | Some a => Some (fst ud, mkPEdata a (ptags (snd ud)) (pancestors (snd ud)))
           | None => None
           end) pes.

Definition e_pstatus (s : pstatus) : sexp :=
  match s with
  | SSat => SY "sat" | SFalse => SY "false" | SErr e => SL [SY "err"; e_err e]
  | SRes _ => SY "residual" | SOut => SY "out"
  end.

Definition e_items (l : list pitem) : sexp :=
  e_list (fun i => SL [SS (iid i); e_pstatus (istat i)]) l.

Definition e_concrete (l : list pitem) : sexp :=
  let r := pconcretize l in
  SL [e_decision (rdecision r); e_list SS (rreasons r); e_items l].

Definition run_partial_authorize (args : list sexp) : sexp :=
  match args with
  | [ps; q; es; sigmas] =>
      match d_list d_policy ps, d_prequest q, d_list d_pentity es, d_list d_sigma sigmas with
      | Some ps, Some q, Some es, Some sigmas =>
          let r := is_authorized_partial ps q es in
          let l := pitems r in
          SL [SY "presp";
              match pdecision l with None => SY "none" | Some d => SL [SY "some"; e_decision d] end;
              e_list SS (must_be_determining l); e_list SS (may_be_determining l);
              e_list SS (definitely_satisfied l); e_list SS (definitely_errored l);
              e_items l;
              e_list (fun sg =>
                        let m := mapper_of sg in
                        match complete_pentities m es with
                        | None => SY "incomplete_entities"
                        | Some es' =>
                            match reauthorize m es' r with
                            | None => SY "reauth_error"
                            | Some r' => e_concrete (pitems r')
                            end
                        end) sigmas]
      | _, _, _, _ => bad_input
      end
  | _ => bad_input
  end.

Definition run_pe (cmd : string) (args : list sexp) : option sexp :=
  if sym_eqb cmd "partial_authorize" then Some (run_partial_authorize args)
  else None.
