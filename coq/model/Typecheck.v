(* Typecheck.v — the policy typechecker (property C03).  Definitions only.

   Rust (cedar-policy-core/src/validator)                          Gallina
   ----------------------------------------------------------------------------------------
   types.rs  Type::is_subtype, Attributes::is_subtype(_depth_only),
             AttributeType::is_subtype, EntityKind::is_subtype     subty
   types.rs  Type::least_upper_bound, Attributes::{strict,permissive}_
             least_upper_bound, AttributeType::least_upper_bound,
             EntityKind::least_upper_bound                         lub
   types.rs  Type::reduce_to_least_upper_bound                     lub_list
   types.rs  Type::are_types_disjoint, EntityLUB::is_disjoint      disjoint_tys
   types.rs  EntityLUB::get_attribute_types, EntityKind::get_attr,
             Type::lookup_attribute_type                           lub_attrs, lookup_attr_ty
   types.rs  EntityKind::has_open_attributes_record,
             Type::may_have_attr                                   may_have_attr
   types.rs  Type::euid_literal                                    euid_literal_ty
   types/capability.rs  Capability, CapabilitySet                  cap, caps, caps_union/inter/mem
   typecheck.rs SingleEnvTypechecker::typecheck (every arm),
             typecheck_unary, typecheck_binary, typecheck_in,
             type_of_equality, enforce_strict_equality, tag_types,
             any_entity_type_decedent_of, check_action_in_entity_type,
             type_of_action_in_entity_literals/_in_actions,
             expect_one_of_types / expect_type,
             typecheck_extension (signature table of the extensions)  tc
   typecheck.rs Typechecker::single_env_typechecking               tc_env (PolicyCheck class)
   validator.rs validate_entity_types / validate_enum_entity /
             validate_action_ids, restricted to the entity literals
             of the condition                                      lits_ok

   `tc` returns None for TypecheckFail and stops at the first failure (the Rust code goes on to
   collect further errors; a failed sub-answer always makes the whole answer fail — then_typecheck /
   sequence_all_then_typecheck end in into_fail — so accept/reject is the same).  It returns the
   TYPE of the expression and the output capability set; the type-annotated tree is not built (the
   harness dumps the implementation's own annotated tree, decoded by TExpr.d_texpr).

   Association lists stand for BTreeMaps: keys unique.  `subty` on records iterates over the
   left-hand attributes (structural recursion) after a key-inclusion test, which on duplicate-free
   maps is the same as the Rust iteration over the right-hand attributes with lookups on the left.

   Not modelled: partial-schema mode (ValidationMode::Partial), RecursionLimit, error messages,
   the argument check of the ip / datetime / duration constructors on literal strings (their
   parsers are not in the model: `modelled_expr` says which expressions are outside). *)
From Coq Require Import String.
From Cedar Require Export TExpr Eval.
Open Scope string_scope.
Open Scope list_scope.

Inductive vmode := Strict | Permissive.
Definition is_strict (m : vmode) : bool := match m with Strict => true | Permissive => false end.

(* ---------------------------------------------------------------------------------------
   subtyping *)
Definition keys_subset {A B} (xs : list (str * A)) (ys : list (str * B)) : bool :=
  forallb (fun kv => has_key (fst kv) ys) xs.

Definition boolty_sub (x y : boolty) : bool :=
  match x, y with
  | BTrue, BAny | BFalse, BAny => true
  | _, _ => boolty_eqb x y
  end.

Definition lub_subset (a b : list etype) : bool := forallb (lub_contains b) a.

(* EntityKind::is_subtype *)
Definition entkind_sub (m : vmode) (a b : entkind) : bool :=
  match a, b with
  | ELub x, ELub y => if is_strict m then lub_eqb x y else lub_subset x y
  | AnyEntity, AnyEntity => true
  | ELub _, AnyEntity => negb (is_strict m)
  | AnyEntity, ELub _ => false
  end.

Fixpoint subty (m : vmode) (a b : ty) {struct a} : bool :=
  match a with
  | TNever => true
  | TBool x => match b with TBool y => boolty_sub x y | _ => false end
  | TLong => match b with TLong => true | _ => false end
  | TString => match b with TString => true | _ => false end
  | TSet ea =>
      match b with
      | TSet eb =>
          match ea, eb with
          | Some x, Some y => subty m x y
          | Some _, None => true
          | None, Some _ => false
          | None, None => true
          end
      | _ => false
      end
  | TRecord xs ox =>
      match b with
      | TRecord ys oy =>
          (* Attributes::is_subtype self=xs other=ys: every attribute of ys is in xs with a subtype *)
          let attrs_sub :=
            keys_subset ys xs &&
            (fix go (l : attrs_ty) : bool :=
               match l with
               | [] => true
               | (k, (tx, rx)) :: l' =>
                   match lookup k ys with
                   | Some (t_y, ry) =>
                       (if is_strict m then Bool.eqb rx ry else rx || negb ry) && subty m tx t_y
                   | None => true
                   end && go l'
               end) xs in
          (negb ox || oy) &&
          ((oy && negb (is_strict m) && attrs_sub) || (keys_subset xs ys && attrs_sub))
      | _ => false
      end
  | TEntity ka => match b with TEntity kb => entkind_sub m ka kb | _ => false end
  | TExt x => match b with TExt y => name_eqb x y | _ => false end
  end.

(* ---------------------------------------------------------------------------------------
   least upper bounds *)
Definition lub_union (a b : list etype) : list etype :=
  a ++ filter (fun t => negb (lub_contains a t)) b.

(* EntityKind::least_upper_bound *)
Definition entkind_lub (m : vmode) (a b : entkind) : option entkind :=
  match a, b with
  | ELub x, ELub y => if is_strict m && negb (lub_eqb x y) then None else Some (ELub (lub_union x y))
  | AnyEntity, AnyEntity => Some AnyEntity
  | _, _ => if is_strict m then None else Some AnyEntity
  end.

Fixpoint lub (m : vmode) (a b : ty) {struct a} : option ty :=
  if subty m a b then Some b
  else if subty m b a then Some a
  else
    match a with
    | TBool _ => match b with TBool _ => Some (TBool BAny) | _ => None end
    | TSet ea =>
        match b with
        | TSet eb =>
            match ea, eb with
            | Some x, Some y => option_map (fun t => TSet (Some t)) (lub m x y)
            | _, _ => Some (TSet None)
            end
        | _ => None
        end
    | TRecord xs ox =>
        match b with
        | TRecord ys oy =>
            (* attributes_lub_iter over xs; strict: any error is an error, the key sets must be equal;
               permissive: erroring attributes are dropped (flat_map over Results) *)
            let attrs :=
              (fix go (l : attrs_ty) : option attrs_ty :=
                 match l with
                 | [] => Some []
                 | (k, (tx, rx)) :: l' =>
                     let this :=
                       match lookup k ys with
                       | None => None
                       | Some (t_y, ry) =>
                           match lub m tx t_y with
                           | None => None
                           | Some t => if is_strict m && negb (Bool.eqb rx ry) then None
                                       else Some (k, (t, rx && ry))
                           end
                       end in
                     match this, go l' with
                     | Some kv, Some rest => Some (kv :: rest)
                     | None, Some rest => if is_strict m then None else Some rest
                     | _, None => None
                     end
                 end) xs in
            if is_strict m && negb (keys_subset xs ys && keys_subset ys xs) then None
            else
              match attrs with
              | None => None
              | Some at_ =>
                  let all_keys_kept := keys_subset xs at_ && keys_subset ys at_ in
                  Some (TRecord at_ (ox || oy || negb all_keys_kept))
              end
        | _ => None
        end
    | TEntity ka => match b with TEntity kb => option_map TEntity (entkind_lub m ka kb) | _ => None end
    | _ => None
    end.

(* Type::reduce_to_least_upper_bound: try_fold from Never *)
Fixpoint lub_list_from (m : vmode) (acc : ty) (l : list ty) : option ty :=
  match l with
  | [] => Some acc
  | t :: l' => match lub m acc t with Some a => lub_list_from m a l' | None => None end
  end.
Definition lub_list (m : vmode) (l : list ty) : option ty := lub_list_from m TNever l.

(* Type::are_types_disjoint *)
Definition disjoint_tys (a b : ty) : bool :=
  match a, b with
  | TEntity (ELub x), TEntity (ELub y) => forallb (fun t => negb (lub_contains y t)) x
  | _, _ => false
  end.

(* ---------------------------------------------------------------------------------------
   attributes of entity types *)
Section WithSchema.
  Variable sch : schema.

  Definition etype_attrs (t : etype) : attrs_ty :=
    match find_etype sch t with Some i => et_attrs i | None => [] end.

  (* Attributes::permissive_least_upper_bound *)
  Definition attrs_plub (xs ys : attrs_ty) : attrs_ty :=
    match lub Permissive (TRecord xs false) (TRecord ys false) with
    | Some (TRecord a _) => a
    | _ => []
    end.

  (* EntityLUB::get_attribute_types *)
  Definition lub_attrs (ts : list etype) : attrs_ty :=
    match ts with
    | [] => []
    | t :: ts' => fold_left (fun acc t' => attrs_plub acc (etype_attrs t')) ts' (etype_attrs t)
    end.

  (* Type::lookup_attribute_type *)
  Definition lookup_attr_ty (t : ty) (a : str) : option (ty * bool) :=
    match t with
    | TRecord attrs _ => lookup a attrs
    | TEntity (ELub ts) => lookup a (lub_attrs ts)
    | _ => None
    end.

  (* EntityKind::has_open_attributes_record *)
  Definition has_open_attrs (k : entkind) : bool :=
    match k with
    | AnyEntity => true
    | ELub ts => existsb (fun t => negb (is_action_type t) &&
                                   match find_etype sch t with Some i => et_open i | None => true end) ts
    end.

  (* Type::may_have_attr *)
  Definition may_have_attr (t : ty) (a : str) : bool :=
    match t with
    | TNever => true
    | TEntity k =>
        has_open_attrs k ||
        match k with
        | ELub ts => existsb (fun t' => has_key a (etype_attrs t')) ts
        | AnyEntity => false
        end
    | TRecord attrs open => open || has_key a attrs
    | _ => false
    end.

  (* Type::euid_literal *)
  Definition euid_literal_ty (u : uid) : option ty :=
    if is_action_type (uty u) then (if known_action sch u then Some (ty_entity (uty u)) else None)
    else match find_etype sch (uty u) with Some _ => Some (ty_entity (uty u)) | None => None end.

  (* SingleEnvTypechecker::tag_types (a set of types: duplicates removed) *)
  Fixpoint dedup_tys (l : list ty) : list ty :=
    match l with
    | [] => []
    | t :: l' => if existsb (ty_eqb t) l' then dedup_tys l' else t :: dedup_tys l'
    end.
  Definition tags_of (t : etype) : list ty :=
    match find_etype sch t with Some i => match et_tags i with Some x => [x] | None => [] end | None => [] end.
  Definition tag_types (k : entkind) : list ty :=
    dedup_tys (match k with
               | ELub ts => flat_map tags_of ts
               | AnyEntity => flat_map (fun ni => match et_tags (snd ni) with Some x => [x] | None => [] end) (s_etypes sch)
               end).

  (* check_action_in_entity_type *)
  Definition check_action_in_entity_type (l r : etype) : bool :=
    name_eqb l r ||
    existsb (fun ui => name_eqb (uty (fst ui)) r &&
                       existsb (fun d => name_eqb (uty d) l) (ai_descendants (snd ui))) (s_actions sch).

  (* any_entity_type_decedent_of *)
  Definition any_descendant_of (ls rs : list etype) : bool :=
    existsb (fun l => existsb (fun r => existsb (name_eqb l) (etypes_in sch r) ||
                                        check_action_in_entity_type l r) rs) ls.

  (* ValidatorSchema::get_actions_in_set *)
  Fixpoint actions_in_set (us : list uid) : option (list uid) :=
    match us with
    | [] => Some []
    | u :: us' =>
        match actions_in sch u, actions_in_set us' with
        | Some a, Some rest => Some (a ++ rest)
        | _, _ => None
        end
    end.
End WithSchema.

(* ---------------------------------------------------------------------------------------
   capabilities *)
Definition var_eqb (a b : var) : bool :=
  match a, b with
  | Principal, Principal | Action, Action | Resource, Resource | Context, Context => true
  | _, _ => false
  end.
Definition unop_eqb (a b : unop) : bool :=
  match a, b with UNot, UNot | UNeg, UNeg | UIsEmpty, UIsEmpty => true | _, _ => false end.
Definition binop_eqb (a b : binop) : bool :=
  match a, b with
  | BEq, BEq | BLess, BLess | BLessEq, BLessEq | BAdd, BAdd | BSub, BSub | BMul, BMul | BIn, BIn
  | BContains, BContains | BContainsAll, BContainsAll | BContainsAny, BContainsAny
  | BGetTag, BGetTag | BHasTag, BHasTag => true
  | _, _ => false
  end.
Definition patelem_eqb (a b : patelem) : bool :=
  match a, b with PChar x, PChar y => N.eqb x y | PStar, PStar => true | _, _ => false end.
Fixpoint pattern_eqb (a b : pattern) : bool :=
  match a, b with
  | [], [] => true
  | x :: a', y :: b' => patelem_eqb x y && pattern_eqb a' b'
  | _, _ => false
  end.
Definition orty_eqb (a b : option rtype) : bool :=
  match a, b with Some x, Some y => rtype_eqb x y | None, None => true | _, _ => false end.

(* ExprShapeOnly equality: the expression kinds, ignoring source locations and annotations *)
Fixpoint expr_eqb (a b : expr) {struct a} : bool :=
  match a, b with
  | Lit p, Lit q => prim_eqb p q
  | Var v, Var w => var_eqb v w
  | Slot s, Slot t => slot_eqb s t
  | Unknown n t, Unknown n' t' => str_eqb n n' && orty_eqb t t'
  | If c x y, If c' x' y' => expr_eqb c c' && expr_eqb x x' && expr_eqb y y'
  | And x y, And x' y' => expr_eqb x x' && expr_eqb y y'
  | Or x y, Or x' y' => expr_eqb x x' && expr_eqb y y'
  | UnApp o x, UnApp o' x' => unop_eqb o o' && expr_eqb x x'
  | BinApp o x y, BinApp o' x' y' => binop_eqb o o' && expr_eqb x x' && expr_eqb y y'
  | ExtCall f xs, ExtCall f' ys =>
      name_eqb f f' &&
      (fix go (l : list expr) (m : list expr) : bool :=
         match l, m with
         | [], [] => true
         | x :: l', y :: m' => expr_eqb x y && go l' m'
         | _, _ => false
         end) xs ys
  | GetAttr x k, GetAttr x' k' => expr_eqb x x' && str_eqb k k'
  | HasAttr x k, HasAttr x' k' => expr_eqb x x' && str_eqb k k'
  | Like x p, Like x' p' => expr_eqb x x' && pattern_eqb p p'
  | Is x t, Is x' t' => expr_eqb x x' && name_eqb t t'
  | SetE xs, SetE ys =>
      (fix go (l : list expr) (m : list expr) : bool :=
         match l, m with
         | [], [] => true
         | x :: l', y :: m' => expr_eqb x y && go l' m'
         | _, _ => false
         end) xs ys
  | RecordE xs, RecordE ys =>
      (fix go (l : list (str * expr)) (m : list (str * expr)) : bool :=
         match l, m with
         | [], [] => true
         | (k, x) :: l', (k', y) :: m' => str_eqb k k' && expr_eqb x y && go l' m'
         | _, _ => false
         end) xs ys
  | _, _ => false
  end.

Inductive ckind := CAttr | CTag.
Definition ckind_eqb (a b : ckind) : bool := match a, b with CAttr, CAttr | CTag, CTag => true | _, _ => false end.

(* Capability { on_expr, attribute_or_tag, kind } *)
Record cap := mkCap { c_kind : ckind; c_on : expr; c_what : expr }.
Definition cap_eqb (a b : cap) : bool :=
  ckind_eqb (c_kind a) (c_kind b) && expr_eqb (c_on a) (c_on b) && expr_eqb (c_what a) (c_what b).
Definition cap_attr (e : expr) (a : str) : cap := mkCap CAttr e (Lit (PString a)).   (* Capability::new_attribute *)
Definition cap_tag (e k : expr) : cap := mkCap CTag e k.                            (* Capability::new_borrowed_tag *)

Definition caps := list cap.                                                       (* CapabilitySet *)
Definition caps_mem (c : cap) (s : caps) : bool := existsb (cap_eqb c) s.
Definition caps_union (a b : caps) : caps := a ++ b.
Definition caps_inter (a b : caps) : caps := filter (fun c => caps_mem c b) a.

(* ---------------------------------------------------------------------------------------
   extension function signatures (validator extensions decimal, ipaddr, datetime):
   argument types, return type, has_argument_check *)
Definition ext_ty (s : string) : ty := TExt [s2str s].
Definition t_decimal := ext_ty "decimal".
Definition t_ip := ext_ty "ipaddr".
Definition t_datetime := ext_ty "datetime".
Definition t_duration := ext_ty "duration".

Definition ext_sigs : list (string * (list ty * ty * bool)) :=
  [ ("decimal", ([TString], t_decimal, true));
    ("lessThan", ([t_decimal; t_decimal], TBool BAny, false));
    ("lessThanOrEqual", ([t_decimal; t_decimal], TBool BAny, false));
    ("greaterThan", ([t_decimal; t_decimal], TBool BAny, false));
    ("greaterThanOrEqual", ([t_decimal; t_decimal], TBool BAny, false));
    ("ip", ([TString], t_ip, true));
    ("isIpv4", ([t_ip], TBool BAny, false)); ("isIpv6", ([t_ip], TBool BAny, false));
    ("isLoopback", ([t_ip], TBool BAny, false)); ("isMulticast", ([t_ip], TBool BAny, false));
    ("isInRange", ([t_ip; t_ip], TBool BAny, false));
    ("datetime", ([TString], t_datetime, true)); ("duration", ([TString], t_duration, true));
    ("offset", ([t_datetime; t_duration], t_datetime, false));
    ("durationSince", ([t_datetime; t_datetime], t_duration, false));
    ("toDate", ([t_datetime], t_datetime, false)); ("toTime", ([t_datetime], t_duration, false));
    ("toMilliseconds", ([t_duration], TLong, false)); ("toSeconds", ([t_duration], TLong, false));
    ("toMinutes", ([t_duration], TLong, false)); ("toHours", ([t_duration], TLong, false));
    ("toDays", ([t_duration], TLong, false)) ].

Definition lookup_ext_sig (fn : name) : option (list ty * ty * bool) :=
  match fn with
  | [b] => (fix go (l : list (string * (list ty * ty * bool))) :=
              match l with
              | [] => None
              | (n, s) :: l' => if str_eqb b (s2str n) then Some s else go l'
              end) ext_sigs
  | _ => None
  end.

(* check_arguments of the constructors: a literal string argument must parse.  Only the decimal
   parser is in the model (Ext.parse_decimal). *)
Definition ctor_args_ok (fn : name) (args : list expr) : bool :=
  match args with
  | [Lit (PString s)] =>
      if name_eqb fn [s2str "decimal"] then match parse_decimal s with Some _ => true | None => false end
      else true
  | _ => true
  end.

(* is_valid_comparison_op_type: Long, datetime, duration *)
Definition valid_cmp_ty (t : ty) : bool :=
  match t with
  | TLong => true
  | TExt n => name_eqb n [s2str "datetime"] || name_eqb n [s2str "duration"]
  | _ => false
  end.

Definition is_lit (e : expr) : bool := match e with Lit _ => true | _ => false end.

(* ---------------------------------------------------------------------------------------
   the typechecker for one request environment *)
Section TC.
  Variable m : vmode.
  Variable sch : schema.
  Variable env : reqenv.

  Definition tres := option (ty * caps).

  (* expect_one_of_types: the subtype test is ALWAYS permissive (comment in the Rust code) *)
  Definition expect (r : tres) (expected : list ty) : tres :=
    match r with
    | Some (t, c) => if existsb (subty Permissive t) expected then Some (t, c) else None
    | None => None
    end.

  Definition ty_of_var (v : var) : option ty :=
    match v with
    | Principal => Some (ty_entity (re_principal env))
    | Action => euid_literal_ty sch (re_action env)
    | Resource => Some (ty_entity (re_resource env))
    | Context => Some (re_context env)
    end.

  Definition ty_of_slot (s : slot) : ty :=
    match (match s with SlotPrincipal => re_principal_slot env | SlotResource => re_resource_slot env end) with
    | Some t => ty_entity t
    | None => ty_any_entity
    end.

  (* replace_action_var_with_euid, then "is it an entity literal" *)
  Definition replace_action (e : expr) : expr :=
    match e with Var Action => Lit (PEntity (re_action env)) | _ => e end.
  Definition euid_of (e : expr) : option uid :=
    match replace_action e with Lit (PEntity u) => Some u | _ => None end.
  Definition euids_of (e : expr) : option (list uid) :=
    match euid_of e with
    | Some u => Some [u]
    | None => match e with SetE items => omapM euid_of items | _ => None end
    end.

  (* type_of_equality *)
  Definition type_of_equality (l : expr) (tl : ty) (r : expr) (tr : ty) : ty :=
    if disjoint_tys tl tr then TBool BFalse
    else match replace_action l, replace_action r with
         | Lit p, Lit q => ty_singleton (prim_eqb p q)
         | _, _ => TBool BAny
         end.

  (* enforce_strict_equality (both operand types known) *)
  Definition strict_eq_ok (annotated : ty) (tl tr : ty) : bool :=
    match annotated with
    | TBool BTrue | TBool BFalse => true
    | _ => match lub m tl tr with Some _ => true | None => false end
    end.

  (* type_of_action_in_entity_literals *)
  Definition type_of_action_in (l : uid) (rs : list uid) : option ty :=
    let acts := filter (fun u => is_action_type (uty u)) rs in
    match acts with
    | [] => Some (TBool BFalse)
    | _ => match actions_in_set sch acts with
           | Some ds => Some (ty_singleton (existsb (uid_eqb l) ds))
           | None => None
           end
    end.

  Definition entity_lub_of (t : ty) : option (list etype) :=
    match t with TEntity (ELub l) => Some l | _ => None end.
  Definition entity_lub_of_rhs (t : ty) : option (list etype) :=
    match t with
    | TEntity (ELub l) => Some l
    | TSet (Some (TEntity (ELub l))) => Some l
    | _ => None
    end.

  Fixpoint tc (cs : caps) (e : expr) {struct e} : tres :=
    match e with
    | Lit (PBool b) => Some (ty_singleton b, [])
    | Lit (PLong _) => Some (TLong, [])
    | Lit (PString _) => Some (TString, [])
    | Lit (PEntity u) => match euid_literal_ty sch u with Some t => Some (t, []) | None => None end
    | Var v => match ty_of_var v with Some t => Some (t, []) | None => None end
    | Slot s => Some (ty_of_slot s, [])
    | Unknown _ _ => None
    | If c x y =>
        match expect (tc cs c) [TBool BAny] with
        | None => None
        | Some (tcnd, ccnd) =>
            match tcnd with
            | TBool BTrue =>
                match tc (caps_union cs ccnd) x with
                | Some (tx, cx) => Some (tx, caps_union cx ccnd)
                | None => None
                end
            | TBool BFalse => tc cs y
            | _ =>
                match tc (caps_union cs ccnd) x, tc cs y with
                | Some (tx, cx), Some (t_y, cy) =>
                    match lub m tx t_y with
                    | Some t => Some (t, caps_inter cy (caps_union cx ccnd))
                    | None => None
                    end
                | _, _ => None
                end
            end
        end
    | And a b =>
        match expect (tc cs a) [TBool BAny] with
        | None => None
        | Some (ta, ca) =>
            match ta with
            | TBool BFalse => Some (ta, [])
            | _ =>
                match expect (tc (caps_union cs ca) b) [TBool BAny] with
                | None => None
                | Some (tb, cb) =>
                    match tb with
                    | TBool BFalse => Some (TBool BFalse, [])
                    | TBool BTrue => Some (ta, caps_union ca cb)
                    | _ =>
                        match ta with
                        | TBool BTrue => Some (tb, caps_union cb cb)     (* sic: capability_right ∪ capability_right *)
                        | _ => Some (TBool BAny, caps_union ca cb)
                        end
                    end
                end
            end
        end
    | Or a b =>
        match expect (tc cs a) [TBool BAny] with
        | None => None
        | Some (ta, ca) =>
            match ta with
            | TBool BTrue => Some (ta, ca)
            | _ =>
                match expect (tc cs b) [TBool BAny] with
                | None => None
                | Some (tb, cb) =>
                    match tb with
                    | TBool BTrue => Some (TBool BTrue, cb)
                    | TBool BFalse => Some (ta, ca)
                    | _ =>
                        match ta with
                        | TBool BFalse => Some (tb, cb)
                        | _ => Some (TBool BAny, caps_inter cb ca)
                        end
                    end
                end
            end
        end
    | UnApp UNot a =>
        match expect (tc cs a) [TBool BAny] with
        | Some (TBool BTrue, _) => Some (TBool BFalse, [])
        | Some (TBool BFalse, _) => Some (TBool BTrue, [])
        | Some (_, _) => Some (TBool BAny, [])
        | None => None
        end
    | UnApp UNeg a =>
        match expect (tc cs a) [TLong] with Some _ => Some (TLong, []) | None => None end
    | UnApp UIsEmpty a =>
        match expect (tc cs a) [ty_any_set] with Some _ => Some (TBool BAny, []) | None => None end
    | BinApp BEq a b =>
        match tc cs a, tc cs b with
        | Some (ta, _), Some (tb, _) =>
            let t := type_of_equality a ta b tb in
            if is_strict m then (if strict_eq_ok t ta tb then Some (t, []) else None)
            else Some (t, [])
        | _, _ => None
        end
    | BinApp BLess a b | BinApp BLessEq a b =>
        match tc cs a, tc cs b with
        | Some (ta, _), Some (tb, _) =>
            match ta, tb with
            | TNever, TNever => None
            | TNever, o | o, TNever => if valid_cmp_ty o then Some (TBool BAny, []) else None
            | _, _ => if ty_eqb ta tb && valid_cmp_ty ta then Some (TBool BAny, []) else None
            end
        | _, _ => None
        end
    | BinApp BAdd a b | BinApp BSub a b | BinApp BMul a b =>
        match expect (tc cs a) [TLong], expect (tc cs b) [TLong] with
        | Some _, Some _ => Some (TLong, [])
        | _, _ => None
        end
    | BinApp BIn a b =>
        match expect (tc cs a) [ty_any_entity], expect (tc cs b) [ty_set ty_any_entity; ty_any_entity] with
        | Some (ta, _), Some (tb, _) =>
            match euid_of a, euids_of b with
            | Some l, Some rs =>
                if is_action_type (uty l) then
                  match type_of_action_in l rs with Some t => Some (t, []) | None => None end
                else
                  match entity_lub_of ta, entity_lub_of_rhs tb with
                  | Some ls, Some rs' => if any_descendant_of sch ls rs' then Some (TBool BAny, []) else Some (TBool BFalse, [])
                  | _, _ => Some (TBool BAny, [])
                  end
            | _, _ =>
                match entity_lub_of ta, entity_lub_of_rhs tb with
                | Some ls, Some rs' => if any_descendant_of sch ls rs' then Some (TBool BAny, []) else Some (TBool BFalse, [])
                | _, _ => Some (TBool BAny, [])
                end
            end
        | _, _ => None
        end
    | BinApp BContains a b =>
        match expect (tc cs a) [ty_any_set], tc cs b with
        | Some (ta, _), Some (tb, _) =>
            if is_strict m then
              match ta with
              | TSet (Some te) => if strict_eq_ok (TBool BAny) te tb then Some (TBool BAny, []) else None
              | _ => Some (TBool BAny, [])
              end
            else Some (TBool BAny, [])
        | _, _ => None
        end
    | BinApp BContainsAll a b | BinApp BContainsAny a b =>
        match expect (tc cs a) [ty_any_set], expect (tc cs b) [ty_any_set] with
        | Some (ta, _), Some (tb, _) =>
            if is_strict m then (if strict_eq_ok (TBool BAny) ta tb then Some (TBool BAny, []) else None)
            else Some (TBool BAny, [])
        | _, _ => None
        end
    | BinApp BHasTag a b =>
        match expect (tc cs a) [ty_any_entity], expect (tc cs b) [TString] with
        | Some (TEntity k, _), Some _ =>
            let t := match tag_types sch k with
                     | [] => TBool BFalse
                     | _ => if caps_mem (cap_tag a b) cs then TBool BTrue else TBool BAny
                     end in
            Some (t, [cap_tag a b])
        | _, _ => None
        end
    | BinApp BGetTag a b =>
        match expect (tc cs a) [ty_any_entity], expect (tc cs b) [TString] with
        | Some (TEntity k, _), Some _ =>
            if caps_mem (cap_tag a b) cs then
              match tag_types sch k with
              | [] => None
              | tts => match lub_list m tts with Some t => Some (t, []) | None => None end
              end
            else None
        | _, _ => None
        end
    | ExtCall fn args =>
        match lookup_ext_sig fn with
        | None => None
        | Some (arg_tys, ret, has_check) =>
            if negb (Nat.eqb (List.length args) (List.length arg_tys)) then None
            else if has_check && negb (ctor_args_ok fn args) then None
            else if is_strict m && has_check && negb (forallb is_lit args) then None
            else
              if (fix go (l : list expr) (ts : list ty) : bool :=
                    match l, ts with
                    | [], _ => true
                    | x :: l', t :: ts' =>
                        match expect (tc cs x) [t] with Some _ => go l' ts' | None => false end
                    | _ :: _, [] => false
                    end) args arg_tys
              then Some (ret, []) else None
        end
    | GetAttr x a =>
        match expect (tc cs x) [ty_any_entity; ty_any_record] with
        | None => None
        | Some (tx, _) =>
            match lookup_attr_ty sch tx a with
            | Some (t, req) => if req || caps_mem (cap_attr x a) cs then Some (t, []) else None
            | None => None
            end
        end
    | HasAttr x a =>
        match expect (tc cs x) [ty_any_entity; ty_any_record] with
        | None => None
        | Some (tx, _) =>
            match lookup_attr_ty sch tx a with
            | Some (_, true) =>
                let is_rec := match tx with TRecord _ _ => true | _ => false end in
                Some (if is_rec || caps_mem (cap_attr x a) cs then TBool BTrue else TBool BAny, [cap_attr x a])
            | Some (_, false) =>
                Some (if caps_mem (cap_attr x a) cs then TBool BTrue else TBool BAny, [cap_attr x a])
            | None => Some (if may_have_attr sch tx a then TBool BAny else TBool BFalse, [])
            end
        end
    | Like x _ =>
        match expect (tc cs x) [TString] with Some _ => Some (TBool BAny, []) | None => None end
    | Is x et =>
        match expect (tc cs x) [ty_any_entity] with
        | Some (TEntity (ELub l), _) =>
            Some (if negb (lub_contains l et) then TBool BFalse
                  else match l with [_] => TBool BTrue | _ => TBool BAny end, [])
        | Some (TEntity AnyEntity, _) => Some (TBool BAny, [])
        | _ => None
        end
    | SetE items =>
        match (fix go (l : list expr) : option (list ty) :=
                 match l with
                 | [] => Some []
                 | x :: l' => match tc cs x, go l' with
                              | Some (t, _), Some ts => Some (t :: ts)
                              | _, _ => None
                              end
                 end) items with
        | None => None
        | Some ts =>
            match items with
            | [] => if is_strict m then None else Some (TSet (Some TNever), [])
            | _ => match lub_list m ts with Some t => Some (TSet (Some t), []) | None => None end
            end
        end
    | RecordE items =>
        match (fix go (l : list (str * expr)) : option attrs_ty :=
                 match l with
                 | [] => Some []
                 | (k, x) :: l' => match tc cs x, go l' with
                                   | Some (t, _), Some rest => Some ((k, (t, true)) :: rest)
                                   | _, _ => None
                                   end
                 end) items with
        | Some attrs => Some (TRecord attrs false, [])
        | None => None
        end
    end.

  (* Typechecker::single_env_typechecking *)
  Inductive env_check := EnvSuccess (t : ty) | EnvIrrelevant | EnvFail.
  Definition tc_env (cond : expr) : env_check :=
    match expect (tc [] cond) [TBool BAny] with
    | Some (TBool BFalse, _) => EnvIrrelevant
    | Some (t, _) => EnvSuccess t
    | None => EnvFail
    end.
End TC.

(* ---------------------------------------------------------------------------------------
   entity literals of the condition (validate_entity_types, validate_enum_entity,
   validate_action_ids): declared type / declared action / declared enumerated id *)
Definition lit_ok (sch : schema) (u : uid) : bool :=
  if is_action_type (uty u) then known_action sch u
  else match find_etype sch (uty u) with
       | Some i => match et_enum i with Some ch => existsb (str_eqb (ueid u)) ch | None => true end
       | None => false
       end.

Fixpoint lits_ok (sch : schema) (e : expr) {struct e} : bool :=
  match e with
  | Lit (PEntity u) => lit_ok sch u
  | Lit _ | Var _ | Slot _ | Unknown _ _ => true
  | If c x y => lits_ok sch c && lits_ok sch x && lits_ok sch y
  | And x y | Or x y | BinApp _ x y => lits_ok sch x && lits_ok sch y
  | UnApp _ x | GetAttr x _ | HasAttr x _ | Like x _ => lits_ok sch x
  | Is x t => lits_ok sch x && known_etype sch t
  | ExtCall _ xs | SetE xs =>
      (fix go (l : list expr) : bool := match l with [] => true | x :: l' => lits_ok sch x && go l' end) xs
  | RecordE xs =>
      (fix go (l : list (str * expr)) : bool :=
         match l with [] => true | (_, x) :: l' => lits_ok sch x && go l' end) xs
  end.

(* expressions whose typing needs a parser the model does not have: ip / datetime / duration
   constructors applied to a literal string *)
Fixpoint modelled_expr (e : expr) {struct e} : bool :=
  match e with
  | Lit _ | Var _ | Slot _ | Unknown _ _ => true
  | If c x y => modelled_expr c && modelled_expr x && modelled_expr y
  | And x y | Or x y | BinApp _ x y => modelled_expr x && modelled_expr y
  | UnApp _ x | GetAttr x _ | HasAttr x _ | Like x _ | Is x _ => modelled_expr x
  | ExtCall fn xs =>
      negb (match xs with
            | [Lit (PString _)] => name_eqb fn [s2str "ip"] || name_eqb fn [s2str "datetime"] || name_eqb fn [s2str "duration"]
            | _ => false
            end) &&
      (fix go (l : list expr) : bool := match l with [] => true | x :: l' => modelled_expr x && go l' end) xs
  | SetE xs =>
      (fix go (l : list expr) : bool := match l with [] => true | x :: l' => modelled_expr x && go l' end) xs
  | RecordE xs =>
      (fix go (l : list (str * expr)) : bool :=
         match l with [] => true | (_, x) :: l' => modelled_expr x && go l' end) xs
  end.
