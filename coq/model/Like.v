(* Like.v — the two-pointer wildcard loop of ast/pattern.rs (Pattern::wildcard_match), transcribed
   with list suffixes instead of indices:
     s  = text[i..]            p  = pattern[j..]
     bt = Some (pattern[star_idx+1..], text[tmp_idx..])   when contains_star
   `Eval.wildcard` is the declarative matcher; LikeProofs.v proves the loop computes it. *)
From Cedar Require Export Eval.

Definition is_star (e : patelem) : bool := match e with PStar => true | PChar _ => false end.
Definition all_stars (p : pattern) : bool := forallb is_star p.

Definition wl_state := (str * pattern * option (pattern * str))%type.

Fixpoint wl (fuel : nat) (s : str) (p : pattern) (bt : option (pattern * str)) : option bool :=
  match fuel with
  | O => None
  | S f =>
      let backtrack :=
        match bt with
        | Some (pb, _ :: sb') => wl f sb' pb (Some (pb, sb'))   (* j = star_idx+1; i = tmp_idx+1; tmp_idx = i *)
        | Some (_, []) => Some false                             (* unreachable: tmp_idx <= i < len *)
        | None => Some false                                     (* return false *)
        end in
      match s with
      | [] => Some (all_stars p)                                 (* i = text_len: skip trailing stars *)
      | c :: s' =>
          match bt with
          | Some ([], _) => Some (all_stars p)                   (* star_idx = pattern_len - 1: loop exits *)
          | _ =>
              match p with
              | PStar :: p' => wl f s p' (Some (p', s))
              | PChar x :: p' => if N.eqb x c then wl f s' p' bt else backtrack
              | [] => backtrack
              end
          end
      end
  end.

(* A measure that decreases at every iteration (LikeProofs.wl_terminates), hence enough fuel *)
Definition wl_measure (s : str) (p : pattern) (bt : option (pattern * str)) : nat :=
  match bt with
  | Some (pb, sb) => length sb * (length sb + length pb + 2) + length s + length p
  | None => (length s + 1) * (length s + 1 + length p + 2) + length s + length p
  end.
Definition wl_fuel (p : pattern) (s : str) : nat := S (wl_measure s p None).

Definition wildcard_loop (p : pattern) (s : str) : bool :=
  match p with
  | [] => match s with [] => true | _ => false end              (* pattern.is_empty() => text.is_empty() *)
  | _ => match wl (wl_fuel p s) s p None with Some b => b | None => false end
  end.
