(* ManifestProofs.v — lemmas about slicing by a manifest (model/Manifest.v) *)
From Cedar Require Import Manifest.
From Coq Require Import List.
Import ListNotations.

(* the record case of slice_val as a standalone function *)
Fixpoint slice_fields (t : trie) (l : list (str * value)) : sres (list (str * value)) :=
  match l with
  | [] => SOk []
  | (k, x) :: l' =>
      match lookup k (t_children t) with
      | None => slice_fields t l'
      | Some t' => match slice_val t' x, slice_fields t l' with
                   | SOk x', SOk r' => SOk ((k, x') :: r')
                   | SErr e, _ => SErr e
                   | _, SErr e => SErr e
                   end
      end
  end.

Lemma slice_val_record : forall t r,
  slice_val t (VRecord r) =
  match slice_fields t r with SOk r' => SOk (VRecord r') | SErr e => SErr e end.
Proof.
  intros t r. cbn [slice_val].
  match goal with
  | |- match ?f r with _ => _ end = _ => assert (H : forall l, f l = slice_fields t l)
  end.
  { induction l as [|[k x] l IH]; [reflexivity|].
    cbn [slice_fields]. rewrite <- IH. reflexivity. }
  rewrite H. reflexivity.
Qed.

Lemma slice_val_entity_kept : forall t u, slice_val t (VEntity u) = SOk (VEntity u).
Proof. reflexivity. Qed.

(* kept records keep exactly the fields the trie lists, in the original order *)
Lemma slice_fields_keys : forall t r r',
  slice_fields t r = SOk r' ->
  map fst r' = filter (fun k => has_key k (t_children t)) (map fst r).
Proof.
  intros t r. induction r as [|[k x] r IH]; intros r' H; cbn in *.
  - inversion H. reflexivity.
  - unfold has_key. destruct (lookup k (t_children t)) as [t'|].
    + destruct (slice_val t' x) as [x'|e]; [|discriminate].
      destruct (slice_fields t r) as [r0|e]; [|discriminate].
      inversion H; subst. cbn. f_equal. apply IH. reflexivity.
    + apply IH. exact H.
Qed.

Lemma slice_val_record_keys : forall t r r',
  slice_val t (VRecord r) = SOk (VRecord r') ->
  map fst r' = filter (fun k => has_key k (t_children t)) (map fst r).
Proof.
  intros t r r' H. rewrite slice_val_record in H.
  destruct (slice_fields t r) as [r0|e] eqn:E; [|discriminate].
  inversion H; subst. eapply slice_fields_keys; eauto.
Qed.

(* slice ⊆ store: every kept field is the slice (by the child trie) of the original field *)
Lemma slice_fields_subset : forall t r r',
  slice_fields t r = SOk r' ->
  forall k v', In (k, v') r' ->
  exists v t', In (k, v) r /\ lookup k (t_children t) = Some t' /\ slice_val t' v = SOk v'.
Proof.
  intros t r. induction r as [|[k0 x] r IH]; intros r' H k v' Hin; cbn in *.
  - inversion H; subst. destruct Hin.
  - destruct (lookup k0 (t_children t)) as [t'|] eqn:L.
    + destruct (slice_val t' x) as [x'|e] eqn:Sx; [|discriminate].
      destruct (slice_fields t r) as [r0|e]; [|discriminate].
      inversion H; subst. destruct Hin as [Heq|Hin].
      * inversion Heq; subst. exists x, t'. auto.
      * destruct (IH r0 eq_refl k v' Hin) as (v & t2 & A & B & C).
        exists v, t2. auto.
    + destruct (IH r' H k v' Hin) as (v & t2 & A & B & C). exists v, t2. auto.
Qed.

Lemma slice_entity_attrs_subset : forall t d d',
  slice_entity t d = SOk d' ->
  forall k v', In (k, v') (eattrs d') ->
  exists v t', In (k, v) (eattrs d) /\ lookup k (t_children t) = Some t' /\ slice_val t' v = SOk v'.
Proof.
  intros t d d' H k v' Hin. unfold slice_entity, slice_attrs in H.
  rewrite slice_val_record in H.
  destruct (slice_fields t (eattrs d)) as [r0|e] eqn:E; [|discriminate].
  inversion H; subst. cbn in Hin. eapply slice_fields_subset; eauto.
Qed.

Lemma slice_entity_no_tags : forall t d d',
  slice_entity t d = SOk d' -> etags d' = [] /\ eancestors d' = [].
Proof.
  intros t d d' H. unfold slice_entity in H.
  destruct (slice_attrs t (eattrs d)); [|discriminate]. inversion H; subst. auto.
Qed.

Lemma walk_app : forall p q t,
  walk t (p ++ q) = match walk t p with Some t' => walk t' q | None => None end.
Proof.
  induction p as [|a p IH]; intros q t; cbn; [reflexivity|].
  destruct (lookup a (t_children t)); [apply IH|reflexivity].
Qed.

(* what the validator guarantees about a GetAttr chain it accepted *)
Lemma adequate_getattr_covered : forall sl m e a ty p,
  adequate sl m (TEGetAttr e a ty) = true ->
  direct_path sl (TEGetAttr e a ty) = Some p ->
  exists t, node_at m p = Some t.
Proof.
  intros sl m e a ty p H D.
  cbn [adequate] in H. apply Bool.andb_true_iff in H. destruct H as [H _].
  unfold here_ok in H. rewrite D in H.
  unfold covers in H.
  cbn [direct_path] in D. destruct (direct_path sl e) as [[r p0]|]; [|discriminate].
  inversion D; subst. cbn [snd] in H.
  destruct (p0 ++ [a]) eqn:E.
  - destruct p0; discriminate.
  - destruct (node_at m (r, s :: l)) as [t|]; [|discriminate]. exists t. reflexivity.
Qed.
