(* UnescapeProofs.v — C05 stage 1: unescape (escape s) = s, to_pattern (show_pattern p) = p,
   for every choice of the two "needs \u{..}" predicates. *)
From Coq Require Import Lia ZifyBool ZifyN.
From Cedar Require Import Unescape.
Open Scope N_scope.

Ltac Zify.zify_post_hook ::= Z.div_mod_to_equations.

Lemma hex_val_digit d : d < 16 -> hex_val (hex_digit d) = Some d.
Proof.
  intros H. unfold hex_val, hex_digit. destruct (d <? 10) eqn:E.
  - replace ((48 <=? 48 + d) && (48 + d <=? 57)) with true by lia. f_equal. lia.
  - replace ((48 <=? 87 + d) && (87 + d <=? 57)) with false by lia.
    replace ((97 <=? 87 + d) && (87 + d <=? 102)) with true by lia. f_equal. lia.
Qed.

Lemma hex_digit_95 d : d < 16 -> (hex_digit d =? 95) = false.
Proof. intros H. unfold hex_digit. destruct (d <? 10) eqn:E; lia. Qed.
Lemma hex_digit_125 d : d < 16 -> (hex_digit d =? 125) = false.
Proof. intros H. unfold hex_digit. destruct (d <? 10) eqn:E; lia. Qed.

Lemma uni_digits_step d s v n :
  d < 16 -> (n <= 5)%nat -> uni_digits (hex_digit d :: s) v n = uni_digits s (v * 16 + d) (S n).
Proof.
  intros H Hn. cbn [uni_digits]. rewrite hex_digit_95, hex_digit_125, hex_val_digit by assumption.
  replace (Nat.ltb 5 n) with false; [reflexivity|].
  symmetry. apply Nat.ltb_ge. exact Hn.
Qed.

Lemma uni_digits_close s v n : uni_digits (125 :: s) v n = Some (v, s).
Proof. reflexivity. Qed.

Lemma unicode_escape_head d s :
  d < 16 ->
  unicode_escape (123 :: hex_digit d :: s) =
  match uni_digits s d 1 with
  | Some (v, rest) => if is_scalar v then Some (v, rest) else None
  | None => None
  end.
Proof.
  intros H. cbn [unicode_escape]. change (negb (123 =? 123)) with false. cbn [negb].
  rewrite hex_digit_95, hex_digit_125, hex_val_digit by assumption. reflexivity.
Qed.

Lemma is_scalar_bound c : is_scalar c = true -> c < 1114112.
Proof. unfold is_scalar. lia. Qed.

Lemma unicode_to_hex c rest :
  is_scalar c = true -> unicode_escape (123 :: to_hex c ++ 125 :: rest) = Some (c, rest).
Proof.
  intros Hs. pose proof (is_scalar_bound c Hs) as Hb. unfold to_hex.
  remember (c mod 16) as d0. remember (c / 16) as q1.
  remember (q1 mod 16) as d1. remember (q1 / 16) as q2.
  remember (q2 mod 16) as d2. remember (q2 / 16) as q3.
  remember (q3 mod 16) as d3. remember (q3 / 16) as q4.
  remember (q4 mod 16) as d4. remember (q4 / 16) as q5.
  remember (q5 mod 16) as d5.
  assert (d0 < 16 /\ d1 < 16 /\ d2 < 16 /\ d3 < 16 /\ d4 < 16 /\ d5 < 16) as (B0 & B1 & B2 & B3 & B4 & B5) by lia.
  assert (c = 16 * q1 + d0) as E0 by lia.
  assert (q1 = 16 * q2 + d1) as E1 by lia.
  assert (q2 = 16 * q3 + d2) as E2 by lia.
  assert (q3 = 16 * q4 + d3) as E3 by lia.
  assert (q4 = 16 * q5 + d4) as E4 by lia.
  assert (q5 = d5) as E5 by lia.
  clear Heqd0 Heqq1 Heqd1 Heqq2 Heqd2 Heqq3 Heqd3 Heqq4 Heqd4 Heqq5 Heqd5.
  destruct (q1 =? 0) eqn:Z1.
  { cbn [app]. rewrite unicode_escape_head, uni_digits_close by assumption.
    replace d0 with c by lia. rewrite Hs. reflexivity. }
  destruct (q2 =? 0) eqn:Z2.
  { cbn [app]. rewrite unicode_escape_head by assumption.
    rewrite uni_digits_step by (assumption || lia). rewrite uni_digits_close.
    replace (d1 * 16 + d0) with c by lia. rewrite Hs. reflexivity. }
  destruct (q3 =? 0) eqn:Z3.
  { cbn [app]. rewrite unicode_escape_head by assumption.
    rewrite !uni_digits_step by (assumption || lia). rewrite uni_digits_close.
    replace ((d2 * 16 + d1) * 16 + d0) with c by lia. rewrite Hs. reflexivity. }
  destruct (q4 =? 0) eqn:Z4.
  { cbn [app]. rewrite unicode_escape_head by assumption.
    rewrite !uni_digits_step by (assumption || lia). rewrite uni_digits_close.
    replace (((d3 * 16 + d2) * 16 + d1) * 16 + d0) with c by lia. rewrite Hs. reflexivity. }
  destruct (q5 =? 0) eqn:Z5.
  { cbn [app]. rewrite unicode_escape_head by assumption.
    rewrite !uni_digits_step by (assumption || lia). rewrite uni_digits_close.
    replace ((((d4 * 16 + d3) * 16 + d2) * 16 + d1) * 16 + d0) with c by lia. rewrite Hs. reflexivity. }
  cbn [app]. rewrite unicode_escape_head by assumption.
  rewrite !uni_digits_step by (assumption || lia). rewrite uni_digits_close.
  replace (((((d5 * 16 + d4) * 16 + d3) * 16 + d2) * 16 + d1) * 16 + d0) with c by lia.
  rewrite Hs. reflexivity.
Qed.

Definition lift_cons (u : uelem) (r : ures (list uelem)) : ures (list uelem) :=
  match r with UOk l => UOk (u :: l) | UErr => UErr | UFuel => UFuel end.

Lemma loop_plain c s f :
  (c =? 92) = false -> (c =? 34) = false -> (c =? 13) = false ->
  unescape_loop (S f) (c :: s) = lift_cons (UChar c) (unescape_loop f s).
Proof.
  intros H1 H2 H3. cbn [unescape_loop]. rewrite H1, H2, H3.
  destruct (unescape_loop f s); reflexivity.
Qed.

Lemma loop_unicode c rest f :
  is_scalar c = true ->
  unescape_loop (S f) (esc_unicode c ++ rest) = lift_cons (UChar c) (unescape_loop f rest).
Proof.
  intros Hs. unfold esc_unicode. rewrite <- !app_assoc. cbn [app unescape_loop].
  change (92 =? 92) with true. cbn [starts_with_nl]. change (117 =? 10) with false.
  cbn [unescape_1].
  change (117 =? 48) with false. change (117 =? 34) with false. change (117 =? 110) with false.
  change (117 =? 114) with false. change (117 =? 116) with false. change (117 =? 92) with false.
  change (117 =? 39) with false. change (117 =? 120) with false. change (117 =? 117) with true.
  cbv iota.
  rewrite unicode_to_hex by assumption.
  destruct (unescape_loop f rest); reflexivity.
Qed.

Section WithPredicates.
  Variable np : N -> bool.
  Variable ge : N -> bool.

  Lemma loop_esc_char g c rest f :
    is_scalar c = true ->
    unescape_loop (S f) (esc_char np ge g c ++ rest) = lift_cons (UChar c) (unescape_loop f rest).
  Proof.
    intros Hs. unfold esc_char.
    destruct (c =? 0) eqn:E0; [apply N.eqb_eq in E0; subst c; cbn; destruct (unescape_loop f rest); reflexivity|].
    destruct (c =? 9) eqn:E9; [apply N.eqb_eq in E9; subst c; cbn; destruct (unescape_loop f rest); reflexivity|].
    destruct (c =? 13) eqn:E13; [apply N.eqb_eq in E13; subst c; cbn; destruct (unescape_loop f rest); reflexivity|].
    destruct (c =? 10) eqn:E10; [apply N.eqb_eq in E10; subst c; cbn; destruct (unescape_loop f rest); reflexivity|].
    destruct (c =? 92) eqn:E92; [apply N.eqb_eq in E92; subst c; cbn; destruct (unescape_loop f rest); reflexivity|].
    destruct (c =? 34) eqn:E34; [apply N.eqb_eq in E34; subst c; cbn; destruct (unescape_loop f rest); reflexivity|].
    destruct (c =? 39) eqn:E39; [apply N.eqb_eq in E39; subst c; cbn; destruct (unescape_loop f rest); reflexivity|].
    destruct (g && ge c); [apply loop_unicode; assumption|].
    destruct (np c); [apply loop_unicode; assumption|].
    cbn [app]. apply loop_plain; assumption.
  Qed.

  Lemma loop_flat_map g s : forall f,
    wf_str s = true -> (length s < f)%nat ->
    unescape_loop f (flat_map (esc_char np ge g) s) = UOk (map UChar s).
  Proof.
    induction s as [|c s IH]; intros f Hw Hf.
    - destruct f; [inversion Hf|]. reflexivity.
    - destruct f; [inversion Hf|]. cbn [flat_map map].
      cbn [wf_str forallb] in Hw. apply andb_true_iff in Hw. destruct Hw as [Hc Hw].
      rewrite loop_esc_char by assumption.
      rewrite IH; [reflexivity|exact Hw|]. cbn [length] in Hf. lia.
  Qed.

  Lemma esc_char_nonempty g c : (1 <= length (esc_char np ge g c))%nat.
  Proof.
    unfold esc_char, esc_unicode.
    repeat match goal with |- context [if ?b then _ else _] => destruct b end;
      rewrite ?app_length; cbn [length]; lia.
  Qed.

  Lemma flat_map_esc_length g s : (length s <= length (flat_map (esc_char np ge g) s))%nat.
  Proof.
    induction s as [|c s IH]; [apply le_n|]. cbn [flat_map length]. rewrite app_length.
    pose proof (esc_char_nonempty g c). lia.
  Qed.

  Lemma elems_to_str_chars s : elems_to_str (map UChar s) = Some s.
  Proof. induction s as [|c s IH]; [reflexivity|]. cbn [map elems_to_str]. rewrite IH. reflexivity. Qed.

  Lemma unescape_elems_escape s :
    wf_str s = true -> unescape_elems (escape_debug np ge s) = UOk (map UChar s).
  Proof.
    intros Hw. unfold unescape_elems, escape_debug. destruct s as [|c s]; [reflexivity|].
    cbn [wf_str forallb] in Hw. apply andb_true_iff in Hw. destruct Hw as [Hc Hw].
    rewrite loop_esc_char by assumption.
    rewrite loop_flat_map; [reflexivity|exact Hw|].
    rewrite app_length. pose proof (esc_char_nonempty true c). pose proof (flat_map_esc_length false s). lia.
  Qed.

  (* the full escape statement for strings: entity ids, string literals, annotation values, record
     keys and attribute names all print through escape_debug and are read back by to_unescaped_string *)
  Theorem unescape_escape s :
    wf_str s = true -> to_unescaped_string (escape_debug np ge s) = UOk s.
  Proof.
    intros Hw. unfold to_unescaped_string. rewrite unescape_elems_escape by assumption.
    rewrite elems_to_str_chars. reflexivity.
  Qed.

  (* patterns *)
  Lemma loop_show_patelem pe rest f :
    wf_pattern [pe] = true ->
    exists u, elem_to_pat u = pe /\
              unescape_loop (S f) (show_patelem np ge pe ++ rest) = lift_cons u (unescape_loop f rest).
  Proof.
    intros Hw. destruct pe as [c|].
    - cbn [wf_pattern forallb] in Hw. rewrite andb_true_r in Hw. cbn [show_patelem].
      destruct (c =? 42) eqn:E.
      + apply N.eqb_eq in E. subst c. exists UStarEsc. split; [reflexivity|].
        cbn. destruct (unescape_loop f rest); reflexivity.
      + exists (UChar c). split; [cbn [elem_to_pat]; rewrite E; reflexivity|].
        apply loop_esc_char. exact Hw.
    - exists (UChar 42). split; [reflexivity|]. cbn [show_patelem app].
      rewrite loop_plain by reflexivity. reflexivity.
  Qed.

  Lemma show_patelem_nonempty pe : (1 <= length (show_patelem np ge pe))%nat.
  Proof.
    destruct pe as [c|]; cbn [show_patelem]; [|cbn; lia].
    destruct (c =? 42); [cbn; lia|apply esc_char_nonempty].
  Qed.

  Lemma loop_show_pattern p : forall f,
    wf_pattern p = true -> (length p < f)%nat ->
    exists l, map elem_to_pat l = p /\ unescape_loop f (show_pattern np ge p) = UOk l.
  Proof.
    induction p as [|pe p IH]; intros f Hw Hf.
    - destruct f; [inversion Hf|]. exists []. split; reflexivity.
    - destruct f; [inversion Hf|].
      assert (wf_pattern [pe] = true /\ wf_pattern p = true) as [H1 H2].
      { unfold wf_pattern in *. cbn [forallb] in *. apply andb_true_iff in Hw. destruct Hw as [Ha Hb].
        rewrite Ha, Hb. split; reflexivity. }
      destruct (loop_show_patelem pe (show_pattern np ge p) f H1) as (u & Hu & Hl).
      destruct (IH f H2) as (l & Hm & Hr); [cbn [length] in Hf; lia|].
      exists (u :: l). split; [cbn [map]; rewrite Hu, Hm; reflexivity|].
      unfold show_pattern in *. cbn [flat_map]. rewrite Hl, Hr. reflexivity.
  Qed.

  Lemma show_pattern_length p : (length p <= length (show_pattern np ge p))%nat.
  Proof.
    induction p as [|pe p IH]; [apply le_n|]. unfold show_pattern in *. cbn [flat_map length].
    rewrite app_length. pose proof (show_patelem_nonempty pe). lia.
  Qed.

  Theorem to_pattern_show p :
    wf_pattern p = true -> to_pattern (show_pattern np ge p) = UOk p.
  Proof.
    intros Hw. unfold to_pattern, unescape_elems.
    destruct (loop_show_pattern p (S (length (show_pattern np ge p))) Hw) as (l & Hm & Hr).
    - pose proof (show_pattern_length p). lia.
    - rewrite Hr, Hm. reflexivity.
  Qed.
End WithPredicates.
