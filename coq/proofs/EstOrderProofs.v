(* EstOrderProofs.v — sort_assoc produces strictly key-sorted lists; strictly sorted lists have
   no duplicate keys (used for BTreeMap-ordered records and annotations). *)
From Coq Require Import Lia.
From Cedar Require Import Base ValueProofs.
Open Scope Z_scope.

Lemma str_ltb_irrefl a : str_ltb a a = false.
Proof.
  induction a as [|x a IH]; cbn; [reflexivity|].
  rewrite N.ltb_irrefl, N.eqb_refl. exact IH.
Qed.

Lemma str_ltb_trans a : forall b c, str_ltb a b = true -> str_ltb b c = true -> str_ltb a c = true.
Proof.
  induction a as [|x a IH]; intros [|y b] [|z c]; cbn; intros H1 H2; try discriminate; try reflexivity.
  destruct (N.ltb x y) eqn:Exy.
  - apply N.ltb_lt in Exy. destruct (N.ltb y z) eqn:Eyz.
    + apply N.ltb_lt in Eyz. assert (Hxz : (x < z)%N) by lia. apply N.ltb_lt in Hxz. rewrite Hxz. reflexivity.
    + destruct (N.eqb y z) eqn:Eq; [|discriminate]. apply N.eqb_eq in Eq; subst.
      apply N.ltb_lt in Exy. rewrite Exy. reflexivity.
  - destruct (N.eqb x y) eqn:Eq; [|discriminate]. apply N.eqb_eq in Eq; subst.
    destruct (N.ltb y z) eqn:Eyz; [reflexivity|].
    destruct (N.eqb y z) eqn:Eq2; [|discriminate]. eapply IH; eassumption.
Qed.

Lemma str_ltb_total a : forall b, str_ltb a b = false -> str_eqb a b = false -> str_ltb b a = true.
Proof.
  induction a as [|x a IH]; intros [|y b]; cbn; intros H1 H2; try discriminate; try reflexivity.
  destruct (N.ltb x y) eqn:Exy; [discriminate|].
  destruct (N.eqb x y) eqn:Eq.
  - apply N.eqb_eq in Eq; subst. rewrite N.ltb_irrefl, N.eqb_refl. cbn in H2. apply IH; assumption.
  - apply N.ltb_ge in Exy. apply N.eqb_neq in Eq. assert (Hyx : (y < x)%N) by lia.
    apply N.ltb_lt in Hyx. rewrite Hyx. reflexivity.
Qed.

Lemma str_ltb_neq a b : str_ltb a b = true -> str_eqb a b = false.
Proof.
  intros H. destruct (str_eqb a b) eqn:E; [|reflexivity].
  apply str_eqb_eq in E; subst. rewrite str_ltb_irrefl in H. discriminate.
Qed.

Lemma str_eqb_sym a b : str_eqb a b = str_eqb b a.
Proof.
  destruct (str_eqb a b) eqn:E.
  - apply str_eqb_eq in E; subst. symmetry. apply str_eqb_refl.
  - destruct (str_eqb b a) eqn:E2; [|reflexivity]. apply str_eqb_eq in E2; subst.
    rewrite str_eqb_refl in E. discriminate.
Qed.

Section Sorted.
  Context {V : Type}.

  (* every key of l is greater than k *)
  Fixpoint all_gt (k : str) (l : list (str * V)) : Prop :=
    match l with [] => True | kv :: l' => str_ltb k (fst kv) = true /\ all_gt k l' end.

  Fixpoint sortedk (l : list (str * V)) : Prop :=
    match l with [] => True | kv :: l' => all_gt (fst kv) l' /\ sortedk l' end.

  Lemma all_gt_trans k k' l : str_ltb k k' = true -> all_gt k' l -> all_gt k l.
  Proof.
    induction l as [|kv l IH]; cbn; [trivial|]. intros H [H1 H2]. split.
    - eapply str_ltb_trans; eassumption.
    - apply IH; assumption.
  Qed.

  Lemma all_gt_insert k0 k (v : V) l :
    str_ltb k0 k = true -> all_gt k0 l -> all_gt k0 (insert_sorted k v l).
  Proof.
    induction l as [|[k' v'] l IH]; cbn; intros Hk Hl.
    - split; [assumption|trivial].
    - destruct Hl as [H1 H2]. destruct (str_ltb k k').
      + cbn. repeat split; assumption.
      + destruct (str_eqb k k'); cbn; repeat split; try assumption. apply IH; assumption.
  Qed.

  Lemma insert_sorted_sortedk k (v : V) l : sortedk l -> sortedk (insert_sorted k v l).
  Proof.
    induction l as [|[k' v'] l IH]; cbn; intros Hs.
    - split; trivial.
    - destruct Hs as [Hg Hs]. destruct (str_ltb k k') eqn:E1.
      + cbn. repeat split; try assumption. eapply all_gt_trans; eassumption.
      + destruct (str_eqb k k') eqn:E2.
        * apply str_eqb_eq in E2; subst. cbn. split; assumption.
        * cbn. split; [|apply IH; assumption].
          apply all_gt_insert; [|assumption]. apply str_ltb_total; [assumption|].
          (* str_ltb k' k from not (k<k') and k<>k' *)
          exact E2.
  Qed.

  Lemma fold_insert_sortedk (l acc : list (str * V)) :
    sortedk acc -> sortedk (fold_left (fun a kv => insert_sorted (fst kv) (snd kv) a) l acc).
  Proof.
    revert acc. induction l as [|kv l IH]; cbn; intros acc H; [assumption|].
    apply IH. apply insert_sorted_sortedk. assumption.
  Qed.

  Lemma sort_assoc_sortedk (l : list (str * V)) : sortedk (sort_assoc l).
  Proof. unfold sort_assoc. apply fold_insert_sortedk. exact I. Qed.

  Lemma all_gt_lookup k (l : list (str * V)) : all_gt k l -> lookup k l = None.
  Proof.
    induction l as [|[k' v'] l IH]; cbn; [reflexivity|]. intros [H1 H2].
    rewrite (str_ltb_neq _ _ H1). apply IH; assumption.
  Qed.

  Lemma sortedk_nodup (l : list (str * V)) : sortedk l -> keys_nodup l = true.
  Proof.
    induction l as [|[k v] l IH]; cbn; [reflexivity|]. intros [H1 H2].
    unfold has_key. rewrite (all_gt_lookup _ _ H1). cbn. apply IH; assumption.
  Qed.

  Lemma sort_fix_nodup (l : list (str * V)) : sort_assoc l = l -> keys_nodup l = true.
  Proof. intros H. apply sortedk_nodup. rewrite <- H. apply sort_assoc_sortedk. Qed.
End Sorted.
