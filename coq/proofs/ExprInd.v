(* ExprInd.v — induction principle for expr with hypotheses for the nested lists. *)
From Cedar Require Import Syntax.

Section ExprInd.
  Variable P : expr -> Prop.
  Hypothesis H_lit : forall p, P (Lit p).
  Hypothesis H_var : forall v, P (Var v).
  Hypothesis H_slot : forall s, P (Slot s).
  Hypothesis H_unk : forall n ty, P (Unknown n ty).
  Hypothesis H_if : forall c, P c -> forall t, P t -> forall e, P e -> P (If c t e).
  Hypothesis H_and : forall a, P a -> forall b, P b -> P (And a b).
  Hypothesis H_or : forall a, P a -> forall b, P b -> P (Or a b).
  Hypothesis H_un : forall op a, P a -> P (UnApp op a).
  Hypothesis H_bin : forall op a, P a -> forall b, P b -> P (BinApp op a b).
  Hypothesis H_ext : forall fn args, Forall P args -> P (ExtCall fn args).
  Hypothesis H_get : forall a, P a -> forall k, P (GetAttr a k).
  Hypothesis H_has : forall a, P a -> forall k, P (HasAttr a k).
  Hypothesis H_like : forall a, P a -> forall p, P (Like a p).
  Hypothesis H_is : forall a, P a -> forall t, P (Is a t).
  Hypothesis H_set : forall items, Forall P items -> P (SetE items).
  Hypothesis H_rec : forall items, Forall (fun kv => P (snd kv)) items -> P (RecordE items).

  Fixpoint expr_ind' (e : expr) : P e :=
    match e with
    | Lit p => H_lit p
    | Var v => H_var v
    | Slot s => H_slot s
    | Unknown n ty => H_unk n ty
    | If c t f => H_if c (expr_ind' c) t (expr_ind' t) f (expr_ind' f)
    | And a b => H_and a (expr_ind' a) b (expr_ind' b)
    | Or a b => H_or a (expr_ind' a) b (expr_ind' b)
    | UnApp op a => H_un op a (expr_ind' a)
    | BinApp op a b => H_bin op a (expr_ind' a) b (expr_ind' b)
    | ExtCall fn args =>
        H_ext fn args ((fix go (l : list expr) : Forall P l :=
                          match l with
                          | [] => Forall_nil P
                          | x :: l' => Forall_cons x (expr_ind' x) (go l')
                          end) args)
    | GetAttr a k => H_get a (expr_ind' a) k
    | HasAttr a k => H_has a (expr_ind' a) k
    | Like a p => H_like a (expr_ind' a) p
    | Is a t => H_is a (expr_ind' a) t
    | SetE items =>
        H_set items ((fix go (l : list expr) : Forall P l :=
                        match l with
                        | [] => Forall_nil P
                        | x :: l' => Forall_cons x (expr_ind' x) (go l')
                        end) items)
    | RecordE items =>
        H_rec items ((fix go (l : list (str * expr)) : Forall (fun kv => P (snd kv)) l :=
                        match l with
                        | [] => Forall_nil _
                        | kv :: l' => Forall_cons kv (expr_ind' (snd kv)) (go l')
                        end) items)
    end.
End ExprInd.
