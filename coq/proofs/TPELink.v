(* TPELink.v — from the soundness of `interp` (TPESound) to the ORIGINAL policies:
   Residual::try_from_typed_expr keeps the meaning of the policy condition (reval_of_texpr), hence per-policy
   soundness (policy_sound) holds for every policy whose residual satisfies the side condition, and the decision /
   reauthorization / query theorems no longer take per-policy soundness as a hypothesis. *)
From Coq Require Import List Bool.
From Cedar Require Import TPE ValueProofs TPEProofs TPESound.
Import ListNotations.

Section TInd.
  Variable P : texpr -> Prop.
  Hypothesis HLit : forall p t, P (TELit p t).
  Hypothesis HVar : forall v t, P (TEVar v t).
  Hypothesis HSlot : forall s t, P (TESlot s t).
  Hypothesis HUnk : forall n rt t, P (TEUnknown n rt t).
  Hypothesis HIf : forall c a b t, P c -> P a -> P b -> P (TEIf c a b t).
  Hypothesis HAnd : forall a b t, P a -> P b -> P (TEAnd a b t).
  Hypothesis HOr : forall a b t, P a -> P b -> P (TEOr a b t).
  Hypothesis HUn : forall op a t, P a -> P (TEUnApp op a t).
  Hypothesis HBin : forall op a b t, P a -> P b -> P (TEBinApp op a b t).
  Hypothesis HExt : forall fn args t, Forall P args -> P (TEExtCall fn args t).
  Hypothesis HGet : forall e k t, P e -> P (TEGetAttr e k t).
  Hypothesis HHas : forall e k t, P e -> P (TEHasAttr e k t).
  Hypothesis HLike : forall e p t, P e -> P (TELike e p t).
  Hypothesis HIs : forall e et t, P e -> P (TEIs e et t).
  Hypothesis HSet : forall items t, Forall P items -> P (TESet items t).
  Hypothesis HRec : forall items t, Forall (fun kv => P (snd kv)) items -> P (TERecord items t).

  Fixpoint texpr_ind2 (e : texpr) : P e :=
    match e with
    | TELit p t => HLit p t
    | TEVar v t => HVar v t
    | TESlot s t => HSlot s t
    | TEUnknown n rt t => HUnk n rt t
    | TEIf c a b t => HIf c a b t (texpr_ind2 c) (texpr_ind2 a) (texpr_ind2 b)
    | TEAnd a b t => HAnd a b t (texpr_ind2 a) (texpr_ind2 b)
    | TEOr a b t => HOr a b t (texpr_ind2 a) (texpr_ind2 b)
    | TEUnApp op a t => HUn op a t (texpr_ind2 a)
    | TEBinApp op a b t => HBin op a b t (texpr_ind2 a) (texpr_ind2 b)
    | TEExtCall fn args t =>
        HExt fn args t ((fix go (l : list texpr) : Forall P l :=
                           match l with
                           | [] => Forall_nil P
                           | x :: l' => Forall_cons x (texpr_ind2 x) (go l')
                           end) args)
    | TEGetAttr e k t => HGet e k t (texpr_ind2 e)
    | TEHasAttr e k t => HHas e k t (texpr_ind2 e)
    | TELike e p t => HLike e p t (texpr_ind2 e)
    | TEIs e et t => HIs e et t (texpr_ind2 e)
    | TESet items t =>
        HSet items t ((fix go (l : list texpr) : Forall P l :=
                         match l with
                         | [] => Forall_nil P
                         | x :: l' => Forall_cons x (texpr_ind2 x) (go l')
                         end) items)
    | TERecord items t =>
        HRec items t ((fix go (l : list (str * texpr)) : Forall (fun kv => P (snd kv)) l :=
                         match l with
                         | [] => Forall_nil _
                         | kv :: l' => Forall_cons kv (texpr_ind2 (snd kv)) (go l')
                         end) items)
    end.
End TInd.

Section Link.
Variable sl : slotenv.
Variable q : request.
Variable es : entities.

Notation RC := (reval call_ext q es).
Notation EV := (eval sl q es).

Fixpoint otl (l : list texpr) : option (list residual) :=
  match l with
  | [] => Some []
  | x :: l' => match of_texpr sl x, otl l' with Some r, Some rs => Some (r :: rs) | _, _ => None end
  end.
Fixpoint otr (l : list (str * texpr)) : option (list (str * residual)) :=
  match l with
  | [] => Some []
  | (k, x) :: l' => match of_texpr sl x, otr l' with Some r, Some rs => Some ((k, r) :: rs) | _, _ => None end
  end.
Fixpoint elist (l : list expr) : res (list value) :=
  match l with
  | [] => Ok []
  | x :: l' => do v <- EV x; do vs <- elist l'; Ok (v :: vs)
  end.
Fixpoint erec (l : list (str * expr)) : res (list (str * value)) :=
  match l with
  | [] => Ok []
  | (k, x) :: l' => do v <- EV x; do kvs <- erec l'; Ok ((k, v) :: kvs)
  end.

Lemma of_ext fn args t : of_texpr sl (TEExtCall fn args t) = option_map (RExt fn) (otl args).
Proof. reflexivity. Qed.
Lemma of_set items t : of_texpr sl (TESet items t) = option_map RSet (otl items).
Proof. reflexivity. Qed.
Lemma of_record items t : of_texpr sl (TERecord items t) = option_map RRecord (otr items).
Proof. reflexivity. Qed.
Lemma ev_ext fn args : EV (ExtCall fn args) = (do vs <- elist args; call_ext fn vs).
Proof. reflexivity. Qed.
Lemma ev_set items : EV (SetE items) = (do vs <- elist items; Ok (VSet vs)).
Proof. reflexivity. Qed.
Lemma ev_record items : EV (RecordE items) = (do kvs <- erec items; Ok (VRecord kvs)).
Proof. reflexivity. Qed.

Lemma otl_sound l : Forall (fun x => forall r, of_texpr sl x = Some r -> RC r = EV (erase x)) l ->
  forall rs, otl l = Some rs -> rlist call_ext q es rs = elist (map erase l).
Proof.
  induction 1 as [|x l Hx _ IH]; intros rs H; cbn in H.
  - inversion H; reflexivity.
  - destruct (of_texpr sl x) as [r|] eqn:E; [|discriminate].
    destruct (otl l) as [rs'|] eqn:E'; [|discriminate]. inversion H; subst.
    cbn [rlist map elist]. rewrite (Hx r eq_refl), (IH rs' eq_refl). reflexivity.
Qed.
Lemma otr_sound l : Forall (fun kv => forall r, of_texpr sl (snd kv) = Some r -> RC r = EV (erase (snd kv))) l ->
  forall rs, otr l = Some rs -> rrec call_ext q es rs = erec (map (fun kv => (fst kv, erase (snd kv))) l).
Proof.
  induction 1 as [|[k x] l Hx _ IH]; intros rs H; cbn in H.
  - inversion H; reflexivity.
  - cbn in Hx. destruct (of_texpr sl x) as [r|] eqn:E; [|discriminate].
    destruct (otr l) as [rs'|] eqn:E'; [|discriminate]. inversion H; subst.
    cbn [rrec map erec fst snd]. rewrite (Hx r eq_refl), (IH rs' eq_refl). reflexivity.
Qed.

(* Residual::try_from_typed_expr followed by evaluation of the residual == evaluation of the (erased) condition *)
Lemma reval_of_texpr te : forall r, of_texpr sl te = Some r -> RC r = EV (erase te).
Proof.
  induction te using texpr_ind2; intros r Hr.
  - cbn in Hr. inversion Hr; reflexivity.
  - cbn in Hr. inversion Hr; reflexivity.
  - cbn in Hr. cbn [erase eval]. destruct (slot_lookup s sl); [|discriminate]. inversion Hr; reflexivity.
  - cbn in Hr. discriminate.
  - cbn [of_texpr] in Hr. destruct (of_texpr sl te1) as [c|] eqn:E1; [|discriminate].
    destruct (of_texpr sl te2) as [a|] eqn:E2; [|discriminate].
    destruct (of_texpr sl te3) as [b|] eqn:E3; [|discriminate]. inversion Hr; subst.
    cbn [reval erase eval]. rewrite (IHte1 c eq_refl), (IHte2 a eq_refl), (IHte3 b eq_refl). reflexivity.
  - cbn [of_texpr] in Hr. destruct (of_texpr sl te1) as [a|] eqn:E1; [|discriminate].
    destruct (of_texpr sl te2) as [b|] eqn:E2; [|discriminate]. inversion Hr; subst.
    cbn [reval erase eval]. rewrite (IHte1 a eq_refl), (IHte2 b eq_refl). reflexivity.
  - cbn [of_texpr] in Hr. destruct (of_texpr sl te1) as [a|] eqn:E1; [|discriminate].
    destruct (of_texpr sl te2) as [b|] eqn:E2; [|discriminate]. inversion Hr; subst.
    cbn [reval erase eval]. rewrite (IHte1 a eq_refl), (IHte2 b eq_refl). reflexivity.
  - cbn [of_texpr] in Hr. destruct (of_texpr sl te) as [a|] eqn:E1; [|discriminate]. inversion Hr; subst.
    cbn [reval erase eval]. rewrite (IHte a eq_refl). reflexivity.
  - cbn [of_texpr] in Hr. destruct (of_texpr sl te1) as [a|] eqn:E1; [|discriminate].
    destruct (of_texpr sl te2) as [b|] eqn:E2; [|discriminate]. inversion Hr; subst.
    cbn [reval erase eval]. rewrite (IHte1 a eq_refl), (IHte2 b eq_refl). reflexivity.
  - rewrite of_ext in Hr. destruct (otl args) as [rs|] eqn:E; [|discriminate]. inversion Hr; subst.
    cbn [erase]. rewrite R_ext, ev_ext, (otl_sound _ H rs E). reflexivity.
  - cbn [of_texpr] in Hr. destruct (of_texpr sl te) as [a|] eqn:E1; [|discriminate]. inversion Hr; subst.
    cbn [reval erase eval]. rewrite (IHte a eq_refl). reflexivity.
  - cbn [of_texpr] in Hr. destruct (of_texpr sl te) as [a|] eqn:E1; [|discriminate]. inversion Hr; subst.
    cbn [reval erase eval]. rewrite (IHte a eq_refl). reflexivity.
  - cbn [of_texpr] in Hr. destruct (of_texpr sl te) as [a|] eqn:E1; [|discriminate]. inversion Hr; subst.
    cbn [reval erase eval]. rewrite (IHte a eq_refl). reflexivity.
  - cbn [of_texpr] in Hr. destruct (of_texpr sl te) as [a|] eqn:E1; [|discriminate]. inversion Hr; subst.
    cbn [reval erase eval]. rewrite (IHte a eq_refl). reflexivity.
  - rewrite of_set in Hr. destruct (otl items) as [rs|] eqn:E; [|discriminate]. inversion Hr; subst.
    cbn [erase]. rewrite R_set, ev_set, (otl_sound _ H rs E). reflexivity.
  - rewrite of_record in Hr. destruct (otr items) as [rs|] eqn:E; [|discriminate]. inversion Hr; subst.
    cbn [erase]. rewrite R_record, ev_record, (otr_sound _ H rs E). reflexivity.
Qed.
End Link.

(* ---- per-policy soundness without hypothesis on the policy beyond the side condition ---- *)
Definition annotates (tp : tpolicy) (p : policy) : Prop :=
  tp_id tp = pid p /\ tp_effect tp = peffect p /\ tp_env tp = penv p /\ erase (tp_cond tp) = pcondition p.

Definition policy_side (pq : prequest) (pes : pentities) (q : request) (es : entities) (tp : tpolicy) : Prop :=
  forall r0, of_texpr (tp_env tp) (tp_cond tp) = Some r0 -> Side call_ext pq pes q es r0.

Lemma same_class_bool (a b : res value) : sim a b ->
  same_class (outcome_of (do v <- a; as_bool v)) (outcome_of (do v <- b; as_bool v)).
Proof.
  destruct a as [x|e], b as [y|e']; cbn; try tauto.
  intros ->. destruct (as_bool y) as [[|]|]; cbn; exact Logic.I.
Qed.

Lemma policy_sound_tpe pq pes q es tp p rp :
  Completes pq pes q es -> annotates tp p -> policy_side pq pes q es tp ->
  tpe_policy call_ext pq pes tp = Some rp -> policy_sound call_ext q es p rp.
Proof.
  intros HC [Hi [He [Hv Hc]]] HS H. unfold tpe_policy in H.
  destruct (of_texpr (tp_env tp) (tp_cond tp)) as [r0|] eqn:E; [|discriminate]. inversion H; subst. clear H.
  unfold policy_sound; cbn [rp_id rp_effect rp_res]. repeat split; auto.
  unfold eval_policy, reval_policy. rewrite <- Hc, <- Hv.
  rewrite <- (reval_of_texpr (tp_env tp) q es (tp_cond tp) r0 E).
  apply same_class_bool. apply sim_sym. apply interp_sound; [exact HC|]. apply HS. exact E.
Qed.

Lemma policies_sound_tpe pq pes q es tps ps :
  Completes pq pes q es -> Forall2 annotates tps ps -> Forall (policy_side pq pes q es) tps ->
  forall rs, tpe call_ext pq pes tps = Some rs -> Forall2 (policy_sound call_ext q es) ps rs.
Proof.
  intros HC HA. induction HA as [|tp p tps ps Ha _ IH]; intros HS rs H; unfold tpe in *; cbn in H.
  - inversion H; constructor.
  - inversion HS; subst.
    destruct (tpe_policy call_ext pq pes tp) as [rp|] eqn:E; [|discriminate].
    destruct (omapM (tpe_policy call_ext pq pes) tps) as [rs'|] eqn:E'; [|discriminate]. inversion H; subst.
    constructor; [eapply policy_sound_tpe; eauto|]. apply IH; auto.
Qed.

(* ---- decision / reauthorization / queries on the ORIGINAL policies ---- *)
Theorem decision_sound pq pes q es tps ps rs d :
  Completes pq pes q es -> Forall2 annotates tps ps -> Forall (policy_side pq pes q es) tps ->
  tpe call_ext pq pes tps = Some rs -> tpe_decision rs = Some d ->
  rdecision (is_authorized ps q es) = d.
Proof.
  intros HC HA HS H Hd. eapply decision_concrete; [|exact Hd].
  eapply policies_sound_tpe; eauto.
Qed.

Theorem reauthorize_sound pq pes q es tps ps rs :
  Completes pq pes q es -> Forall2 annotates tps ps -> Forall (policy_side pq pes q es) tps ->
  tpe call_ext pq pes tps = Some rs ->
  rdecision (is_authorized ps q es) = rdecision (reauthorize call_ext rs q es).
Proof. intros HC HA HS H. apply reauthorize_concrete. eapply policies_sound_tpe; eauto. Qed.

Theorem query_sound pq pes fill hole es tps ps rs :
  (forall u, Completes pq pes (fill u) es) -> Forall2 annotates tps ps ->
  (forall u, Forall (policy_side pq pes (fill u) es) tps) ->
  tpe call_ext pq pes tps = Some rs ->
  query call_ext fill hole rs es =
  filter (fun u => decision_eqb (rdecision (is_authorized ps (fill u) es)) Allow)
         (filter (fun u => name_eqb (uty u) hole) (map fst es)).
Proof.
  intros HC HA HS H. apply query_brute. intros u. eapply policies_sound_tpe; eauto.
Qed.
