(* NoPanicLike.v — C20/C02: the INDEX-level transcription of Pattern::wildcard_match (NoPanic.wildcard_indexed, with
   usize indices i, j, star_idx, tmp_idx and checked slice accesses) refines the suffix-level loop Like.wl, which
   LikeProofs proves equal to the declarative matcher.  Hence the index-level code neither panics nor runs out of
   fuel and computes `wildcard` for every pattern and text. *)
From Coq Require Import String Lia.
From Cedar Require Import NoPanic NoPanicProofs LikeProofs.

Lemma skipn_nth {A} (l : list A) : forall i, (i < List.length l)%nat ->
  exists x, nth_error l i = Some x /\ skipn i l = x :: skipn (S i) l.
Proof.
  induction l as [|a l IH]; intros i H; cbn [List.length] in H; [lia|].
  destruct i as [|i]; [cbn; eauto|]. cbn [nth_error]. 
  destruct (IH i) as [x [E1 E2]]; [lia|]. exists x. split; [exact E1|]. 
  change (skipn (S i) (a :: l)) with (skipn i l). change (skipn (S (S i)) (a :: l)) with (skipn (S i) l). exact E2.
Qed.

Lemma skipn_nil_iff {A} (l : list A) i : skipn i l = [] <-> (List.length l <= i)%nat.
Proof.
  split; intros H.
  - pose proof (skipn_length i l) as HL. rewrite H in HL. cbn in HL. lia.
  - apply skipn_all2. exact H.
Qed.

Definition bt_of (pat : pattern) (text : str) (st : wstate) : option (pattern * str) :=
  if w_has st then Some (skipn (S (w_star st)) pat, skipn (w_tmp st) text) else None.

Definition Rinv (pat : pattern) (text : str) (st : wstate) : Prop :=
  (w_i st <= List.length text)%nat /\ (w_j st <= List.length pat)%nat /\
  (w_has st = true -> (w_star st < List.length pat)%nat /\ (w_tmp st <= w_i st)%nat).

Lemma wskip_spec pat : forall fuel j, (List.length pat - j < fuel)%nat -> (j <= List.length pat)%nat ->
  wskip pat fuel j = POk (WDone (all_stars (skipn j pat))).
Proof.
  induction fuel as [|f IH]; intros j Hf Hj; [lia|]. cbn [wskip].
  destruct (Nat.ltb_spec j (List.length pat)) as [Hlt|Hge].
  - destruct (skipn_nth pat j Hlt) as [e [E1 E2]]. unfold idx. rewrite E1. cbn [pbind]. rewrite E2.
    unfold all_stars. cbn [forallb]. destruct (is_star e); cbn [andb].
    + apply IH; lia.
    + destruct (Nat.eqb_spec j (List.length pat)); [lia|reflexivity].
  - assert (j = List.length pat) by lia. subst j. rewrite skipn_all. rewrite Nat.eqb_refl. reflexivity.
Qed.

Lemma wrun_sim pat text : pat <> [] -> forall fuel st, Rinv pat text st ->
  wrun fuel pat text st = POk (wl fuel (skipn (w_i st) text) (skipn (w_j st) pat) (bt_of pat text st)).
Proof.
  intros Hne.
  assert (1 <= List.length pat)%nat as Hpl by (destruct pat; [congruence|cbn; lia]).
  induction fuel as [|f IH]; intros st HR; [reflexivity|].
  destruct st as [i j star tmp has]. destruct HR as [Hi [Hj Hh]]. cbn [w_i w_j w_star w_tmp w_has] in *.
  cbn [wrun]. unfold wstep. cbn [w_i w_j w_star w_tmp w_has].
  rewrite (psub_ok (List.length pat) 1) by lia. cbn [pbind].
  unfold bt_of. cbn [w_has w_star w_tmp].
  destruct (Nat.ltb_spec i (List.length text)) as [Hlt|Hge].
  2:{ (* i = text_len *)
    cbn [andb]. rewrite wskip_spec by lia. cbn [pbind].
    replace (skipn i text) with (@nil N) by (symmetry; apply skipn_nil_iff; lia).
    cbn [wl]. reflexivity. }
  destruct (skipn_nth text i Hlt) as [c [Ec Sc]]. rewrite Sc.
  cbn [andb].
  destruct has.
  - destruct (Hh eq_refl) as [Hstar Htmp]. cbn [negb orb].
    destruct (Nat.eqb_spec star (List.length pat - 1)) as [Heq|Hneq]; cbn [negb].
    + (* star is the last pattern element: the loop exits *)
      rewrite wskip_spec by lia. cbn [pbind].
      replace (skipn (S star) pat) with (@nil patelem) by (symmetry; apply skipn_nil_iff; lia).
      cbn [wl]. reflexivity.
    + assert (S star < List.length pat)%nat as HS by lia.
      destruct (skipn_nth pat (S star) HS) as [eb [_ Sb]]. rewrite Sb.
      assert (tmp < List.length text)%nat as Htl by lia.
      destruct (skipn_nth text tmp Htl) as [c0 [_ St]].
      cbn [wl].
      destruct (Nat.ltb_spec j (List.length pat)) as [Hjl|Hjg].
      * destruct (skipn_nth pat j Hjl) as [e [Ee Se]]. rewrite Se. unfold idx. rewrite Ee. cbn [pbind].
        destruct e as [x|]; cbn [is_star].
        -- rewrite Ec. cbn [pbind]. destruct (N.eqb x c).
           ++ cbn [pbind]; rewrite IH; [cbn [w_i w_j]; unfold bt_of; cbn [w_has w_star w_tmp]; rewrite Sb; reflexivity|].
              repeat split; cbn [w_i w_j w_has w_star w_tmp]; try lia.
           ++ rewrite St.
              cbn [pbind]; rewrite IH; [cbn [w_i w_j]; unfold bt_of; cbn [w_has w_star w_tmp]; rewrite Sb; reflexivity|].
              repeat split; cbn [w_i w_j w_has w_star w_tmp]; try lia.
        -- cbn [pbind]; rewrite IH; [cbn [w_i w_j]; unfold bt_of; cbn [w_has w_star w_tmp]; rewrite Sc; reflexivity|].
           repeat split; cbn [w_i w_j w_has w_star w_tmp]; try lia.
      * cbn [pbind].
        replace (skipn j pat) with (@nil patelem) by (symmetry; apply skipn_nil_iff; lia).
        rewrite St.
        cbn [pbind]; rewrite IH; [cbn [w_i w_j]; unfold bt_of; cbn [w_has w_star w_tmp]; rewrite Sb; reflexivity|].
        repeat split; cbn [w_i w_j w_has w_star w_tmp]; try lia.
  - cbn [negb orb]. cbn [wl].
    destruct (Nat.ltb_spec j (List.length pat)) as [Hjl|Hjg].
    + destruct (skipn_nth pat j Hjl) as [e [Ee Se]]. rewrite Se. unfold idx. rewrite Ee. cbn [pbind].
      destruct e as [x|]; cbn [is_star].
      * rewrite Ec. cbn [pbind]. destruct (N.eqb x c); [|reflexivity].
        
        cbn [pbind]; rewrite IH; [cbn [w_i w_j]; unfold bt_of; cbn [w_has w_star w_tmp]; reflexivity|].
        repeat split; cbn [w_i w_j w_has w_star w_tmp]; try lia; discriminate.
      * cbn [pbind]; rewrite IH; [cbn [w_i w_j]; unfold bt_of; cbn [w_has w_star w_tmp]; rewrite Sc; reflexivity|].
        repeat split; cbn [w_i w_j w_has w_star w_tmp]; try lia.
    + cbn [pbind].
      replace (skipn j pat) with (@nil patelem) by (symmetry; apply skipn_nil_iff; lia).
      reflexivity.
Qed.

(* the index-level code neither panics nor runs out of fuel, and computes the declarative matcher *)
Theorem wildcard_indexed_refines : forall pat text, wildcard_indexed pat text = POk (Some (wildcard pat text)).
Proof.
  intros pat text. rewrite <- wildcard_loop_correct. unfold wildcard_indexed, wildcard_loop.
  destruct pat as [|e pat']; [destruct text; reflexivity|].
  set (pat := e :: pat').
  rewrite wrun_sim; [|discriminate|repeat split; cbn; try lia; discriminate].
  cbn [w_i w_j]. unfold bt_of. cbn [w_has skipn].
  destruct (wl (wl_fuel pat text) text pat None) as [b|] eqn:E; [reflexivity|].
  exfalso. eapply (wl_terminates (wl_fuel pat text) text pat None); [exact I | unfold wl_fuel; lia | exact E].
Qed.
