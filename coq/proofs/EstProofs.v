(* EstProofs.v — the EST round trip  est_to_ast_expr (ast_to_est_expr e) = Ok e  on the
   JSON-representable fragment, and its lifting to condition lists. *)
From Coq Require Import String Lia.
From Cedar Require Import Est.
Open Scope Z_scope.

Definition both_bool (a b : expr) : bool :=
  match a, b with Lit (PBool _), Lit (PBool _) => true | _, _ => false end.

(* The JSON-representable fragment (what From<ast::Expr> for est::Expr followed by try_into_ast
   reproduces exactly).  Excluded: `Unknown` (serialised as a call of the function "unknown");
   `&&`/`||` nodes whose two operands are Boolean literals (the AST builder folds them);
   longs outside i64; extension function names that are not known single identifiers;
   entity type names that Name::from_normalized_str does not read back; record literals whose
   item list is not in BTreeMap order (sort_assoc l = l: key-sorted, duplicate free). *)
Fixpoint Rep (e : expr) : Prop :=
  match e with
  | Lit (PLong z) => in_i64 z = true
  | Lit (PEntity u) => parse_name (print_name (uty u)) = Some (uty u)
  | Lit _ | Var _ | Slot _ => True
  | Unknown _ _ => False
  | If a b c => Rep a /\ Rep b /\ Rep c
  | And a b | Or a b => both_bool a b = false /\ Rep a /\ Rep b
  | UnApp _ a | GetAttr a _ | HasAttr a _ | Like a _ => Rep a
  | BinApp _ a b => Rep a /\ Rep b
  | ExtCall fn args =>
      (exists k, fn = [k] /\ str_mem k known_ext_fns = true) /\
      (fix all (l : list expr) : Prop := match l with [] => True | x :: l' => Rep x /\ all l' end) args
  | Is a t => parse_name (print_name t) = Some t /\ Rep a
  | SetE l => (fix all (l : list expr) : Prop := match l with [] => True | x :: l' => Rep x /\ all l' end) l
  | RecordE l =>
      sort_assoc l = l /\
      (fix allr (l : list (str * expr)) : Prop :=
         match l with [] => True | kv :: l' => Rep (snd kv) /\ allr l' end) l
  end.

(* ---- decoding equations, one per JSON shape (all by computation) ---- *)
Lemma dec_if a b c :
  est_to_ast_expr (obj1 "if-then-else" (JObj [(K "if", a); (K "then", b); (K "else", c)])) =
  (do x <- est_to_ast_expr a; do y <- est_to_ast_expr b; do z <- est_to_ast_expr c; Ok (If x y z)).
Proof. reflexivity. Qed.

Lemma dec_and a b :
  est_to_ast_expr (obj1 "&&" (lr a b)) =
  (do x <- est_to_ast_expr a; do y <- est_to_ast_expr b; Ok (mk_and x y)).
Proof. reflexivity. Qed.

Lemma dec_or a b :
  est_to_ast_expr (obj1 "||" (lr a b)) =
  (do x <- est_to_ast_expr a; do y <- est_to_ast_expr b; Ok (mk_or x y)).
Proof. reflexivity. Qed.

Lemma dec_unop o a :
  est_to_ast_expr (obj1 (unop_key o) (JObj [(K "arg", a)])) = (do x <- est_to_ast_expr a; Ok (UnApp o x)).
Proof. destruct o; reflexivity. Qed.

Lemma dec_binop o a b :
  est_to_ast_expr (obj1 (binop_key o) (lr a b)) =
  (do x <- est_to_ast_expr a; do y <- est_to_ast_expr b; Ok (BinApp o x y)).
Proof. destruct o; reflexivity. Qed.

Lemma dec_getattr a k :
  est_to_ast_expr (obj1 "." (JObj [(K "left", a); (K "attr", JStr k)])) = (do x <- est_to_ast_expr a; Ok (GetAttr x k)).
Proof. reflexivity. Qed.

Lemma dec_hasattr a k :
  est_to_ast_expr (obj1 "has" (JObj [(K "left", a); (K "attr", JStr k)])) = (do x <- est_to_ast_expr a; Ok (HasAttr x k)).
Proof. reflexivity. Qed.

Lemma dec_like a p :
  est_to_ast_expr (obj1 "like" (JObj [(K "left", a); (K "pattern", JArr p)])) =
  match pattern_of p with
  | Some pat => do x <- est_to_ast_expr a; Ok (Like x pat)
  | None => bad
  end.
Proof. reflexivity. Qed.

Lemma dec_is a t :
  est_to_ast_expr (obj1 "is" (JObj [(K "left", a); (K "entity_type", JStr t)])) =
  match parse_name t with
  | Some ty => do x <- est_to_ast_expr a; Ok (Is x ty)
  | None => bad
  end.
Proof. unfold obj1. cbn -[parse_name]. destruct (parse_name t); reflexivity. Qed.

Lemma dec_entity t i :
  value_to_expr (JObj [(K "__entity", JObj [(K "type", JStr t); (K "id", JStr i)])]) =
  match parse_name t with
  | Some n => Ok (Lit (PEntity (mkUid n i)))
  | None => bad
  end.
Proof. reflexivity. Qed.

Lemma pattern_rt p : pattern_of (map patelem_to_est p) = Some p.
Proof.
  induction p as [|x p IH]; [reflexivity|].
  cbn [map pattern_of]. rewrite IH. destruct x; reflexivity.
Qed.

Lemma mk_and_no_fold a b : both_bool a b = false -> mk_and a b = And a b.
Proof. destruct a as [[]| | | | | | | | | | | | | | |]; try reflexivity; destruct b as [[]| | | | | | | | | | | | | | |]; try reflexivity; discriminate. Qed.
Lemma mk_or_no_fold a b : both_bool a b = false -> mk_or a b = Or a b.
Proof. destruct a as [[]| | | | | | | | | | | | | | |]; try reflexivity; destruct b as [[]| | | | | | | | | | | | | | |]; try reflexivity; discriminate. Qed.

(* ---- the round trip on expressions ---- *)
Lemma est_expr_roundtrip : forall e, Rep e -> est_to_ast_expr (ast_to_est_expr e) = Ok e.
Proof.
  fix IH 1. intros e. destruct e; intros HR; cbn [ast_to_est_expr].
  - (* Lit *)
    destruct p as [b|z|s|u]; try reflexivity.
    + cbn in HR. unfold obj1, prim_to_est. cbn. rewrite HR. reflexivity.
    + cbn [Rep] in HR. unfold obj1, prim_to_est, uid_json.
      change (est_to_ast_expr (JObj [(K "Value", JObj [(K "__entity", JObj [(K "type", JStr (print_name (uty u))); (K "id", JStr (ueid u))])])]))
        with (value_to_expr (JObj [(K "__entity", JObj [(K "type", JStr (print_name (uty u))); (K "id", JStr (ueid u))])])).
      rewrite dec_entity, HR. destruct u; reflexivity.
  - destruct v; reflexivity.
  - destruct s; reflexivity.
  - destruct HR.
  - destruct HR as (Ha & Hb & Hc). rewrite dec_if, (IH _ Ha), (IH _ Hb), (IH _ Hc). reflexivity.
  - destruct HR as (Hf & Ha & Hb). rewrite dec_and, (IH _ Ha), (IH _ Hb). cbn [bind]. now rewrite mk_and_no_fold.
  - destruct HR as (Hf & Ha & Hb). rewrite dec_or, (IH _ Ha), (IH _ Hb). cbn [bind]. now rewrite mk_or_no_fold.
  - cbn [Rep] in HR. rewrite dec_unop, (IH _ HR). reflexivity.
  - destruct HR as (Ha & Hb). rewrite dec_binop, (IH _ Ha), (IH _ Hb). reflexivity.
  - (* ExtCall *)
    destruct HR as ((k & -> & Hk) & Hall). cbn [print_name].
    cbn -[str_mem known_ext_fns]. rewrite Hk.
    assert (Hgo : (fix go (l : list json) : res (list expr) :=
                     match l with
                     | [] => Ok []
                     | x :: l' => do e <- est_to_ast_expr x; do es <- go l'; Ok (e :: es)
                     end) (map ast_to_est_expr args) = Ok args).
    { induction args as [|x args IHl]; [reflexivity|].
      destruct Hall as (Hx & Hall). cbn [map]. rewrite (IH _ Hx), (IHl Hall). reflexivity. }
    rewrite Hgo. reflexivity.
  - cbn [Rep] in HR. rewrite dec_getattr, (IH _ HR). reflexivity.
  - cbn [Rep] in HR. rewrite dec_hasattr, (IH _ HR). reflexivity.
  - cbn [Rep] in HR. rewrite dec_like, pattern_rt, (IH _ HR). reflexivity.
  - destruct HR as (Ht & Ha). rewrite dec_is, Ht, (IH _ Ha). reflexivity.
  - (* Set *)
    cbn [Rep] in HR. unfold obj1. cbn.
    assert (Hgo : (fix go (l : list json) : res (list expr) :=
                     match l with
                     | [] => Ok []
                     | x :: l' => do e <- est_to_ast_expr x; do es <- go l'; Ok (e :: es)
                     end) (map ast_to_est_expr items) = Ok items).
    { induction items as [|x items IHl]; [reflexivity|].
      destruct HR as (Hx & Hall). cbn [map]. rewrite (IH _ Hx), (IHl Hall). reflexivity. }
    rewrite Hgo. reflexivity.
  - (* Record *)
    destruct HR as (Hs & Hall). unfold obj1. cbn -[sort_assoc].
    assert (Hgo : (fix gor (l : list (str * json)) : res (list (str * expr)) :=
                     match l with
                     | [] => Ok []
                     | (k, x) :: l' => do e <- est_to_ast_expr x; do es <- gor l'; Ok ((k, e) :: es)
                     end) (map (fun kv => (fst kv, ast_to_est_expr (snd kv))) items) = Ok items).
    { clear Hs. induction items as [|[k x] items IHl]; [reflexivity|].
      destruct Hall as (Hx & Hall). cbn [map fst snd]. cbn [snd] in Hx. rewrite (IH _ Hx), (IHl Hall). reflexivity. }
    rewrite Hgo. cbn [bind]. now rewrite Hs.
Qed.

(* ---- conditions ---- *)
Lemma est_conditions_roundtrip_none :
  est_to_ast_conditions (ast_to_est_conditions None) = Ok None.
Proof. reflexivity. Qed.

Lemma est_conditions_roundtrip e :
  Rep e -> has_slot e = false -> json_nodup (ast_to_est_expr e) = true ->
  est_to_ast_conditions (ast_to_est_conditions (Some e)) = Ok (Some e).
Proof.
  intros HR Hs Hn. unfold est_to_ast_conditions, ast_to_est_conditions.
  assert (Hnd : json_nodup (JArr [JObj [(K "kind", JStr (K "when")); (K "body", ast_to_est_expr e)]]) = true).
  { cbn -[ast_to_est_expr]. rewrite Hn. reflexivity. }
  rewrite Hnd. cbn [negb mapM].
  assert (Hc : clause_to_ast (JObj [(K "kind", JStr (K "when")); (K "body", ast_to_est_expr e)]) = Ok e).
  { unfold clause_to_ast. cbn -[est_to_ast_expr ast_to_est_expr]. rewrite (est_expr_roundtrip _ HR). cbn [bind]. now rewrite Hs. }
  rewrite Hc. reflexivity.
Qed.

(* the `unless` clause and multi-clause folding of accepted JSON (EST -> AST direction) *)
Lemma fold_conditions_two a b : fold_conditions [a; b] = Some (mk_and a b).
Proof. reflexivity. Qed.
