(* TypecheckProofs4.v — C03 soundness, continued: < and <= (longs, datetime, duration), isEmpty,
   contains / containsAll / containsAny. *)
From Cedar Require Import Typecheck ValueProofs ConformProofs ExprEq TypecheckProofs.
#[local] Hint Resolve at_true at_never caps_hold_nil caps_hold_app caps_hold_inter_l caps_hold_inter_r : c03.

(* ---------------------------------------------------------------------------------------
   < and <= *)
(* the typing rule, for operand types that have an inhabitant *)
Lemma less_typing (ta tb : ty) (r : option (ty * caps)) (t : ty) (cs' : caps) :
  ta <> TNever -> tb <> TNever ->
  match ta, tb with
  | TNever, TNever => None
  | TNever, o | o, TNever => if valid_cmp_ty o then Some (TBool BAny, []) else None
  | _, _ => if ty_eqb ta tb && valid_cmp_ty ta then Some (TBool BAny, []) else None
  end = Some (t, cs') ->
  t = TBool BAny /\ cs' = [] /\ ty_eqb ta tb && valid_cmp_ty ta = true.
Proof.
  intros Ha Hb H.
  destruct ta; try (exfalso; apply Ha; reflexivity); destruct tb; try (exfalso; apply Hb; reflexivity);
    cbv beta iota in H;
    (match type of H with (if ?c then _ else _) = _ => destruct c eqn:E end; [|discriminate H]);
    inversion H; subst; auto.
Qed.

Lemma ext_cmp_total less x y :
  ext_typename y = ext_typename x ->
  name_eqb (ext_typename x) [s2str "datetime"] || name_eqb (ext_typename x) [s2str "duration"] = true ->
  exists r, ext_overload_cmp less x y = Some r.
Proof.
  intros Hy Hn.
  destruct x; destruct y; try (eexists; reflexivity); exfalso;
    first [(cbv in Hy; discriminate Hy) | (cbv in Hn; discriminate Hn)].
Qed.

Lemma less_values less ta tb va vb :
  ty_eqb ta tb && valid_cmp_ty ta = true -> TypeConforms va ta -> TypeConforms vb tb ->
  exists r, binary_relation less va vb = Ok (VBool r).
Proof.
  intros Hc Hva Hvb. apply andb_prop in Hc. destruct Hc as [Heq Hval].
  destruct ta; cbn [valid_cmp_ty] in Hval; try discriminate Hval.
  - destruct tb; try discriminate Heq. inversion Hva; subst. inversion Hvb; subst. cbn. eauto.
  - destruct tb; try discriminate Heq. cbn [ty_eqb] in Heq. apply name_eqb_eq in Heq. subst n0.
    inversion Hva; subst. inversion Hvb; subst.
    destruct (ext_cmp_total less x x0) as [r Hr]; [congruence|exact Hval|].
    cbn [binary_relation]. rewrite Hr. eauto.
Qed.

Lemma sound_less m sch env q es op a b :
  op = BLess \/ op = BLessEq ->
  IHfor m sch env q es a -> IHfor m sch env q es b -> IHfor m sch env q es (BinApp op a b).
Proof.
  intros Hop IHa IHb cs t cs' Hcs Htc.
  assert (Htc' : match tc m sch env cs a, tc m sch env cs b with
                 | Some (ta, _), Some (tb, _) =>
                     match ta, tb with
                     | TNever, TNever => None
                     | TNever, o | o, TNever => if valid_cmp_ty o then Some (TBool BAny, []) else None
                     | _, _ => if ty_eqb ta tb && valid_cmp_ty ta then Some (TBool BAny, []) else None
                     end
                 | _, _ => None
                 end = Some (t, cs')).
  { destruct Hop as [->| ->]; exact Htc. }
  clear Htc.
  destruct (tc m sch env cs a) as [[ta ca]|] eqn:Ea; [|discriminate Htc'].
  destruct (tc m sch env cs b) as [[tb cb]|] eqn:Eb; [|discriminate Htc'].
  destruct (IHa _ _ _ Hcs Ea) as [_ Da]. destruct (IHb _ _ _ Hcs Eb) as [_ Db].
  assert (Hev : eval [] q es (BinApp op a b) =
                (do va <- eval [] q es a; do vb <- eval [] q es b; binary_app es op va vb)) by reflexivity.
  (* an operand that fails makes the whole comparison fail with the same (permitted) error; the static part
     needs the types only when both operands have values *)
  destruct Da as [(c & He & Hc)|(va & He & Hva & _)].
  { assert (Hshape : t = TBool BAny /\ cs' = []).
    { destruct ta; destruct tb; cbv beta iota in Htc';
        try discriminate Htc';
        (match type of Htc' with (if ?c then _ else _) = _ => destruct c end; [|discriminate Htc']);
        inversion Htc'; auto. }
    destruct Hshape as [-> ->]. split; [stat|]. left. exists c. rewrite Hev, He. auto. }
  destruct Db as [(c & He2 & Hc)|(vb & He2 & Hvb & _)].
  { assert (Hshape : t = TBool BAny /\ cs' = []).
    { destruct ta; destruct tb; cbv beta iota in Htc';
        try discriminate Htc';
        (match type of Htc' with (if ?c then _ else _) = _ => destruct c end; [|discriminate Htc']);
        inversion Htc'; auto. }
    destruct Hshape as [-> ->]. split; [stat|]. left. exists c. rewrite Hev, He, He2. auto. }
  assert (Ha : ta <> TNever) by (intros ->; eapply conf_never; eauto).
  assert (Hb : tb <> TNever) by (intros ->; eapply conf_never; eauto).
  destruct (less_typing _ _ None _ _ Ha Hb Htc') as (-> & -> & Hc).
  split; [stat|].
  destruct (less_values (match op with BLess => true | _ => false end) _ _ _ _ Hc Hva Hvb) as [r Hr].
  right. exists (VBool r). rewrite Hev, He, He2. cbn [bind].
  split; [destruct Hop as [->| ->]; exact Hr|]. split; [constructor|intros _; apply caps_hold_nil].
Qed.

(* ---------------------------------------------------------------------------------------
   sets: isEmpty, contains, containsAll, containsAny (total on sets, boolean result) *)
Lemma expect_set t : existsb (subty Permissive t) [ty_any_set] = true -> (exists e, t = TSet e) \/ t = TNever.
Proof. destruct t; cbn; try discriminate; eauto. Qed.

Lemma set_value v t : existsb (subty Permissive t) [ty_any_set] = true -> TypeConforms v t -> exists l, v = VSet l.
Proof.
  intros Hs Hc. destruct (expect_set _ Hs) as [[e ->]| ->]; [inversion Hc; subst; eauto|exfalso; eapply conf_never; eauto].
Qed.

Lemma sound_isempty m sch env q es a : IHfor m sch env q es a -> IHfor m sch env q es (UnApp UIsEmpty a).
Proof.
  intros IHa cs t cs' Hcs Htc. cbn [tc] in Htc. get_expect Htc ta ca Ea. inversion Htc; subst. clear Htc.
  apply expect_inv in Ea. destruct Ea as [Ea Hsa]. destruct (IHa _ _ _ Hcs Ea) as [_ Da].
  split; [stat|]. unfold dyn_result.
  change (eval [] q es (UnApp UIsEmpty a)) with (do v <- eval [] q es a; unary_app UIsEmpty v).
  destruct Da as [(c & He & Hc)|(va & He & Hva & _)].
  { left. exists c. rewrite He. auto. }
  destruct (set_value _ _ Hsa Hva) as [l ->].
  right. eexists. rewrite He. split; [reflexivity|]. split; [apply conf_vbool; exact I|intros _; apply caps_hold_nil].
Qed.

Lemma sound_contains m sch env q es a b :
  IHfor m sch env q es a -> IHfor m sch env q es b -> IHfor m sch env q es (BinApp BContains a b).
Proof.
  intros IHa IHb cs t cs' Hcs Htc. cbn [tc] in Htc.
  get_expect Htc ta ca Ea.
  destruct (tc m sch env cs b) as [[tb cb]|] eqn:Eb; [|discriminate Htc].
  assert (Hshape : t = TBool BAny /\ cs' = []).
  { destruct (is_strict m); [destruct ta as [| | | |[e|]| | |]; try (destruct (strict_eq_ok _ _ _ _))|]; inversion Htc; auto. }
  destruct Hshape as [-> ->]. clear Htc.
  apply expect_inv in Ea. destruct Ea as [Ea Hsa].
  destruct (IHa _ _ _ Hcs Ea) as [_ Da]. destruct (IHb _ _ _ Hcs Eb) as [_ Db].
  split; [stat|]. unfold dyn_result.
  change (eval [] q es (BinApp BContains a b)) with
    (do va <- eval [] q es a; do vb <- eval [] q es b; binary_app es BContains va vb).
  destruct Da as [(c & He & Hc)|(va & He & Hva & _)].
  { left. exists c. rewrite He. auto. }
  destruct Db as [(c & He2 & Hc)|(vb & He2 & Hvb & _)].
  { left. exists c. rewrite He, He2. auto. }
  destruct (set_value _ _ Hsa Hva) as [l ->].
  right. eexists. rewrite He, He2. split; [reflexivity|]. split; [apply conf_vbool; exact I|intros _; apply caps_hold_nil].
Qed.

Lemma sound_contains_aa m sch env q es op a b :
  op = BContainsAll \/ op = BContainsAny ->
  IHfor m sch env q es a -> IHfor m sch env q es b -> IHfor m sch env q es (BinApp op a b).
Proof.
  intros Hop IHa IHb cs t cs' Hcs Htc.
  assert (Htc' : match expect (tc m sch env cs a) [ty_any_set], expect (tc m sch env cs b) [ty_any_set] with
                 | Some (ta, _), Some (tb, _) =>
                     if is_strict m then (if strict_eq_ok m (TBool BAny) ta tb then Some (TBool BAny, []) else None)
                     else Some (TBool BAny, [])
                 | _, _ => None
                 end = Some (t, cs')).
  { destruct Hop as [->| ->]; exact Htc. }
  clear Htc. get_expect Htc' ta ca Ea. get_expect Htc' tb cb Eb.
  assert (Hshape : t = TBool BAny /\ cs' = []).
  { destruct (is_strict m); [destruct (strict_eq_ok _ _ _ _)|]; inversion Htc'; auto. }
  destruct Hshape as [-> ->]. clear Htc'.
  apply expect_inv in Ea. destruct Ea as [Ea Hsa]. apply expect_inv in Eb. destruct Eb as [Eb Hsb].
  destruct (IHa _ _ _ Hcs Ea) as [_ Da]. destruct (IHb _ _ _ Hcs Eb) as [_ Db].
  split; [stat|]. unfold dyn_result.
  assert (Hev : eval [] q es (BinApp op a b) =
                (do va <- eval [] q es a; do vb <- eval [] q es b; binary_app es op va vb)) by reflexivity.
  destruct Da as [(c & He & Hc)|(va & He & Hva & _)].
  { left. exists c. rewrite Hev, He. auto. }
  destruct Db as [(c & He2 & Hc)|(vb & He2 & Hvb & _)].
  { left. exists c. rewrite Hev, He, He2. auto. }
  destruct (set_value _ _ Hsa Hva) as [l1 ->]. destruct (set_value _ _ Hsb Hvb) as [l2 ->].
  right. rewrite Hev, He, He2. cbn [bind].
  destruct Hop as [->| ->]; eexists; (split; [reflexivity|]); (split; [apply conf_vbool; exact I|intros _; apply caps_hold_nil]).
Qed.
