(* FmtLexProofs.v — structural facts about the lexer of model/Fmt.v:
   the accumulator is only a prefix (lex_out), and lexing is compositional over a newline:
   texts that lex separately lex, joined by a newline, to the concatenation of their items
   (policies_str_to_pretty formats policy by policy, joins with blank lines and appends the
   end-of-file comments line by line). *)
From Coq Require Import Lia.
From Cedar Require Import Fmt.
Local Open Scope nat_scope.
Local Open Scope list_scope.

Definition pre (out : list item) (r : option (list item)) : option (list item) :=
  option_map (app (rev out)) r.

Lemma pre_push e out r : pre (push e out) r = pre out (pre (push e []) r).
Proof.
  destruct r as [r|]; [|reflexivity]. destruct e as [i|]; cbn; [rewrite <- app_assoc|]; reflexivity.
Qed.

Lemma pre_cons_push i e out r : pre (i :: push e out) r = pre out (pre (i :: push e []) r).
Proof.
  destruct r as [r|]; [|reflexivity]. destruct e as [j|]; cbn; repeat rewrite <- app_assoc; reflexivity.
Qed.

Lemma flush_out m out :
  option_map (@rev item) (flush m out) = pre out (option_map (@rev item) (flush m [])).
Proof.
  unfold pre. destruct m; cbn; try destruct (slot_ok _); cbn; rewrite ?app_nil_r; reflexivity.
Qed.

Lemma lex_nil m out : lex m [] out = option_map (@rev item) (flush m out).
Proof. reflexivity. Qed.

Lemma lex_cons m c s' out :
  lex m (c :: s') out =
  match continue m c with
  | Fail => None
  | Absorb m' e => lex m' s' (push e out)
  | Restart e =>
      if is_ws c then lex MTop s' (push e out)
      else if (c =? 34)%N then lex (MStr [c] false) s' (push e out)
      else if is_word_start c then lex (MWord [c]) s' (push e out)
      else if is_digit c then lex (MNum [c]) s' (push e out)
      else if (c =? 63)%N then lex (MSlot [c]) s' (push e out)
      else
        match s' with
        | d :: s'' =>
            if ((c =? 47) && (d =? 47))%N then lex (MCom [d; c]) s'' (push e out)
            else if is_double c d then lex MTop s'' (ITok (TSym [c; d]) :: push e out)
            else if is_single c then lex MTop s' (ITok (TSym [c]) :: push e out)
            else None
        | [] => if is_single c then lex MTop s' (ITok (TSym [c]) :: push e out) else None
        end
  end.
Proof. reflexivity. Qed.

Ltac leaf IH :=
  match goal with
  | |- lex ?M ?S ?O = pre ?out (lex ?M ?S ?O') =>
      rewrite (IH M O), (IH M O'); (apply pre_push || apply pre_cons_push)
  end.

Lemma lex_out_n : forall n s, length s <= n -> forall m out, lex m s out = pre out (lex m s []).
Proof.
  induction n as [|n IHn]; intros s Hl m out.
  - destruct s; [|cbn in Hl; lia]. rewrite !lex_nil. apply flush_out.
  - destruct s as [|c s']; [rewrite !lex_nil; apply flush_out|].
    assert (IH1 : forall m out, lex m s' out = pre out (lex m s' [])) by (intros; apply IHn; cbn in Hl; lia).
    rewrite !lex_cons.
    destruct (continue m c) as [m' e|e|]; [| |reflexivity].
    + leaf IH1.
    + destruct (is_ws c); [leaf IH1|]. destruct (c =? 34)%N; [leaf IH1|].
      destruct (is_word_start c); [leaf IH1|]. destruct (is_digit c); [leaf IH1|].
      destruct (c =? 63)%N; [leaf IH1|].
      destruct s' as [|d s''].
      * destruct (is_single c); [leaf IH1|reflexivity].
      * assert (IH2 : forall m out, lex m s'' out = pre out (lex m s'' [])) by (intros; apply IHn; cbn in Hl; lia).
        destruct ((c =? 47) && (d =? 47))%N; [leaf IH2|]. destruct (is_double c d); [leaf IH2|].
        destruct (is_single c); [leaf IH1|reflexivity].
Qed.

Lemma lex_out m s out : lex m s out = pre out (lex m s []).
Proof. apply (lex_out_n (length s)); lia. Qed.

Lemma is_double_nl c : is_double c 10 = false.
Proof. unfold is_double. cbn. rewrite !andb_false_r. reflexivity. Qed.

Lemma join_n s2 : forall n s1, length s1 <= n -> forall m out l1,
  lex m s1 out = Some l1 -> lex m (s1 ++ 10%N :: s2) out = option_map (app l1) (clex s2).
Proof.
  induction n as [|n IHn]; intros s1 Hl m out l1 H.
  - destruct s1; [|cbn in Hl; lia]. cbn [app]. rewrite lex_nil in H. rewrite lex_cons.
    unfold clex.
    destruct m; cbn in H |- *.
    + injection H as <-. rewrite lex_out. reflexivity.
    + injection H as <-. rewrite lex_out. reflexivity.
    + injection H as <-. rewrite lex_out. reflexivity.
    + destruct (slot_ok (rev acc)); [|discriminate]. injection H as <-. rewrite lex_out. reflexivity.
    + discriminate.
    + injection H as <-. rewrite lex_out. reflexivity.
  - destruct s1 as [|c s1'].
    + apply (IHn []); [cbn; lia | exact H].
    + cbn [app]. rewrite lex_cons in H |- *.
      assert (IH1 : forall m out l1, lex m s1' out = Some l1 ->
                lex m (s1' ++ 10%N :: s2) out = option_map (app l1) (clex s2))
        by (intros; apply IHn; [cbn in Hl; lia | assumption]).
      destruct (continue m c) as [m' e|e|]; [| |discriminate].
      * apply IH1; exact H.
      * destruct (is_ws c); [apply IH1; exact H|]. destruct (c =? 34)%N; [apply IH1; exact H|].
        destruct (is_word_start c); [apply IH1; exact H|]. destruct (is_digit c); [apply IH1; exact H|].
        destruct (c =? 63)%N; [apply IH1; exact H|].
        destruct s1' as [|d s1'']; cbn [app].
        -- replace ((c =? 47) && (10 =? 47))%N with false by (rewrite andb_false_r; reflexivity).
           rewrite is_double_nl.
           destruct (is_single c); [|discriminate]. apply (IH1 _ _ _ H).
        -- destruct ((c =? 47) && (d =? 47))%N; [apply IHn; [cbn in Hl; lia | exact H]|].
           destruct (is_double c d); [apply IHn; [cbn in Hl; lia | exact H]|].
           destruct (is_single c); [|discriminate]. apply (IH1 _ _ _ H).
Qed.

(* texts that lex separately lex, joined by a newline, to the concatenation of their items *)
Lemma clex_join s1 s2 l1 l2 :
  clex s1 = Some l1 -> clex s2 = Some l2 -> clex (s1 ++ 10%N :: s2) = Some (l1 ++ l2).
Proof.
  intros H1 H2. unfold clex in *. rewrite (join_n s2 (length s1) s1 (le_n _) MTop [] l1 H1).
  unfold clex. rewrite H2. reflexivity.
Qed.

(* formatting piece by piece and joining the pieces with a newline preserves, if each piece does *)
Lemma fmt_ok_join a a' b b' :
  fmt_ok a a' -> fmt_ok b b' -> fmt_ok (a ++ 10%N :: b) (a' ++ 10%N :: b').
Proof.
  intros [l [Ha Ha']] [l' [Hb Hb']]. exists (l ++ l'). split; apply clex_join; assumption.
Qed.
