(* TypecheckMain.v — C03: the proved fragment `in_fragment` and the main induction. *)
From Cedar Require Import Typecheck ValueProofs ConformProofs ExprEq TypecheckProofs TypecheckProofs2 TypecheckProofs3 TypecheckProofs4 TypecheckIf.

(* ---------------------------------------------------------------------------------------
   the proved fragment *)
Fixpoint in_fragment (e : expr) : bool :=
  match e with
  | Lit _ | Var _ => true
  | And a b | Or a b => in_fragment a && in_fragment b
  | BinApp BEq a b | BinApp BLess a b | BinApp BLessEq a b | BinApp BAdd a b | BinApp BSub a b | BinApp BMul a b
  | BinApp BContains a b | BinApp BContainsAll a b | BinApp BContainsAny a b =>
      in_fragment a && in_fragment b
  | UnApp _ a => in_fragment a
  | Like x _ | Is x _ => in_fragment x
  | If c x y => in_fragment c && in_fragment x && in_fragment y && boolish' x && boolish' y
  | HasAttr x _ | GetAttr x _ => is_path x
  | _ => false
  end.

Lemma is_path_frag x : is_path x = true -> in_fragment x = true.
Proof. destruct x; cbn; try discriminate; auto. Qed.


Section Main.
  Variable m : vmode.
  Variable sch : schema.
  Variable env : reqenv.
  Variable q : request.
  Variable es : entities.
  Hypothesis Hwf : schema_wf sch = true.
  Hypothesis Hact : forall t, is_action_type t = true -> find_etype sch t = None.
  Hypothesis Hctx : decl_ty_ok (re_context env) = true.
  Hypothesis Henv : env_ok env q.
  Hypothesis Hstore : store_ok sch es.

  Theorem tc_sound : forall e, in_fragment e = true -> IHfor m sch env q es e.
  Proof.
    induction e; cbn [in_fragment]; try discriminate; intros Hf.
    - apply sound_lit.
    - apply sound_var. exact Henv.
    - apply andb_prop in Hf. destruct Hf as [Hf Hby]. apply andb_prop in Hf. destruct Hf as [Hf Hbx].
      apply andb_prop in Hf. destruct Hf as [Hf Hfy]. apply andb_prop in Hf. destruct Hf as [Hfc Hfx].
      apply sound_if'; [exact Hbx|exact Hby|apply IHe1; exact Hfc|apply IHe2; exact Hfx|apply IHe3; exact Hfy].
    - apply andb_prop in Hf. destruct Hf as [H1 H2]. apply sound_and; [apply IHe1; exact H1|apply IHe2; exact H2].
    - apply andb_prop in Hf. destruct Hf as [H1 H2]. apply sound_or; [apply IHe1; exact H1|apply IHe2; exact H2].
    - destruct op.
      + apply sound_not. apply IHe. exact Hf.
      + apply sound_neg. apply IHe. exact Hf.
      + apply sound_isempty. apply IHe. exact Hf.
    - destruct op; try discriminate Hf; apply andb_prop in Hf; destruct Hf as [H1 H2].
      + apply sound_eq; [exact Henv|apply IHe1; exact H1|apply IHe2; exact H2].
      + apply sound_less; [auto|apply IHe1; exact H1|apply IHe2; exact H2].
      + apply sound_less; [auto|apply IHe1; exact H1|apply IHe2; exact H2].
      + apply sound_arith; [auto|apply IHe1; exact H1|apply IHe2; exact H2].
      + apply sound_arith; [auto|apply IHe1; exact H1|apply IHe2; exact H2].
      + apply sound_arith; [auto|apply IHe1; exact H1|apply IHe2; exact H2].
      + apply sound_contains; [apply IHe1; exact H1|apply IHe2; exact H2].
      + apply sound_contains_aa; [auto|apply IHe1; exact H1|apply IHe2; exact H2].
      + apply sound_contains_aa; [auto|apply IHe1; exact H1|apply IHe2; exact H2].
    - apply (sound_getattr m sch env q es Hwf Hact Hctx Hstore); [exact Hf|apply IHe; apply is_path_frag; exact Hf].
    - apply (sound_hasattr m sch env q es Hwf Hact Hctx Hstore); [exact Hf|apply IHe; apply is_path_frag; exact Hf].
    - apply sound_like. apply IHe. exact Hf.
    - apply sound_is. apply IHe. exact Hf.
  Qed.

  (* a condition typed False is never satisfied *)
  Corollary tc_impossible e cs cs' :
    in_fragment e = true -> caps_hold q es cs ->
    tc m sch env cs e = Some (TBool BFalse, cs') -> eval [] q es e <> Ok (VBool true).
  Proof.
    intros Hf Hcs Htc Hev.
    destruct (tc_sound e Hf _ _ _ Hcs Htc) as [_ [(c & He & _)|(v & He & Hv & _)]].
    - rewrite Hev in He. discriminate.
    - rewrite Hev in He. inversion He; subst. inversion Hv.
  Qed.

  (* an accepted condition evaluates to a boolean or fails with a permitted error *)
  Corollary tc_env_sound e t :
    in_fragment e = true ->
    tc_env m sch env e = EnvSuccess t \/ tc_env m sch env e = EnvIrrelevant ->
    (exists c, eval [] q es e = Err c /\ allowed_err c) \/ (exists b, eval [] q es e = Ok (VBool b)).
  Proof.
    intros Hf Hok. unfold tc_env in Hok.
    destruct (expect (tc m sch env [] e) [TBool BAny]) as [[t0 c0]|] eqn:E.
    2:{ destruct Hok; discriminate. }
    apply expect_inv in E. destruct E as [E Hs].
    destruct (tc_sound e Hf _ _ _ (caps_hold_nil q es) E) as [_ [H|(v & He & Hv & _)]]; [left; exact H|].
    destruct (boolean_value _ _ Hs Hv) as (x & b & _ & -> & _). right. eauto.
  Qed.
End Main.
